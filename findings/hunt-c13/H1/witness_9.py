import struct
from wit import *

def _ttf(cmap_sub):
    cmap = struct.pack(">HH", 0, 1) + struct.pack(">HHL", 3, 1, 12) + cmap_sub
    return (b"\x00\x01\x00\x00" + struct.pack(">HHHH", 1, 0, 0, 0)
            + struct.pack(">4sLLL", b"cmap", 0, 28, len(cmap)) + cmap)

# cmap subtable of format 6 (trimmed table mapping): valid TrueType, not handled
TTF_FMT6 = _ttf(struct.pack(">HHHHH", 6, 12, 0, 0x41, 1) + struct.pack(">H", 1))
# format 4 with N segments, each 0..0xFFFF, idRangeOffset 0
_N = 8000
TTF_F4_AMPL = _ttf(struct.pack(">HHH", 4, 0, 0) + struct.pack(">HHHH", _N * 2, 0, 0, 0)
                   + b"\xff\xff" * _N + b"\0\0" + b"\0\0" * _N + b"\0\0" * _N + b"\0\0" * _N)

# OverflowError:pdffont.PDFFont.get_descent
# A FontDescriptor /Descent that is a 400-digit integer is multiplied by the float vscale, leaking OverflowError (int too large to convert to float).
data = font_doc("type1", 7, b"Descent", BIG)
witness(data)
