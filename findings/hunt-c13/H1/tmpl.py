from h import *
import struct

def D(items):  # ordered dict -> bytes
    return b"<< " + b" ".join(b"/" + k + b" " + v for k, v in items) + b" >>"

CMAP_TOUNI = b"""/CIDInit /ProcSet findresource begin
12 dict begin
begincmap
/CIDSystemInfo << /Registry (Adobe) /Ordering (UCS) /Supplement 0 >> def
/CMapName /Adobe-Identity-UCS def
/CMapType 2 def
1 begincodespacerange
<0000> <FFFF>
endcodespacerange
2 beginbfchar
<0041> <0061>
<0042> <00620063>
endbfchar
2 beginbfrange
<0043> <0050> <0063>
<0051> <0053> [<0071> <0072> /s]
endbfrange
1 begincidrange
<0060> <0070> 96
endcidrange
1 begincidchar
<0071> 5
endcidchar
1 beginnotdefrange
<0000> <001f> 0
endnotdefrange
/Identity-H usecmap
endcmap
CMapName currentdict /CMap defineresource pop
end
end
"""

def ttf():
    # minimal TrueType with cmap format 4 (platform 3 enc 1) and format 0 (platform 0)
    segs = [(0x41, 0x5a, 1 - 0x41 & 0xffff, 0), (0xffff, 0xffff, 1, 0)]
    segcount = len(segs)
    f4 = struct.pack(">HHHH", segcount*2, 0, 0, 0)
    f4 += b"".join(struct.pack(">H", s[1]) for s in segs) + b"\0\0"
    f4 += b"".join(struct.pack(">H", s[0]) for s in segs)
    f4 += b"".join(struct.pack(">H", s[2]) for s in segs)
    f4 += b"".join(struct.pack(">H", s[3]) for s in segs)
    f4 = struct.pack(">HHH", 4, 6 + len(f4), 0) + f4
    f0 = struct.pack(">HHH", 0, 262, 0) + bytes(range(256))
    hdr = struct.pack(">HH", 0, 2)
    off0 = 4 + 16
    sub = struct.pack(">HHL", 3, 1, off0) + struct.pack(">HHL", 0, 3, off0 + len(f4))
    cmap = hdr + sub + f4 + f0
    tables = [(b"cmap", cmap), (b"head", b"\0"*54)]
    out = b"\x00\x01\x00\x00" + struct.pack(">HHHH", len(tables), 0, 0, 0)
    off = 12 + 16*len(tables)
    body = b""
    for n, t in tables:
        out += struct.pack(">4sLLL", n, 0, off + len(body), len(t))
        body += t
    return out + body

T1HDR = b"""%!PS-AdobeFont-1.0: Foo 001.001
12 dict begin
/FontInfo 9 dict dup begin
/version (001.001) readonly def
end readonly def
/FontName /Foo def
/Encoding 256 array
0 1 255 {1 index exch /.notdef put} for
dup 65 /A put
dup 66 /B put
dup 72 /H put
dup 101 /e put
readonly def
/PaintType 0 def
/FontMatrix [0.001 0 0 0.001 0 0] readonly def
currentdict end
currentfile eexec
"""
T1BIN = bytes(range(256)) * 2

# each template: dict objid -> (items list, payload or None)
def T_type1():
    return {
        5: ([(b"Type", b"/Font"), (b"Subtype", b"/Type1"), (b"BaseFont", b"/Foo"), (b"FirstChar", b"32"), (b"LastChar", b"127"),
             (b"Widths", b"6 0 R"), (b"FontDescriptor", b"7 0 R")], None),
        6: b"[" + b" 500"*96 + b"]",
        7: ([(b"Type", b"/FontDescriptor"), (b"FontName", b"/Foo"), (b"Flags", b"32"), (b"FontBBox", b"[0 -200 1000 800]"),
             (b"Ascent", b"800"), (b"Descent", b"-200"), (b"ItalicAngle", b"0"), (b"StemV", b"80"), (b"MissingWidth", b"300"), (b"Leading", b"10"),
             (b"FontFile", b"8 0 R")], None),
        8: ([(b"Length1", b"%d" % len(T1HDR)), (b"Length2", b"%d" % len(T1BIN)), (b"Length3", b"0")], T1HDR + T1BIN),
    }

def T_type1enc():
    return {
        5: ([(b"Type", b"/Font"), (b"Subtype", b"/TrueType"), (b"BaseFont", b"/Foo"), (b"FirstChar", b"32"), (b"LastChar", b"127"),
             (b"Widths", b"[" + b" 500"*96 + b"]"), (b"FontDescriptor", b"7 0 R"), (b"Encoding", b"6 0 R"), (b"ToUnicode", b"8 0 R")], None),
        6: ([(b"Type", b"/Encoding"), (b"BaseEncoding", b"/WinAnsiEncoding"), (b"Differences", b"[65 /B /A 72 /uni0048 /u1F600 /foo_bar.alt 200 /g200]")], None),
        7: ([(b"Type", b"/FontDescriptor"), (b"FontName", b"/Foo"), (b"Flags", b"32"), (b"FontBBox", b"[0 -200 1000 800]"),
             (b"Ascent", b"800"), (b"Descent", b"-200"), (b"ItalicAngle", b"0"), (b"StemV", b"80"),
             (b"FontFile2", b"9 0 R")], None),
        8: ([], CMAP_TOUNI),
        9: ([(b"Length1", b"%d" % len(ttf()))], ttf()),
    }

def T_std14():
    return {
        5: ([(b"Type", b"/Font"), (b"Subtype", b"/Type1"), (b"BaseFont", b"/Helvetica"), (b"Encoding", b"/WinAnsiEncoding")], None),
    }

def T_type3():
    return {
        5: ([(b"Type", b"/Font"), (b"Subtype", b"/Type3"), (b"FontBBox", b"[0 0 750 750]"), (b"FontMatrix", b"[0.001 0 0 0.001 0 0]"),
             (b"CharProcs", b"6 0 R"), (b"Encoding", b"7 0 R"), (b"FirstChar", b"65"), (b"LastChar", b"72"),
             (b"Widths", b"[500 500 500 500 500 500 500 500]"), (b"Resources", b"<< >>")], None),
        6: ([(b"a", b"8 0 R"), (b"b", b"8 0 R")], None),
        7: ([(b"Type", b"/Encoding"), (b"Differences", b"[65 /a /b 72 /a]")], None),
        8: ([], b"500 0 0 0 750 750 d1 0 0 750 750 re f"),
    }

def T_cid(vertical=False, tounicode=True, ordering=b"(Identity)", fontfile=True, enc=None):
    enc = enc or (b"/Identity-V" if vertical else b"/Identity-H")
    t = {
        5: ([(b"Type", b"/Font"), (b"Subtype", b"/Type0"), (b"BaseFont", b"/Foo"), (b"Encoding", enc),
             (b"DescendantFonts", b"[6 0 R]")] + ([(b"ToUnicode", b"9 0 R")] if tounicode else []), None),
        6: ([(b"Type", b"/Font"), (b"Subtype", b"/CIDFontType2"), (b"BaseFont", b"/Foo"),
             (b"CIDSystemInfo", b"<< /Registry (Adobe) /Ordering " + ordering + b" /Supplement 0 >>"),
             (b"FontDescriptor", b"7 0 R"), (b"DW", b"1000"), (b"W", b"[0 [500 600] 65 70 700 80 [1 2 3]]"),
             (b"DW2", b"[880 -1000]"), (b"W2", b"[0 [-1000 500 880 -900 400 800] 65 70 -1000 500 880]"),
             (b"CIDToGIDMap", b"/Identity")], None),
        7: ([(b"Type", b"/FontDescriptor"), (b"FontName", b"/Foo"), (b"Flags", b"4"), (b"FontBBox", b"[0 -200 1000 800]"),
             (b"Ascent", b"800"), (b"Descent", b"-200"), (b"ItalicAngle", b"0"), (b"StemV", b"80")] +
             ([(b"FontFile2", b"8 0 R")] if fontfile else []), None),
        8: ([(b"Length1", b"%d" % len(ttf()))], ttf()),
        9: ([], CMAP_TOUNI),
    }
    return t

def T_ciddirect():
    t = T_cid()
    items = [kv for kv in t[6][0]] + [(b"Encoding", b"/Identity-H"), (b"ToUnicode", b"/Identity-H")]
    return {5: (items, None), 7: t[7], 8: t[8]}

TEMPLATES = {
    "type1": T_type1, "ttenc": T_type1enc, "std14": T_std14, "type3": T_type3,
    "cidH": lambda: T_cid(False), "cidV": lambda: T_cid(True),
    "cidH_ttf": lambda: T_cid(False, tounicode=False), "cidV_ttf": lambda: T_cid(True, tounicode=False),
    "cidJ": lambda: T_cid(False, tounicode=False, ordering=b"(Japan1)", fontfile=False, enc=b"/H"),
    "cidJV": lambda: T_cid(True, tounicode=False, ordering=b"(Japan1)", fontfile=False, enc=b"/V"),
    "ciddirect": T_ciddirect,
}

def render(t):
    objs = {}
    for i, v in t.items():
        if isinstance(v, bytes):
            objs[i] = v
        else:
            items, payload = v
            if payload is None:
                objs[i] = D(items)
            else:
                objs[i] = stream(b" ".join(b"/" + k + b" " + x for k, x in items), payload)
    return objs

CONTENT = b"BT /F1 12 Tf 100 700 Td (Hello\\001\\377 World) Tj [(AB) -200 <00410042> 10 (C)] TJ T* (x) ' 1 2 (y) \" ET"
def mk(t):
    return doc(render(t), CONTENT)

if __name__ == "__main__":
    for n, f in TEMPLATES.items():
        d = mk(f())
        print(n, run(d), repr(extract_text(io.BytesIO(d)))[:100])
