"""Shared helpers for the witness scripts (builds small PDFs by hand; library is untouched)."""
import io, os, signal, sys, traceback, logging
sys.path.insert(0, os.path.dirname(os.path.abspath(__file__)))
logging.disable(logging.CRITICAL)
from tmpl import TEMPLATES, mk, stream, D  # PDF builders
from pdfminer.high_level import extract_text, extract_text_to_fp
from pdfminer.psexceptions import PSException
from pdfminer.layout import LAParams

BIG = b"9" * 400
DEEP = b"[" * 3000 + b"]" * 3000

class _Timeout(BaseException):
    pass

def _alarm(sig, frm):
    raise _Timeout()

def setkey(t, oid, key, val):
    items = t[oid][0]
    for i, (k, v) in enumerate(items):
        if k == key:
            if val is None:
                del items[i]
            else:
                items[i] = (k, val)
            return t
    if val is not None:
        items.append((key, val))
    return t

def font_doc(template, oid=None, key=None, val=None, payload_oid=None, payload=None, compress=False):
    t = TEMPLATES[template]()
    if key is not None:
        setkey(t, oid, key, val)
    if payload_oid is not None:
        items = list(t[payload_oid][0])
        if compress:
            import zlib
            payload = zlib.compress(payload)
            items.append((b"Filter", b"/FlateDecode"))
        t[payload_oid] = (items, payload)
    return mk(t)

def witness(data, mode="text", secs=20, la=True):
    signal.signal(signal.SIGALRM, _alarm)
    signal.alarm(secs)
    try:
        try:
            if mode == "text":
                extract_text(io.BytesIO(data))
            else:
                extract_text_to_fp(io.BytesIO(data), io.BytesIO(), output_type=mode, codec="utf-8", laparams=LAParams() if la else None)
        finally:
            signal.alarm(0)
    except PSException as e:
        print("ok: library exception", type(e).__name__)
        sys.exit(0)
    except _Timeout:
        traceback.print_exc(limit=-3)
        print("LEAK: no result after %d seconds for a %d-byte document" % (secs, len(data)))
        sys.exit(1)
    except BaseException as e:
        traceback.print_exc(limit=-4)
        print("LEAK: %s: %s" % (type(e).__name__, str(e)[:200]))
        sys.exit(1)
    print("ok: returned")
    sys.exit(0)
