import io, signal, sys, traceback, zlib, logging, os
sys.path.insert(0, '/tmp/hunt-H1')
logging.disable(logging.CRITICAL)
from pdfminer.high_level import extract_text, extract_pages, extract_text_to_fp
from pdfminer.psexceptions import PSException
from pdfminer.layout import LAParams

class Timeout(BaseException): pass
def _alarm(sig, frm): raise Timeout()
signal.signal(signal.SIGALRM, _alarm)

def stream(d, data, compress=False):
    if compress:
        data = zlib.compress(data)
        d = d + b" /Filter /FlateDecode"
    return b"<< " + d + b" /Length %d >>\nstream\n" % len(data) + data + b"\nendstream"

def build(objs, root=1):
    """objs: dict id -> bytes body"""
    out = io.BytesIO()
    out.write(b"%PDF-1.4\n")
    offs = {}
    for i in sorted(objs):
        offs[i] = out.tell()
        out.write(b"%d 0 obj\n" % i + objs[i] + b"\nendobj\n")
    xref = out.tell()
    n = max(objs) + 1
    out.write(b"xref\n0 %d\n" % n)
    out.write(b"0000000000 65535 f \n")
    for i in range(1, n):
        if i in offs:
            out.write(b"%010d 00000 n \n" % offs[i])
        else:
            out.write(b"0000000000 65535 f \n")
    out.write(b"trailer\n<< /Size %d /Root %d 0 R >>\nstartxref\n%d\n%%%%EOF\n" % (n, root, xref))
    return out.getvalue()

def doc(font_objs, content=b"BT /F1 12 Tf 100 700 Td (Hello\\001\\377 World) Tj [(AB) -200 <0041> 10 (C)] TJ T* (x) ' 1 2 (y) \" ET", extra_res=b""):
    """font_objs: dict id->bytes; font must be object 5."""
    objs = {
        1: b"<< /Type /Catalog /Pages 2 0 R >>",
        2: b"<< /Type /Pages /Kids [3 0 R] /Count 1 >>",
        3: b"<< /Type /Page /Parent 2 0 R /MediaBox [0 0 612 792] /Contents 4 0 R /Resources << /Font << /F1 5 0 R >> " + extra_res + b">> >>",
        4: stream(b"", content),
    }
    objs.update(font_objs)
    return build(objs)

def innermost(tb):
    fr = None
    for f in traceback.extract_tb(tb):
        if '/pdfminer/' in f.filename:
            fr = f
    if fr is None:
        f = traceback.extract_tb(tb)[-1]
        return f"{os.path.basename(f.filename)}.{f.name}"
    return f"{os.path.basename(fr.filename)[:-3]}.{fr.name}:{fr.lineno}"

def run(data, mode="text", secs=20, **kw):
    """returns None if OK, else key string"""
    signal.alarm(secs)
    try:
        try:
            if mode == "text":
                extract_text(io.BytesIO(data), **kw)
            elif mode == "pages":
                for _ in extract_pages(io.BytesIO(data), **kw): pass
            else:
                extract_text_to_fp(io.BytesIO(data), io.BytesIO() if mode not in ("text2",) else io.StringIO(), output_type=mode, codec='utf-8' if mode!='text2' else None, **kw)
        finally:
            signal.alarm(0)
    except PSException:
        return None
    except Timeout:
        tb = sys.exc_info()[2]
        return "Timeout:" + innermost(tb)
    except RecursionError:
        return "RecursionError:" + innermost(sys.exc_info()[2])
    except BaseException as e:
        return f"{type(e).__name__}:{innermost(sys.exc_info()[2])} :: {str(e)[:100]}"
    return None

found = {}
def check(label, data, modes=("text",), **kw):
    for m in modes:
        r = run(data, m, **kw)
        if r:
            k = r.split(" :: ")[0]
            if k not in found:
                found[k] = (label, m)
                print("FOUND", r, "<=", label, m, flush=True)
            return r
    return None
