"""Shared witness runner: exits 1 and prints the leaked exception, 0 otherwise."""
import io, os, sys, signal, traceback, resource, tempfile, logging
sys.path.insert(0, os.path.dirname(os.path.abspath(__file__)))
from mk import build  # noqa

def innermost(tb):
    last = None
    for fs in traceback.extract_tb(tb):
        if "/pdfminer/" in fs.filename or "/tools/" in fs.filename:
            last = "%s.%s" % (os.path.basename(fs.filename)[:-3], fs.name)
    return last

def check(data, mode="fp", timeout=20, mem_gb=3, **kw):
    logging.disable(logging.CRITICAL)
    resource.setrlimit(resource.RLIMIT_AS, (mem_gb << 30, mem_gb << 30))
    def h(*a):
        raise TimeoutError("exceeded %d s" % timeout)
    signal.signal(signal.SIGALRM, h)
    from pdfminer.psexceptions import PSException
    from pdfminer import high_level
    try:
        signal.alarm(timeout)
        try:
            if mode == "pages":
                for p in high_level.extract_pages(io.BytesIO(data), **kw):
                    list(p)
            elif mode == "text":
                high_level.extract_text(io.BytesIO(data), **kw)
            elif callable(mode):
                mode()
            else:
                out = kw.pop("_out", None)
                fp = io.StringIO() if out == "str" else io.BytesIO()
                if kw.get("output_dir") == "TMP":
                    kw["output_dir"] = tempfile.mkdtemp()
                high_level.extract_text_to_fp(io.BytesIO(data), fp, **kw)
        finally:
            signal.alarm(0)
    except PSException as e:
        print("ok: library error", type(e).__name__, e)
        sys.exit(0)
    except BaseException as e:
        if isinstance(e, SystemExit):
            raise
        print("LEAK %s:%s -- %s" % (type(e).__name__, innermost(e.__traceback__), str(e)[:200]))
        sys.exit(1)
    print("ok: returned")
    sys.exit(0)
