"""Minimal PDF builder for geometry tests."""
import io

def build(content: bytes, mediabox="[0 0 612 792]", rotate=None, vertical=False,
          extra_page="", font=None, resources_extra="", xobjects=None, userunit=None):
    objs = {}
    objs[1] = b"<< /Type /Catalog /Pages 2 0 R >>"
    objs[2] = b"<< /Type /Pages /Kids [3 0 R] /Count 1 >>"
    page = "<< /Type /Page /Parent 2 0 R /MediaBox %s /Contents 4 0 R /Resources << /Font << /F1 5 0 R >> %s >> %s" % (mediabox, resources_extra, extra_page)
    if rotate is not None:
        page += " /Rotate %s" % rotate
    page += " >>"
    objs[3] = page.encode()
    objs[4] = b"<< /Length %d >>\nstream\n" % len(content) + content + b"\nendstream"
    if font is not None:
        objs[5] = font
    elif vertical:
        objs[5] = (b"<< /Type /Font /Subtype /Type0 /BaseFont /Foo /Encoding /Identity-V "
                   b"/DescendantFonts [6 0 R] >>")
        objs[6] = (b"<< /Type /Font /Subtype /CIDFontType2 /BaseFont /Foo "
                   b"/CIDSystemInfo << /Registry (Adobe) /Ordering (Japan1) /Supplement 0 >> "
                   b"/DW 1000 /FontDescriptor 7 0 R >>")
        objs[7] = b"<< /Type /FontDescriptor /FontName /Foo /Flags 4 /FontBBox [0 -200 1000 800] /ItalicAngle 0 /Ascent 800 /Descent -200 /CapHeight 700 /StemV 80 >>"
    else:
        objs[5] = b"<< /Type /Font /Subtype /Type1 /BaseFont /Helvetica /Encoding /WinAnsiEncoding >>"
    if xobjects:
        for k, v in xobjects.items():
            objs[k] = v
    out = io.BytesIO()
    out.write(b"%PDF-1.4\n")
    offs = {}
    for n in sorted(objs):
        offs[n] = out.tell()
        out.write(b"%d 0 obj\n" % n + objs[n] + b"\nendobj\n")
    xref = out.tell()
    mx = max(objs) + 1
    out.write(b"xref\n0 %d\n" % mx)
    out.write(b"0000000000 65535 f \n")
    for n in range(1, mx):
        if n in offs:
            out.write(b"%010d 00000 n \n" % offs[n])
        else:
            out.write(b"0000000000 65535 f \n")
    out.write(b"trailer\n<< /Size %d /Root 1 0 R >>\nstartxref\n%d\n%%%%EOF\n" % (mx, xref))
    return out.getvalue()
