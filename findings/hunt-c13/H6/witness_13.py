# ValueError:utils.drange
import os, sys
sys.path.insert(0, os.path.dirname(os.path.abspath(__file__)))
from wit import build, check
from pdfminer.layout import LAParams
E308 = "1" + "0" * 308 + ".0"   # largest-magnitude decimal real, parsed as a finite float
INF = "1" + "0" * 400 + ".0"    # decimal real that the lexer turns into float inf
FORM = lambda bbox, mat: ("<< /Type /XObject /Subtype /Form /BBox %s /Matrix %s /Resources << /Font << /F1 5 0 R >> >> /Length 44 >>\nstream\nBT /F1 12 Tf 10 10 Td (in form) Tj ET 0 0 m 5 5 l S\nendstream" % (bbox, mat)).encode()
IMG = b"<< /Type /XObject /Subtype /Image /Width 2 /Height 2 /ColorSpace /DeviceGray /BitsPerComponent 8 /Length 4 >>\nstream\nabcd\nendstream"
RX = "/XObject << /X1 10 0 R /I1 11 0 R >>"
TXT = "BT /F1 12 Tf %s 0 0 1 100 700 Tm (Hello World) Tj ET"

check(build(b"BT /F1 12 Tf 100 700 Td (Hi) Tj ET", mediabox="[0 0 %s %s]" % (INF, INF), rotate=90), mode="pages", laparams=LAParams())
