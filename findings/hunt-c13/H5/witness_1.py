"""Witness 1: AssertionError:utils.format_int_roman

A page-label range with roman style (/S /R or /r) whose /St is 0, negative or >= 4000
trips the bare assert in format_int_roman, so every extraction entry point (extract_text,
extract_pages, extract_text_to_fp, pdf2txt, dumppdf -T/-p) dies with AssertionError.
"""
import contextlib, io, logging, os, signal, sys, tempfile, traceback
sys.path.insert(0, "/tmp/hunt-H5"); sys.path.insert(0, "/tmp/hunt-H5/tools")
logging.disable(logging.CRITICAL)
from pdfminer.psexceptions import PSException
from pdfminer import high_level
import dumppdf, pdf2txt

def build(objs, trailer_extra=b"/Info 16 0 R"):
    out = io.BytesIO(); out.write(b"%PDF-1.7\n")
    off = {}
    for i in sorted(objs):
        off[i] = out.tell(); out.write(b"%d 0 obj\n" % i + objs[i] + b"\nendobj\n")
    n = max(objs) + 1; xref = out.tell()
    out.write(b"xref\n0 %d\n0000000000 65535 f \n" % n)
    for i in range(1, n):
        out.write(b"%010d 00000 n \n" % off[i] if i in off else b"0000000000 65535 f \n")
    out.write(b"trailer\n<< /Size %d /Root 1 0 R %s >>\nstartxref\n%d\n%%%%EOF\n" % (n, trailer_extra, xref))
    return out.getvalue()

def stream(d, data):
    return b"<< " + d + b" /Length %d >>\nstream\n" % len(data) + data + b"\nendstream"

# A small valid document: 2 pages, outline, name tree, old-style /Dests, page labels, XMP metadata, Info, one embedded file.
objs = {
    1: b"<< /Type /Catalog /Pages 2 0 R /Outlines 5 0 R /Names 8 0 R /PageLabels 11 0 R /Dests 12 0 R /Metadata 13 0 R >>",
    2: b"<< /Type /Pages /Kids [3 0 R 15 0 R] /Count 2 /MediaBox [0 0 612 792] >>",
    3: b"<< /Type /Page /Parent 2 0 R /Contents 4 0 R /Resources << /Font << /F1 14 0 R >> >> >>",
    4: stream(b"", b"BT /F1 12 Tf 72 700 Td (Hello) Tj ET"),
    5: b"<< /Type /Outlines /First 6 0 R /Last 7 0 R /Count 2 >>",
    6: b"<< /Title (Chapter 1) /Parent 5 0 R /Next 7 0 R /Dest [3 0 R /XYZ 0 792 0] >>",
    7: b"<< /Title (Chapter 2) /Parent 5 0 R /Prev 6 0 R /A << /S /GoTo /D (dest1) >> >>",
    8: b"<< /Dests 9 0 R /EmbeddedFiles 18 0 R >>",
    9: b"<< /Kids [10 0 R] >>",
    10: b"<< /Limits [(dest1) (dest2)] /Names [(dest1) [3 0 R /Fit] (dest2) << /D [15 0 R /Fit] >>] >>",
    11: b"<< /Nums [0 << /S /r /P (pre-) /St 1 >> 1 << /S /D /St 5 >>] >>",
    12: b"<< /olddest [3 0 R /Fit] >>",
    13: stream(b"/Type /Metadata /Subtype /XML", b"<?xpacket begin='' id='W5M0MpCehiHzreSzNTczkc9d'?><x:xmpmeta xmlns:x='adobe:ns:meta/'></x:xmpmeta><?xpacket end='w'?>"),
    14: b"<< /Type /Font /Subtype /Type1 /BaseFont /Helvetica >>",
    15: b"<< /Type /Page /Parent 2 0 R /Contents 4 0 R /Resources << /Font << /F1 14 0 R >> >> >>",
    16: b"<< /Title (A title) /Author (me) >>",
    18: b"<< /Names [(a.txt) 19 0 R] >>",
    19: b"<< /Type /Filespec /F (a.txt) /UF (a.txt) /EF << /F 20 0 R >> >>",
    20: stream(b"/Type /EmbeddedFile", b"hello embedded"),
}

class _Timeout(BaseException):
    pass
def _alarm(*a):
    raise _Timeout("no result after 20 seconds")
signal.signal(signal.SIGALRM, _alarm)

os.makedirs("/tmp/hunt-H5/out/tmp", exist_ok=True)
tmpd = tempfile.mkdtemp(prefix="h5w", dir="/tmp/hunt-H5/out/tmp")
def dump(args, path):
    with contextlib.redirect_stdout(io.StringIO()):
        dumppdf.main(args + ["-o", os.path.join(tmpd, "dump.out"), path])

BASE = dict(objs)
CHECK_BASE = True

# ---- the damage ----
objs[11] = b'<< /Nums [0 << /S /R /St 0 >>] >>'  # also /St 4000, -1, 2147483648

# ---- the entry point ----
def run(path):
    high_level.extract_text(path)

def check(run, data):
    """Return True if the problem occurs."""
    path = os.path.join(tmpd, "in.pdf")
    with open(path, "wb") as f:
        f.write(data)
    signal.alarm(20)
    try:
        run(path)
    except PSException as e:
        print("library error (fine):", type(e).__name__)
        return False
    except SystemExit:
        return False
    except BaseException as e:
        signal.alarm(0)
        print("LEAKED:", type(e).__name__, e)
        tb = traceback.extract_tb(e.__traceback__)
        for fs in tb[-6:]:
            print("   %s:%d %s" % (fs.filename, fs.lineno, fs.name))
        return True
    finally:
        signal.alarm(0)
    print("returned normally")
    return False

# sanity: the undamaged document must not show the problem
ok_base = not check(run, build(BASE)) if CHECK_BASE else True
bad = check(run, build(objs))
sys.exit(1 if bad else 0)
