"""Shared helpers: build PDFs by hand, run entry points, classify outcomes."""
import contextlib
import io
import itertools
import os
import signal
import sys
import tempfile
import traceback
import logging

sys.path.insert(0, "/tmp/hunt-H5")
sys.path.insert(0, "/tmp/hunt-H5/tools")
logging.disable(logging.CRITICAL)

from pdfminer.psexceptions import PSException  # noqa: E402
from pdfminer import high_level  # noqa: E402
from pdfminer.pdfparser import PDFParser  # noqa: E402
from pdfminer.pdfdocument import PDFDocument  # noqa: E402
from pdfminer.pdfpage import PDFPage  # noqa: E402
import dumppdf  # noqa: E402
import pdf2txt  # noqa: E402

TIMEOUT = 20


class Timeout(BaseException):
    pass


def _alarm(signum, frame):
    raise Timeout()


signal.signal(signal.SIGALRM, _alarm)


def build(objs, trailer_extra=b"", root=1):
    """objs: dict objid -> bytes body (without obj/endobj)."""
    out = io.BytesIO()
    out.write(b"%PDF-1.7\n%\xe2\xe3\xcf\xd3\n")
    offsets = {}
    for objid in sorted(objs):
        offsets[objid] = out.tell()
        out.write(b"%d 0 obj\n" % objid + objs[objid] + b"\nendobj\n")
    n = max(objs) + 1
    xref = out.tell()
    out.write(b"xref\n0 %d\n" % n)
    out.write(b"0000000000 65535 f \n")
    for i in range(1, n):
        if i in offsets:
            out.write(b"%010d 00000 n \n" % offsets[i])
        else:
            out.write(b"0000000000 65535 f \n")
    out.write(
        b"trailer\n<< /Size %d /Root %d 0 R %s >>\nstartxref\n%d\n%%%%EOF\n"
        % (n, root, trailer_extra, xref)
    )
    return out.getvalue()


def stream(d, data):
    return b"<< " + d + b" /Length %d >>\nstream\n" % len(data) + data + b"\nendstream"


def base_objs():
    content = b"BT /F1 12 Tf 72 700 Td (Hello) Tj ET"
    xmp = b"<?xpacket begin='' id='W5M0MpCehiHzreSzNTczkc9d'?><x:xmpmeta xmlns:x='adobe:ns:meta/'></x:xmpmeta><?xpacket end='w'?>"
    return {
        1: b"<< /Type /Catalog /Pages 2 0 R /Outlines 5 0 R /Names 8 0 R /PageLabels 11 0 R /Dests 12 0 R /Metadata 13 0 R >>",
        2: b"<< /Type /Pages /Kids [3 0 R 15 0 R] /Count 2 /MediaBox [0 0 612 792] >>",
        3: b"<< /Type /Page /Parent 2 0 R /Contents 4 0 R /Resources << /Font << /F1 14 0 R >> >> >>",
        4: stream(b"", content),
        5: b"<< /Type /Outlines /First 6 0 R /Last 7 0 R /Count 2 >>",
        6: b"<< /Title (Chapter 1) /Parent 5 0 R /Next 7 0 R /Dest [3 0 R /XYZ 0 792 0] >>",
        7: b"<< /Title (Chapter 2) /Parent 5 0 R /Prev 6 0 R /A << /S /GoTo /D (dest1) >> >>",
        8: b"<< /Dests 9 0 R >>",
        9: b"<< /Kids [10 0 R] >>",
        10: b"<< /Limits [(dest1) (dest2)] /Names [(dest1) [3 0 R /Fit] (dest2) << /D [15 0 R /Fit] >>] >>",
        11: b"<< /Nums [0 << /S /r /P (pre-) /St 1 >> 1 << /S /D /St 5 >>] >>",
        12: b"<< /olddest [3 0 R /Fit] >>",
        13: stream(b"/Type /Metadata /Subtype /XML", xmp),
        14: b"<< /Type /Font /Subtype /Type1 /BaseFont /Helvetica >>",
        15: b"<< /Type /Page /Parent 2 0 R /Contents 4 0 R /Resources << /Font << /F1 14 0 R >> >> >>",
        16: b"<< /Title (A title) /Author (me) /CreationDate (D:20200101000000Z) >>",
    }


BASE_TRAILER = b"/Info 16 0 R"


def innermost(tb):
    """Innermost frame inside pdfminer/ or tools/."""
    res = None
    for fs in traceback.extract_tb(tb):
        fn = fs.filename
        if "/hunt-H5/pdfminer/" in fn or "/hunt-H5/tools/" in fn:
            mod = os.path.splitext(os.path.basename(fn))[0]
            res = f"{mod}.{fs.name}"
    return res


def _devnull_text():
    return io.StringIO()


def entry_points(path, password=""):
    """Yield (name, callable)."""
    tmpd = tempfile.mkdtemp(prefix="h5img", dir="/tmp/hunt-H5/out/tmp")

    def et():
        high_level.extract_text(path, password=password)

    def et_nocache():
        high_level.extract_text(path, password=password, caching=False)

    def ep():
        for _ in high_level.extract_pages(path, password=password):
            pass

    def mk_fp(ot, od=None, caching=True):
        def f():
            with open(path, "rb") as fp:
                out = io.BytesIO()
                high_level.extract_text_to_fp(
                    fp, out, output_type=ot, output_dir=od, password=password,
                    codec="utf-8", caching=caching,
                )
        return f

    def mk_dump(args):
        def f():
            o = os.path.join(tmpd, "dump.out")
            with contextlib.redirect_stdout(io.StringIO()):
                dumppdf.main(args + ["-P", password, "-o", o, path])
        return f

    def mk_p2t(args):
        def f():
            o = os.path.join(tmpd, "p2t.out")
            pdf2txt.main(args + ["-P", password, "-o", o, path])
        return f

    def api_outlines():
        with open(path, "rb") as fp:
            doc = PDFDocument(PDFParser(fp), password)
            try:
                for lvl, title, dest, a, se in doc.get_outlines():
                    pass
            except PSException:
                raise

    def api_labels():
        with open(path, "rb") as fp:
            doc = PDFDocument(PDFParser(fp), password)
            list(itertools.islice(doc.get_page_labels(), 50))

    def api_dest():
        with open(path, "rb") as fp:
            doc = PDFDocument(PDFParser(fp), password)
            for n in (b"dest1", b"dest2", b"olddest", "olddest", b"zzz", b""):
                try:
                    doc.get_dest(n)
                except PSException:
                    pass

    yield "extract_text", et
    yield "extract_text_nocache", et_nocache
    yield "extract_pages", ep
    for ot in ("text", "xml", "html", "hocr", "tag"):
        yield f"to_fp_{ot}", mk_fp(ot)
    yield "to_fp_xml_outdir", mk_fp("xml", tmpd)
    yield "to_fp_text_outdir_nocache", mk_fp("text", tmpd, False)
    yield "dumppdf", mk_dump([])
    yield "dumppdf_a", mk_dump(["-a"])
    yield "dumppdf_a_t", mk_dump(["-a", "-t"])
    yield "dumppdf_a_fallback", mk_dump(["-a", "--show-fallback-xref"])
    yield "dumppdf_T", mk_dump(["-T"])
    yield "dumppdf_E", mk_dump(["-E", os.path.join(tmpd, "emb")])
    yield "dumppdf_p", mk_dump(["-p", "1,2"])
    yield "dumppdf_p_t", mk_dump(["-p", "1", "-t"])
    yield "dumppdf_i", mk_dump(["-i", "1,5,6,9,10,11,13"])
    yield "dumppdf_i_t", mk_dump(["-i", "4,13", "-t"])
    yield "pdf2txt", mk_p2t([])
    yield "pdf2txt_xml", mk_p2t(["-t", "xml"])
    yield "pdf2txt_html_A", mk_p2t(["-t", "html", "-A"])
    yield "pdf2txt_tag", mk_p2t(["-t", "tag"])
    yield "pdf2txt_opts", mk_p2t(["-p", "1", "-m", "1", "-C", "-n", "-S", "-R", "90"])
    yield "pdf2txt_outdir", mk_p2t(["-O", tmpd])
    yield "api_outlines", api_outlines
    yield "api_labels", api_labels
    yield "api_dest", api_dest


def run_case(data, password="", only=None):
    """Return list of (entry, key, repr) findings."""
    os.makedirs("/tmp/hunt-H5/out/tmp", exist_ok=True)
    fd, path = tempfile.mkstemp(suffix=".pdf", dir="/tmp/hunt-H5/out/tmp")
    os.write(fd, data)
    os.close(fd)
    findings = []
    try:
        for name, fn in entry_points(path, password):
            if only and name not in only:
                continue
            signal.alarm(TIMEOUT)
            try:
                fn()
            except PSException:
                pass
            except Timeout:
                findings.append((name, "Timeout", "timeout"))
            except SystemExit:
                pass
            except BaseException as e:  # noqa
                key = f"{type(e).__name__}:{innermost(e.__traceback__)}"
                findings.append((name, key, repr(e)[:200]))
            finally:
                signal.alarm(0)
    finally:
        os.unlink(path)
    return findings
