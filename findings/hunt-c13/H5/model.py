"""Structured PDF object model + single-fault mutator."""
import copy


class Name(str):
    pass


class Ref(int):
    pass


class Raw(bytes):
    pass


class Stream:
    def __init__(self, d, data):
        self.d = d
        self.data = data


def ser(o):
    if isinstance(o, Raw):
        return bytes(o)
    if isinstance(o, Stream):
        d = dict(o.d)
        d.setdefault("Length", len(o.data))
        return ser(d) + b"\nstream\n" + o.data + b"\nendstream"
    if isinstance(o, Name):
        return b"/" + o.encode("latin-1")
    if isinstance(o, Ref):
        return b"%d 0 R" % int(o)
    if isinstance(o, bool):
        return b"true" if o else b"false"
    if o is None:
        return b"null"
    if isinstance(o, int):
        return str(o).encode()
    if isinstance(o, float):
        return repr(o).encode()
    if isinstance(o, bytes):
        return b"<" + o.hex().encode() + b">"
    if isinstance(o, dict):
        return b"<< " + b" ".join(b"/" + k.encode() + b" " + ser(v) for k, v in o.items()) + b" >>"
    if isinstance(o, list):
        return b"[" + b" ".join(ser(v) for v in o) + b"]"
    raise TypeError(o)


def base():
    content = b"BT /F1 12 Tf 72 700 Td (Hello) Tj ET"
    xmp = b"<?xpacket begin='' id='W5M0MpCehiHzreSzNTczkc9d'?><x:xmpmeta xmlns:x='adobe:ns:meta/'></x:xmpmeta><?xpacket end='w'?>"
    N = Name
    page = {"Type": N("Page"), "Parent": Ref(2), "Contents": Ref(4),
            "Resources": {"Font": {"F1": Ref(14)}}}
    return {
        1: {"Type": N("Catalog"), "Pages": Ref(2), "Outlines": Ref(5), "Names": Ref(8),
            "PageLabels": Ref(11), "Dests": Ref(12), "Metadata": Ref(13)},
        2: {"Type": N("Pages"), "Kids": [Ref(3), Ref(15)], "Count": 2, "MediaBox": [0, 0, 612, 792]},
        3: dict(page),
        4: Stream({}, content),
        5: {"Type": N("Outlines"), "First": Ref(6), "Last": Ref(7), "Count": 2},
        6: {"Title": b"Chapter 1", "Parent": Ref(5), "Next": Ref(7), "First": Ref(17), "Last": Ref(17), "Count": 1,
            "Dest": [Ref(3), N("XYZ"), 0, 792, 0]},
        7: {"Title": b"\xfe\xff\x00C\x00h", "Parent": Ref(5), "Prev": Ref(6), "A": {"S": N("GoTo"), "D": b"dest1"}},
        8: {"Dests": Ref(9), "EmbeddedFiles": Ref(18)},
        9: {"Kids": [Ref(10)]},
        10: {"Limits": [b"dest1", b"dest2"], "Names": [b"dest1", [Ref(3), N("Fit")], b"dest2", {"D": [Ref(15), N("Fit")]}]},
        11: {"Kids": [Ref(21)]},
        12: {"olddest": [Ref(3), N("Fit")]},
        13: Stream({"Type": N("Metadata"), "Subtype": N("XML")}, xmp),
        14: {"Type": N("Font"), "Subtype": N("Type1"), "BaseFont": N("Helvetica")},
        15: dict(page),
        16: {"Title": b"A title", "Author": b"\xfe\xff\x00m\x00e", "CreationDate": b"D:20200101000000Z"},
        17: {"Title": b"Sub", "Parent": Ref(6), "Dest": N("olddest"), "SE": Ref(3)},
        18: {"Names": [b"a.txt", Ref(19)]},
        19: {"Type": N("Filespec"), "F": b"a.txt", "UF": b"a.txt", "EF": {"F": Ref(20)}},
        20: Stream({"Type": N("EmbeddedFile")}, b"hello embedded"),
        21: {"Limits": [0, 1], "Nums": [0, {"S": N("r"), "P": b"pre-", "St": 1}, 1, {"S": N("D"), "St": 5}]},
    }


def build_model(objs, trailer=None, root=1):
    import io
    out = io.BytesIO()
    out.write(b"%PDF-1.7\n%\xe2\xe3\xcf\xd3\n")
    offsets = {}
    for objid in sorted(objs):
        offsets[objid] = out.tell()
        out.write(b"%d 0 obj\n" % objid + ser(objs[objid]) + b"\nendobj\n")
    n = max(objs) + 1
    xref = out.tell()
    out.write(b"xref\n0 %d\n" % n)
    out.write(b"0000000000 65535 f \n")
    for i in range(1, n):
        out.write(b"%010d 00000 n \n" % offsets[i] if i in offsets else b"0000000000 65535 f \n")
    tr = {"Size": n, "Root": Ref(root), "Info": Ref(16)}
    if trailer is not None:
        tr = trailer(tr)
    out.write(b"trailer\n" + ser(tr) + b"\nstartxref\n%d\n%%%%EOF\n" % xref)
    return out.getvalue()


def replacements(objid):
    N = Name
    return [
        ("null", None), ("true", True), ("int0", 0), ("int-1", -1), ("int1", 1), ("2^31", 2**31), ("2^63", 2**63),
        ("big400", int("9" * 400)), ("big5000", Raw(b"1" * 5000)), ("real", 1.5), ("name", N("Foo")), ("emptyname", Raw(b"/")),
        ("str", b"abc"), ("emptystr", b""), ("utf16odd", b"\xfe\xff\x00"), ("strhi", b"\xff\xfe\x80\x00"),
        ("emptyarr", []), ("emptydict", {}), ("arr70000", Raw(b"[" + b"0 " * 70000 + b"]")),
        ("arr1", [1]), ("arrref", [Ref(objid)]), ("dictself", {"Kids": [Ref(objid)], "First": Ref(objid), "Last": Ref(objid), "Next": Ref(objid), "D": Ref(objid)}),
        ("self", Ref(objid)), ("missing", Ref(999)), ("root", Ref(1)), ("pages", Ref(2)), ("stream", Ref(4)), ("page", Ref(3)),
        ("keyword", Raw(b"foo")),
    ]


def paths(o, prefix=()):
    """Yield paths to every value inside containers."""
    if isinstance(o, Stream):
        yield from paths(o.d, prefix + ("@d",))
    elif isinstance(o, dict):
        for k, v in o.items():
            yield prefix + (k,)
            yield from paths(v, prefix + (k,))
    elif isinstance(o, list):
        for i, v in enumerate(o):
            yield prefix + (i,)
            yield from paths(v, prefix + (i,))


def _get(o, p):
    for k in p:
        o = o.d if k == "@d" else o[k]
    return o


def mutate(objs, objid, path, val, remove=False):
    objs = copy.deepcopy(objs)
    parent = _get(objs[objid], path[:-1])
    if remove:
        del parent[path[-1]]
    else:
        parent[path[-1]] = val
    return objs


def single_faults(objs, objids):
    for objid in objids:
        for p in paths(objs[objid]):
            yield (objid, p, "remove"), mutate(objs, objid, p, None, remove=True)
            for nm, val in replacements(objid):
                yield (objid, p, nm), mutate(objs, objid, p, val)
        # whole object replaced
        for nm, val in replacements(objid):
            o2 = copy.deepcopy(objs)
            o2[objid] = val
            yield (objid, (), nm), o2
