"""Generates out/witness_<n>.py and out/findings.json"""
import json, os

PRE = r'''
import io, os, sys, struct, zlib, tempfile, shutil, subprocess, traceback, logging
sys.path.insert(0, "/tmp/hunt-H4")
sys.path.insert(0, "/tmp/hunt-H4/tools")
logging.disable(logging.CRITICAL)
from pdfminer.psexceptions import PSException
from pdfminer.high_level import extract_text, extract_text_to_fp
from pdfminer.layout import LAParams


def build_pdf(imgdict=b"/Type /XObject /Subtype /Image /Width 1 /Height 1", payload=b"a", extra_objs=(),
              content=b"q 100 0 0 100 0 0 cm /Im0 Do Q\n", content_dict=b""):
    objs = [
        b"1 0 obj\n<< /Type /Catalog /Pages 2 0 R >>\nendobj\n",
        b"2 0 obj\n<< /Type /Pages /Kids [3 0 R] /Count 1 >>\nendobj\n",
        b"3 0 obj\n<< /Type /Page /Parent 2 0 R /MediaBox [0 0 200 200] /Contents 4 0 R "
        b"/Resources << /XObject << /Im0 5 0 R >> >> >>\nendobj\n",
        b"4 0 obj\n<< /Length %d %s >>\nstream\n" % (len(content), content_dict) + content + b"\nendstream\nendobj\n",
        b"5 0 obj\n<< " + imgdict + b" /Length %d >>\nstream\n" % len(payload) + payload + b"\nendstream\nendobj\n",
    ] + list(extra_objs)
    out = b"%PDF-1.7\n"
    offs = {}
    for o in objs:
        offs[int(o.split(b" ", 1)[0])] = len(out)
        out += o
    n = max(offs) + 1
    xref = len(out)
    out += b"xref\n0 %d\n0000000000 65535 f \n" % n
    for i in range(1, n):
        out += (b"%010d 00000 n \n" % offs[i]) if i in offs else b"0000000000 65535 f \n"
    out += b"trailer\n<< /Size %d /Root 1 0 R >>\nstartxref\n%d\n%%%%EOF\n" % (n, xref)
    return out


def export_images(data):
    """extract_text_to_fp(..., output_dir=<tmp>)"""
    d = tempfile.mkdtemp(prefix="h4w_")
    try:
        extract_text_to_fp(io.BytesIO(data), io.StringIO(), output_type="text", output_dir=d, laparams=LAParams())
    finally:
        shutil.rmtree(d, ignore_errors=True)


def check(fn):
    """exit 1 and print the leak if fn() raises something outside the PSException family"""
    try:
        fn()
    except PSException as e:
        print("ok: library error", type(e).__name__, e)
        sys.exit(0)
    except BaseException as e:
        traceback.print_exc()
        print("LEAK:", type(e).__name__, e)
        sys.exit(1)
    print("ok: returned")
    sys.exit(0)


def check_bounded(fn, seconds=20, mem_gb=None):
    """run fn() in a child process; exit 1 if it does not finish within `seconds`"""
    if len(sys.argv) > 1 and sys.argv[1] == "child":
        if mem_gb:
            import resource
            resource.setrlimit(resource.RLIMIT_AS, (int(mem_gb * 2**30),) * 2)
        check(fn)
    tmp = tempfile.mkdtemp(prefix="h4wp_")
    try:
        p = subprocess.run([sys.executable, os.path.abspath(__file__), "child"], timeout=seconds,
                           stdout=subprocess.PIPE, stderr=subprocess.STDOUT, env=dict(os.environ, TMPDIR=tmp))
    except subprocess.TimeoutExpired:
        print("LEAK: Timeout - still running after %d s" % seconds)
        sys.exit(1)
    finally:
        shutil.rmtree(tmp, ignore_errors=True)
    sys.stdout.write(p.stdout.decode("utf-8", "replace")[-3000:])
    sys.exit(1 if p.returncode else 0)

'''

IMG = b"/Type /XObject /Subtype /Image /Width 8 /Height 8 /BitsPerComponent %s /ColorSpace %s"
JB = "b\"/Type /XObject /Subtype /Image /Width 8 /Height 8 /BitsPerComponent 1 /ColorSpace /DeviceGray /Filter /JBIG2Decode\""
JBG = JB[:-1] + " /DecodeParms << /JBIG2Globals 11 0 R >>\""
GLOB = "[b\"11 0 obj\\n<< /Length 0 >>\\nstream\\n\\nendstream\\nendobj\\n\"]"
SEG = "def seg(num, flags, ret, page, data, dl=None):\n    return struct.pack('>LBBB', num, flags, ret, page) + struct.pack('>L', len(data) if dl is None else dl) + data\n"

W = []  # (key, body, explanation)

W.append(("KeyError:image.ImageWriter._save_jbig2",
          "data = build_pdf(%s, b'\\0' * 20)\ncheck(lambda: export_images(data))\n" % JB,
          "An image XObject with /Filter /JBIG2Decode and no /DecodeParms (JBIG2Globals is optional) leaks KeyError('JBIG2Globals') from params[\"JBIG2Globals\"] when images are exported with output_dir."))
W.append(("TypeError:image.ImageWriter._save_jbig2",
          "data = build_pdf(%s + b' /DecodeParms [null]', b'\\0' * 20)\ncheck(lambda: export_images(data))\n" % JB,
          "A JBIG2 image whose /DecodeParms is [null] (or a reference to a missing object) makes params None, and params[\"JBIG2Globals\"] leaks TypeError."))
W.append(("AttributeError:image.ImageWriter._save_jbig2",
          "data = build_pdf(%s + b' /DecodeParms << /JBIG2Globals 1 >>', b'\\0' * 20)\ncheck(lambda: export_images(data))\n" % JB,
          "A JBIG2 image whose /JBIG2Globals is not an indirect reference to a stream (an integer, a string, an array ...) leaks AttributeError from .resolve() / .get_data()."))
W.append(("struct.error:jbig2.unpack_int",
          SEG + "data = build_pdf(%s, struct.pack('>LB', 0, 48) + b'\\xe0\\x00', %s)\ncheck(lambda: export_images(data))\n" % (JBG, GLOB),
          "A JBIG2 payload truncated inside a segment header (e.g. after the flags byte of a long-form retention field or page association) leaks struct.error from unpack on a short read."))
W.append(("struct.error:jbig2.JBIG2StreamWriter.encode_segment",
          SEG + "data = build_pdf(%s, seg(0xFFFFFFFF, 48, 0, 1, b'abc'), %s)\ncheck(lambda: export_images(data))\n" % (JBG, GLOB),
          "A JBIG2 segment with number 0xFFFFFFFF (or a 4-byte page association > 255) cannot be re-encoded: pack('>L', number+2) / pack('>B', page) leaks struct.error."))
W.append(("KeyError:jbig2.JBIG2StreamWriter.encode_data_length",
          SEG + "data = build_pdf(%s, seg(0, 49, 0, 1, b''), %s)\ncheck(lambda: export_images(data))\n" % (JBG, GLOB),
          "A JBIG2 segment with data length 0 (e.g. an end-of-page segment) is read without a raw_data entry and the writer leaks KeyError('raw_data')."))
W.append(("NotImplementedError:jbig2.JBIG2StreamReader.parse_data_length",
          SEG + "data = build_pdf(%s, seg(0, 38, 0, 1, b'abc', dl=0xFFFFFFFF), %s)\ncheck(lambda: export_images(data))\n" % (JBG, GLOB),
          "An immediate generic region segment with unknown data length (0xFFFFFFFF) raises the builtin NotImplementedError, which is not in the PSException family."))
W.append(("IndexError:utils.apply_tiff_predictor",
          "pl = zlib.compress(b'BT ET ' * 10)\n"
          "data = build_pdf(content=pl, content_dict=b'/Filter /FlateDecode /DecodeParms << /Predictor 2 /Colors -1 /Columns -1 >>')\n"
          "check(lambda: extract_text(io.BytesIO(data)))\n",
          "TIFF predictor with /Colors -1 and /Columns -1 passes the nbytes > 0 check (product is 1) with bpp = -1, so raw[i - bpp] indexes past the row: IndexError from plain extract_text on a page content stream."))
W.append(("OverflowError:image.ImageWriter._save_bytes",
          "data = build_pdf(b'/Type /XObject /Subtype /Image /Width 8 /Height 8 /ColorSpace /DeviceCMYK /Filter /FlateDecode /BitsPerComponent ' + b'9' * 400, zlib.compress(b'a' * 64))\n"
          "check(lambda: export_images(data))\n",
          "A Flate image with a 400-digit /BitsPerComponent leaks OverflowError from the float division image.bits / 8 in _save_bytes."))
W.append(("ImportError:image.ImageWriter._save_bytes",
          "try:\n    import PIL\n    print('ok: Pillow installed, not applicable'); sys.exit(0)\nexcept ImportError:\n    pass\n"
          "data = build_pdf(b'/Type /XObject /Subtype /Image /Width 8 /Height 8 /ColorSpace /DeviceCMYK /Filter /FlateDecode /BitsPerComponent 8', zlib.compress(b'a' * 256))\n"
          "check(lambda: export_images(data))\n",
          "Environment-dependent: without Pillow, exporting a Flate image that is not 1-bit/RGB/gray (likewise CMYK DCT via _save_jpeg and any JPX via _save_jpeg2000) leaks the builtin ImportError after already creating the output file."))
W.append(("ImportError:image.ImageWriter._save_jpeg2000",
          "try:\n    import PIL\n    print('ok: Pillow installed, not applicable'); sys.exit(0)\nexcept ImportError:\n    pass\n"
          "data = build_pdf(b'/Type /XObject /Subtype /Image /Width 8 /Height 8 /ColorSpace /DeviceGray /Filter /JPXDecode /BitsPerComponent 8', b'a' * 64)\n"
          "check(lambda: export_images(data))\n",
          "Environment-dependent: without Pillow every /JPXDecode image leaks the builtin ImportError from _save_jpeg2000."))
W.append(("ImportError:image.ImageWriter._save_jpeg",
          "try:\n    import PIL\n    print('ok: Pillow installed, not applicable'); sys.exit(0)\nexcept ImportError:\n    pass\n"
          "data = build_pdf(b'/Type /XObject /Subtype /Image /Width 8 /Height 8 /ColorSpace /DeviceCMYK /Filter /DCTDecode /BitsPerComponent 8', b'a' * 64)\n"
          "check(lambda: export_images(data))\n",
          "Environment-dependent: without Pillow a /DCTDecode image whose /ColorSpace is replaced by /DeviceCMYK leaks the builtin ImportError from _save_jpeg."))
W.append(("Timeout:image.ImageWriter._save_bmp",
          "data = build_pdf(b'/Type /XObject /Subtype /Image /Width 0 /Height 2147483647 /BitsPerComponent 1 /ColorSpace /DeviceGray', b'abcd')\n"
          "check_bounded(lambda: export_images(data))\n",
          "/Width 0 with /Height 2147483647 (or /Width 1 /Height 2**29) passes the BMP header size check because the data size is small, and _save_bmp then loops over range(height) doing a seek+write per row: billions of iterations from a 700-byte file."))
W.append(("MemoryError:image.BMPWriter.write_line",
          "data = build_pdf(b'/Type /XObject /Subtype /Image /Width 2147483000 /Height 1 /BitsPerComponent 8 /ColorSpace /DeviceGray', b'abcd')\n"
          "check_bounded(lambda: export_images(data), seconds=60, mem_gb=1.5)\n",
          "/Width 2147483000 /Height 1 passes the BMP size check and write_line pads the 4-byte row with ljust() to a 2 GiB line (MemoryError under a 1.5 GiB address-space limit, otherwise a 2 GiB allocation and file from a 700-byte input)."))
W.append(("Timeout:pdftypes.decompress_corrupted",
          "pl = bytearray(zlib.compress(os.urandom(1500000), 0))\npl[len(pl) // 2] ^= 0xFF\n"
          "data = build_pdf(content=bytes(pl), content_dict=b'/Filter /FlateDecode')\n"
          "check_bounded(lambda: extract_text(io.BytesIO(data)))\n",
          "A Flate stream with one flipped payload byte (checksum mismatch) goes through decompress_corrupted, which feeds one byte at a time and does result_str += ..., i.e. quadratic copying: a 1.5 MB content stream does not finish in 20 s (a 97 KB highly-compressed stream with a bad Adler-32 does the same)."))
W.append(("Timeout:ccitt.CCITTG4Parser.feedbytes",
          "data = build_pdf(content=b'\\xff\\xff\\xff\\xff', content_dict=b'/Filter /CCITTFaxDecode /DecodeParms << /K -1 /Columns 1048576 >>')\n"
          "check_bounded(lambda: extract_text(io.BytesIO(data)))\n",
          "Every input bit of a CCITT G4 stream can complete a row, and each row costs several Python-level passes over /Columns elements (up to the 2**20 cap) plus a quadratic _buf += ...: a 4-byte payload with /Columns 1048576 runs for far more than 20 s."))
W.append(("Timeout:pdfinterp.PDFContentParser.get_inline_data",
          "data = build_pdf(content=b'BI /W 8 /H 8 /BPC 8 /CS /G ID ' + b'E' * 1500000 + b' EI')\n"
          "check_bounded(lambda: extract_text(io.BytesIO(data)))\n",
          "Inline image data is accumulated with data += ... once per occurrence of the first marker byte, so a payload consisting of 'E' bytes costs quadratic copying: 1.5 MB of inline data does not finish in 20 s."))
W.append(("Timeout:lzw.LZWDecoder.run",
          "def lzw_alt(ncodes):\n"
          "    bits = [format(256, '09b')]\n    tl = 258; nb = 9\n"
          "    for i in range(ncodes):\n"
          "        bits.append(format(65 + (i & 1), '0%db' % nb))\n"
          "        if i:\n            tl += 1\n"
          "            if tl == 511: nb = 10\n            elif tl == 1023: nb = 11\n            elif tl == 2047: nb = 12\n"
          "    s = ''.join(bits); s += '0' * (-len(s) % 8)\n"
          "    return int(s, 2).to_bytes(len(s) // 8, 'big')\n"
          "data = build_pdf(content=lzw_alt(250000), content_dict=b'/Filter /LZWDecode')\n"
          "check_bounded(lambda: extract_text(io.BytesIO(data)))\n",
          "The LZW table is never capped at 4096 entries and run() evaluates self.table[258:] for a debug log call after every code, so decoding is quadratic in the number of codes (and table entries / output can grow quadratically too): a 370 KB stream without clear codes does not finish in 20 s."))
W.append(("Timeout:ascii85.ascii85decode",
          "data = build_pdf(content=b'x' + b' ' * 400000 + b'x~>', content_dict=b'/Filter /ASCII85Decode')\n"
          "check_bounded(lambda: extract_text(io.BytesIO(data)))\n",
          "end_re (\\s*~\\s*>?\\s*$) is applied with sub() and backtracks quadratically over a long run of white space that is not followed by '~': 400 KB of blanks inside an ASCII85 stream blocks the interpreter (uninterruptibly, inside the regex engine) for over a minute."))

W.append(("MemoryError:pdftypes.PDFStream.decode",
          "c = zlib.compressobj(9)\nl1 = b''.join(c.compress(b' ' * (1 << 24)) for _ in range(128)) + c.flush()\n"
          "pl = zlib.compress(zlib.compress(l1, 9), 9)\nprint('payload bytes:', len(pl))\n"
          "data = build_pdf(content=pl, content_dict=b'/Filter [/FlateDecode /FlateDecode /FlateDecode]')\n"
          "check_bounded(lambda: extract_text(io.BytesIO(data)), seconds=120, mem_gb=1.5)\n",
          "Filter chains are decoded without any output limit, so expansion multiplies per layer: a content stream of a few hundred bytes under [/FlateDecode /FlateDecode /FlateDecode] expands to 2 GiB (MemoryError under a 1.5 GiB address-space limit; one more layer exhausts any machine)."))


W.append(("Timeout:image.ImageWriter._create_unique_image_name",
          "data = build_pdf(b'/Type /XObject /Subtype /Image /Width 1 /Height 1 /BitsPerComponent 8 /ColorSpace /DeviceGray', b'a', content=b'/Im0 Do ' * 8000)\n"
          "check_bounded(lambda: export_images(data))\n",
          "Every export of an image whose name is already taken probes name.0, name.1, ... from zero with lexists, so a content stream that paints the same XObject n times costs n*n/2 lstat calls: a 64 KB page with 8000 'Do' operators does not finish in 20 s with output_dir set."))


EMB = ("import dumppdf\n"
       "def run_E(fs):\n"
       "    extra = [b'11 0 obj\\n<< /Type /EmbeddedFile /Length 5 >>\\nstream\\nhello\\nendstream\\nendobj\\n', b'12 0 obj\\n' + fs + b'\\nendobj\\n']\n"
       "    d = tempfile.mkdtemp(prefix='h4w_')\n"
       "    try:\n"
       "        p = os.path.join(d, 'in.pdf')\n"
       "        open(p, 'wb').write(build_pdf(extra_objs=extra))\n"
       "        dumppdf.main(['-E', os.path.join(d, 'ex'), p])\n"
       "    finally:\n"
       "        shutil.rmtree(d, ignore_errors=True)\n")
for et, fs, why in [
    ("AttributeError", "<< /Type /Filespec /EF << /F 11 0 R >> >>", "A file specification with /F and /UF removed (or /EF given as an indirect reference / its /F entry missing) leaks AttributeError from None.decode() / .get / .objid in dumppdf --extract-embedded."),
    ("KeyError", "<< /Type /Filespec /F (a.txt) >>", "A file specification without /EF leaks KeyError('EF') in dumppdf --extract-embedded."),
    ("UnicodeDecodeError", "<< /Type /Filespec /F (\\377\\376) /EF << /F 11 0 R >> >>", "A file specification whose /F string is not UTF-8 leaks UnicodeDecodeError in dumppdf --extract-embedded."),
    ("ValueError", "<< /Type /Filespec /F (a\\000b) /EF << /F 11 0 R >> >>", "An embedded file name containing a NUL byte leaks ValueError('embedded null byte') from open()/makedirs in dumppdf --extract-embedded."),
    ("OSError", "<< /Type /Filespec /F (" + "A" * 300 + ") /EF << /F 11 0 R >> >>", "An embedded file name longer than the file system allows leaks OSError (File name too long) from open() in dumppdf --extract-embedded."),
    ("TypeError", "<< /Type /Filespec /UF -1 /F (a.txt) /EF << /F 11 0 R >> >>", "A file specification whose /UF is a number leaks TypeError from os.path.basename in dumppdf --extract-embedded."),
]:
    W.append(("%s:dumppdf.extractembedded.extract1" % et, EMB + "check(lambda: run_E(%r))\n" % fs.encode("latin-1"), why))

here = os.path.dirname(os.path.abspath(__file__))
findings = []
for i, (key, body, why) in enumerate(W, 1):
    path = os.path.join(here, "witness_%d.py" % i)
    with open(path, "w") as f:
        f.write("# %s\n# %s\n" % (key, why))
        f.write(PRE)
        f.write(body)
    findings.append({"key": key, "witness": "cd /tmp/hunt-H4 && PYTHONPATH=/tmp/hunt-H4 /venv/bin/python out/witness_%d.py" % i,
                     "explanation": why})
json.dump(findings, open(os.path.join(here, "findings.json"), "w"), indent=1)
print(len(findings))
