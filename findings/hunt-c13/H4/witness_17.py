# Timeout:pdfinterp.PDFContentParser.get_inline_data
# Inline image data is accumulated with data += ... once per occurrence of the first marker byte, so a payload consisting of 'E' bytes costs quadratic copying: 1.5 MB of inline data does not finish in 20 s.

import io, os, sys, struct, zlib, tempfile, shutil, subprocess, traceback, logging
sys.path.insert(0, "/tmp/hunt-H4")
sys.path.insert(0, "/tmp/hunt-H4/tools")
logging.disable(logging.CRITICAL)
from pdfminer.psexceptions import PSException
from pdfminer.high_level import extract_text, extract_text_to_fp
from pdfminer.layout import LAParams


def build_pdf(imgdict=b"/Type /XObject /Subtype /Image /Width 1 /Height 1", payload=b"a", extra_objs=(),
              content=b"q 100 0 0 100 0 0 cm /Im0 Do Q\n", content_dict=b""):
    objs = [
        b"1 0 obj\n<< /Type /Catalog /Pages 2 0 R >>\nendobj\n",
        b"2 0 obj\n<< /Type /Pages /Kids [3 0 R] /Count 1 >>\nendobj\n",
        b"3 0 obj\n<< /Type /Page /Parent 2 0 R /MediaBox [0 0 200 200] /Contents 4 0 R "
        b"/Resources << /XObject << /Im0 5 0 R >> >> >>\nendobj\n",
        b"4 0 obj\n<< /Length %d %s >>\nstream\n" % (len(content), content_dict) + content + b"\nendstream\nendobj\n",
        b"5 0 obj\n<< " + imgdict + b" /Length %d >>\nstream\n" % len(payload) + payload + b"\nendstream\nendobj\n",
    ] + list(extra_objs)
    out = b"%PDF-1.7\n"
    offs = {}
    for o in objs:
        offs[int(o.split(b" ", 1)[0])] = len(out)
        out += o
    n = max(offs) + 1
    xref = len(out)
    out += b"xref\n0 %d\n0000000000 65535 f \n" % n
    for i in range(1, n):
        out += (b"%010d 00000 n \n" % offs[i]) if i in offs else b"0000000000 65535 f \n"
    out += b"trailer\n<< /Size %d /Root 1 0 R >>\nstartxref\n%d\n%%%%EOF\n" % (n, xref)
    return out


def export_images(data):
    """extract_text_to_fp(..., output_dir=<tmp>)"""
    d = tempfile.mkdtemp(prefix="h4w_")
    try:
        extract_text_to_fp(io.BytesIO(data), io.StringIO(), output_type="text", output_dir=d, laparams=LAParams())
    finally:
        shutil.rmtree(d, ignore_errors=True)


def check(fn):
    """exit 1 and print the leak if fn() raises something outside the PSException family"""
    try:
        fn()
    except PSException as e:
        print("ok: library error", type(e).__name__, e)
        sys.exit(0)
    except BaseException as e:
        traceback.print_exc()
        print("LEAK:", type(e).__name__, e)
        sys.exit(1)
    print("ok: returned")
    sys.exit(0)


def check_bounded(fn, seconds=20, mem_gb=None):
    """run fn() in a child process; exit 1 if it does not finish within `seconds`"""
    if len(sys.argv) > 1 and sys.argv[1] == "child":
        if mem_gb:
            import resource
            resource.setrlimit(resource.RLIMIT_AS, (int(mem_gb * 2**30),) * 2)
        check(fn)
    tmp = tempfile.mkdtemp(prefix="h4wp_")
    try:
        p = subprocess.run([sys.executable, os.path.abspath(__file__), "child"], timeout=seconds,
                           stdout=subprocess.PIPE, stderr=subprocess.STDOUT, env=dict(os.environ, TMPDIR=tmp))
    except subprocess.TimeoutExpired:
        print("LEAK: Timeout - still running after %d s" % seconds)
        sys.exit(1)
    finally:
        shutil.rmtree(tmp, ignore_errors=True)
    sys.stdout.write(p.stdout.decode("utf-8", "replace")[-3000:])
    sys.exit(1 if p.returncode else 0)

data = build_pdf(content=b'BI /W 8 /H 8 /BPC 8 /CS /G ID ' + b'E' * 1500000 + b' EI')
check_bounded(lambda: extract_text(io.BytesIO(data)))
