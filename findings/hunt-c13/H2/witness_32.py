import os, sys
sys.path.insert(0, os.path.dirname(os.path.abspath(__file__)))
import wlib
from cases import CASES
# TypeError:dumppdf.extract1
# dumppdf -E: a /Filespec /UF that is an integer reaches os.path.basename, leaking TypeError.
data, password, entry = CASES['filespec_UF_integer']()
wlib.check(data, entry, password)
