import os, sys
sys.path.insert(0, os.path.dirname(os.path.abspath(__file__)))
import wlib
from cases import CASES
# AssertionError:pdfdocument._getobj_objstm
# A cross-reference stream entry of type 2 whose container object is not a stream makes stream_value() return an anonymous PDFStream, and `assert stream.objid is not None` in _getobj_objstm leaks AssertionError (caching on).
data, password, entry = CASES['xref_type2_container_not_a_stream']()
wlib.check(data, entry, password)
