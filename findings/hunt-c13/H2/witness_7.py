import os, sys
sys.path.insert(0, os.path.dirname(os.path.abspath(__file__)))
import wlib
from cases import CASES
# OverflowError:pdfparser.do_keyword
# A stream /Length of 2**63 or more is passed unchecked to fp.read, leaking OverflowError from PDFParser.do_keyword.
data, password, entry = CASES['length_2_63']()
wlib.check(data, entry, password)
