import os, sys
sys.path.insert(0, os.path.dirname(os.path.abspath(__file__)))
import wlib
from cases import CASES
# RecursionError:pdftypes.decipher_all
# decipher_all recurses once per nesting level; an object made of 1500 nested arrays in an encrypted document leaks RecursionError when the object is loaded.
data, password, entry = CASES['encrypted_nested_arrays_1500']()
wlib.check(data, entry, password)
