import os, sys
sys.path.insert(0, os.path.dirname(os.path.abspath(__file__)))
import wlib
from cases import CASES
# OSError:psparser.seek
# A negative object offset in a cross-reference table entry is passed to seek on a real file, leaking OSError (EINVAL).
data, password, entry = CASES['xref_offset_negative_file']()
wlib.check(data, entry, password)
