import os, sys
sys.path.insert(0, os.path.dirname(os.path.abspath(__file__)))
import wlib
from cases import CASES
# RecursionError:pdfdocument.getobj
# Cross-reference stream entries that place object N in 'object stream' N+1 for 600 consecutive objects make getobj/_load_obj recurse until RecursionError (only a direct self reference is detected).
data, password, entry = CASES['objstm_chain_600']()
wlib.check(data, entry, password)
