import os, sys
sys.path.insert(0, os.path.dirname(os.path.abspath(__file__)))
import wlib
from cases import CASES
# ValueError:psparser.seek
# The same oversized offset on a real file object (dumppdf / pdf2txt open files) makes fp.seek raise ValueError ('cannot fit int into an offset-sized integer') instead of a library error.
data, password, entry = CASES['startxref_2_63_file']()
wlib.check(data, entry, password)
