import os, sys
sys.path.insert(0, os.path.dirname(os.path.abspath(__file__)))
import wlib
from cases import CASES
# AttributeError:dumppdf.extract1
# dumppdf -E: a /Filespec without /F and /UF (or with a non-string /F, or a non-reference /EF /F) leaks AttributeError in extract1.
data, password, entry = CASES['filespec_without_F']()
wlib.check(data, entry, password)
