import os, sys
sys.path.insert(0, os.path.dirname(os.path.abspath(__file__)))
import wlib
from cases import CASES
# OverflowError:psparser.seek
# A startxref (or /Prev, /XRefStm, xref entry offset, 9-byte xref-stream offset) of 2**63 or more is passed unchecked to fp.seek on a BytesIO, leaking OverflowError.
data, password, entry = CASES['startxref_2_63']()
wlib.check(data, entry, password)
