import os, sys
sys.path.insert(0, os.path.dirname(os.path.abspath(__file__)))
import wlib
from cases import CASES
# KeyError:dumppdf.dumpoutline
# dumppdf -T: an outline /Dest (or GoTo action /D) whose page reference is missing or not a page makes `pages[dest[0].objid]` leak KeyError.
data, password, entry = CASES['outline_dest_missing_page']()
wlib.check(data, entry, password)
