import os, sys
sys.path.insert(0, os.path.dirname(os.path.abspath(__file__)))
import wlib
from cases import CASES
# TypeError:dumppdf.dumpoutline
# dumppdf -T: an outline /Dest that is a number/boolean makes `dest[0]` leak TypeError.
data, password, entry = CASES['outline_dest_integer']()
wlib.check(data, entry, password)
