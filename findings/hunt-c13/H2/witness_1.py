import os, sys
sys.path.insert(0, os.path.dirname(os.path.abspath(__file__)))
import wlib
from cases import CASES
# AssertionError:pdfdocument.load_trailer
# A keyword that merely starts with 'trailer' (e.g. 'trailers') after the xref table trips the bare `assert kwd is KWD(b"trailer")` in PDFXRef.load_trailer, leaking AssertionError.
data, password, entry = CASES['trailer_keyword_glued']()
wlib.check(data, entry, password)
