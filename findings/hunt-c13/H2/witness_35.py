import os, sys
sys.path.insert(0, os.path.dirname(os.path.abspath(__file__)))
import wlib
from cases import CASES
# RecursionError:dumppdf.dumpxml
# dumppdf -a: dumpxml recurses once per nesting level, so an object of 1500 nested arrays leaks RecursionError.
data, password, entry = CASES['nested_arrays_1500_dumppdf']()
wlib.check(data, entry, password)
