import os, sys
sys.path.insert(0, os.path.dirname(os.path.abspath(__file__)))
import wlib
from cases import CASES
# KeyError:pdftypes.__getitem__
# dumppdf -T: an outline /Dest that refers to a stream makes `dest[0]` index PDFStream.attrs, leaking a plain KeyError from PDFStream.__getitem__.
data, password, entry = CASES['outline_dest_is_stream']()
wlib.check(data, entry, password)
