import os, sys
sys.path.insert(0, os.path.dirname(os.path.abspath(__file__)))
import wlib
from cases import CASES
# RecursionError:data_structures._parse
# NumberTree._parse recurses once per /Kids level; a /PageLabels number tree 1200 levels deep (no cycle) leaks RecursionError.
data, password, entry = CASES['pagelabels_tree_depth_1200']()
wlib.check(data, entry, password)
