"""Witness helper: run one entry point on a case and exit 1 if it leaks."""
import io
import logging
import os
import signal
import sys
import tempfile
import traceback

HERE = os.path.dirname(os.path.abspath(__file__))
ROOT = os.path.dirname(HERE)
sys.path.insert(0, ROOT)
sys.path.insert(0, os.path.join(ROOT, "tools"))
sys.path.insert(0, HERE)
logging.disable(logging.CRITICAL)


class _Timeout(BaseException):
    pass


def _alarm(signum, frame):
    raise _Timeout()


def run_entry(entry, data, password=""):
    from pdfminer import high_level
    from pdfminer.layout import LAParams

    if entry == "extract_text":
        high_level.extract_text(io.BytesIO(data), password=password)
    elif entry == "extract_text_nocache":
        high_level.extract_text(io.BytesIO(data), password=password, caching=False)
    elif entry == "extract_pages":
        for _ in high_level.extract_pages(io.BytesIO(data), password=password):
            pass
    elif entry.startswith("to_fp:"):
        high_level.extract_text_to_fp(io.BytesIO(data), io.BytesIO(), output_type=entry[6:],
                                      password=password, laparams=LAParams())
    elif entry.startswith("dumppdf") or entry.startswith("pdf2txt"):
        parts = entry.split()
        mod = __import__(parts[0])
        fd, path = tempfile.mkstemp(suffix=".pdf")
        os.write(fd, data)
        os.close(fd)
        try:
            args = parts[1:] + ["-o", os.devnull]
            if password:
                args += ["-P", password]
            mod.main(args + [path])
        finally:
            os.unlink(path)
    else:
        raise SystemExit("unknown entry " + entry)


def check(data, entry="extract_text", password="", timeout=20):
    """exit 1 and print the leaked exception when the problem occurs, else exit 0"""
    from pdfminer.psexceptions import PSException

    signal.signal(signal.SIGALRM, _alarm)
    signal.alarm(timeout)
    old = sys.stdout
    sys.stdout = open(os.devnull, "w")
    try:
        run_entry(entry, data, password)
    except PSException as e:
        sys.stdout = old
        print("ok: library exception", type(e).__name__)
        sys.exit(0)
    except _Timeout:
        sys.stdout = old
        print("LEAK: Timeout: no result within %d seconds for %d input bytes" % (timeout, len(data)))
        sys.exit(1)
    except SystemExit:
        sys.stdout = old
        print("ok: SystemExit")
        sys.exit(0)
    except BaseException as e:  # noqa
        signal.alarm(0)
        sys.stdout = old
        tb = traceback.extract_tb(e.__traceback__)
        where = [f for f in tb if "/pdfminer/" in f.filename or "/tools/" in f.filename]
        loc = "%s:%d in %s" % (where[-1].filename, where[-1].lineno, where[-1].name) if where else "?"
        print("LEAK: %s: %s  (innermost: %s)" % (type(e).__name__, str(e)[:200], loc))
        sys.exit(1)
    finally:
        signal.alarm(0)
    sys.stdout = old
    print("ok: returned")
    sys.exit(0)
