import os, sys
sys.path.insert(0, os.path.dirname(os.path.abspath(__file__)))
import wlib
from cases import CASES
# struct.error:pdfdocument.decrypt_aes128
# Same in an AESV2 document: struct.pack('<L', genno) in decrypt_aes128 leaks struct.error for a generation/object number >= 2**32.
data, password, entry = CASES['encrypted_generation_2_32_aes']()
wlib.check(data, entry, password)
