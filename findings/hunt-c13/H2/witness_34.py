import os, sys
sys.path.insert(0, os.path.dirname(os.path.abspath(__file__)))
import wlib
from cases import CASES
# OSError:dumppdf.extract1
# dumppdf -E: a /Filespec /F of 300 characters makes open() fail with OSError (file name too long), which is not mapped to PDFIOError.
data, password, entry = CASES['filespec_F_300_chars']()
wlib.check(data, entry, password)
