"""Object model, serializer and generic single-fault mutation."""
import zlib


class Name(str):
    pass


class Ref(int):
    pass


class Raw(bytes):
    pass


class Stm:
    def __init__(self, d, payload, raw_len=None):
        self.d = d
        self.payload = payload
        self.raw_len = raw_len


def ser(o):
    if isinstance(o, Raw):
        return bytes(o)
    if isinstance(o, Ref):
        return b"%d 0 R" % int(o)
    if isinstance(o, Name):
        return b"/" + o.encode("latin1")
    if o is None:
        return b"null"
    if o is True:
        return b"true"
    if o is False:
        return b"false"
    if isinstance(o, int):
        return b"%d" % o
    if isinstance(o, float):
        return repr(o).encode()
    if isinstance(o, bytes):
        return b"<" + o.hex().encode() + b">"
    if isinstance(o, list):
        return b"[" + b" ".join(ser(v) for v in o) + b"]"
    if isinstance(o, dict):
        return b"<<" + b" ".join(b"/" + k.encode("latin1") + b" " + ser(v) for k, v in o.items()) + b">>"
    if isinstance(o, Stm):
        d = dict(o.d)
        if "Length" not in d:
            d["Length"] = len(o.payload) if o.raw_len is None else o.raw_len
        return ser(d) + b"\nstream\n" + o.payload + b"\nendstream"
    raise TypeError(o)


CONTENT = b"BT /F1 12 Tf 72 720 Td (Hello) Tj ET"


def base():
    return {
        1: {"Type": Name("Catalog"), "Pages": Ref(2)},
        2: {"Type": Name("Pages"), "Kids": [Ref(3)], "Count": 1, "MediaBox": [0, 0, 612, 792]},
        3: {"Type": Name("Page"), "Parent": Ref(2), "Contents": Ref(4),
            "Resources": {"Font": {"F1": Ref(5)}}},
        4: Stm({}, CONTENT),
        5: {"Type": Name("Font"), "Subtype": Name("Type1"), "BaseFont": Name("Helvetica")},
        6: {"Producer": b"me"},
    }


def build_classic(objs, trailer=None, header=b"%PDF-1.4\n"):
    out = bytearray(header)
    offs = {}
    for n in sorted(objs):
        offs[n] = len(out)
        out += b"%d 0 obj\n" % n + ser(objs[n]) + b"\nendobj\n"
    xpos = len(out)
    size = max(objs) + 1
    out += b"xref\n0 %d\n" % size
    out += b"0000000000 65535 f \n"
    for n in range(1, size):
        out += (b"%010d 00000 n \n" % offs[n]) if n in offs else b"0000000000 65535 f \n"
    t = {"Size": size, "Root": Ref(1), "Info": Ref(6)}
    if trailer is not None:
        t = trailer(t)
    out += b"trailer\n" + ser(t) + b"\nstartxref\n%d\n%%%%EOF\n" % xpos
    return bytes(out)


def build_xs(objs, instm=(), xs=None, osd=None, W=(1, 4, 2), compress=True, ospayload=None,
             hybrid=False):
    """xref-stream document; objects whose number is in instm go into object stream 90.
    xs: function mutating xref stream dict; osd: function mutating objstm dict."""
    objs = dict(objs)
    out = bytearray(b"%PDF-1.5\n")
    ent = {0: (0, 0, 65535)}
    if instm:
        hdr = b""
        body = b""
        for n in instm:
            hdr += b"%d %d " % (n, len(body))
            body += ser(objs.pop(n)) + b" "
        payload = hdr + body
        if ospayload:
            payload = ospayload(payload)
        d = {"Type": Name("ObjStm"), "N": len(instm), "First": len(hdr)}
        if compress:
            payload = zlib.compress(payload)
            d["Filter"] = Name("FlateDecode")
        if osd:
            d = osd(d)
        objs[90] = Stm(d, payload)
        for i, n in enumerate(instm):
            ent[n] = (2, 90, i)
    offs = {}
    for n in sorted(objs):
        offs[n] = len(out)
        ent[n] = (1, len(out), 0)
        out += b"%d 0 obj\n" % n + ser(objs[n]) + b"\nendobj\n"
    xnum = 99
    xpos = len(out)
    ent[xnum] = (1, xpos, 0)
    size = xnum + 1
    data = b""
    for n in range(size):
        t, a, b_ = ent.get(n, (0, 0, 0))
        data += t.to_bytes(W[0], "big") + a.to_bytes(W[1], "big") + b_.to_bytes(W[2], "big")
    d = {"Type": Name("XRef"), "Size": size, "W": list(W), "Root": Ref(1), "Info": Ref(6)}
    if compress:
        data = zlib.compress(data)
        d["Filter"] = Name("FlateDecode")
    if xs:
        d = xs(d)
    out += b"%d 0 obj\n" % xnum + ser(Stm(d, data)) + b"\nendobj\n"
    if hybrid:
        tpos = len(out)
        out += b"xref\n0 1\n0000000000 65535 f \n"
        for n in sorted(offs):
            out += b"%d 1\n%010d 00000 n \n" % (n, offs[n])
        t = {"Size": size, "Root": Ref(1), "Info": Ref(6), "XRefStm": xpos}
        if callable(hybrid):
            t = hybrid(t)
        out += b"trailer\n" + ser(t) + b"\n"
        xpos = tpos
    out += b"startxref\n%d\n%%%%EOF\n" % xpos
    return bytes(out)


def alternatives(selfref=None):
    alts = [
        ("int0", 0), ("int-1", -1), ("int1", 1), ("int2^31", 2**31), ("int2^63", 2**63),
        ("int400d", 10**400), ("real", 1.5), ("name", Name("Foo")), ("str", b"abc"),
        ("str0", b""), ("arr0", []), ("arr70000", Raw(b"[" + b"0 " * 70000 + b"]")),
        ("arrmix", [1, b"a", Name("N"), None, Ref(9999)]),
        ("dict0", {}), ("null", None), ("true", True), ("missing", Ref(9999)),
        ("root", Ref(1)), ("stream", Ref(4)), ("pages", Ref(2)), ("page", Ref(3)),
        ("neghuge", -2**63), ("arrint", [2**63, -1]), ("arrarr", [[0, 1], [2, 3]]),
        ("strlong", b"A" * 70000),
    ]
    if selfref is not None:
        alts.append(("self", Ref(selfref)))
    return alts


def dict_mutations(d, selfref=None):
    """yield (label, new_dict) single-fault mutations of dictionary d (top-level keys and
    array elements one level down)."""
    for k in list(d):
        nd = dict(d)
        del nd[k]
        yield f"del {k}", nd
        for lab, v in alternatives(selfref):
            nd = dict(d)
            nd[k] = v
            yield f"{k}={lab}", nd
        if isinstance(d[k], list):
            for i in range(len(d[k])):
                for lab, v in alternatives(selfref):
                    nd = dict(d)
                    nl = list(d[k])
                    nl[i] = v
                    nd[k] = nl
                    yield f"{k}[{i}]={lab}", nd
        if isinstance(d[k], dict):
            for lab, sub in dict_mutations(d[k], selfref):
                nd = dict(d)
                nd[k] = sub
                yield f"{k}.{lab}", nd
