import os, sys
sys.path.insert(0, os.path.dirname(os.path.abspath(__file__)))
import wlib
from cases import CASES
# RecursionError:pdfdocument.read_xref_from
# read_xref_from recurses once per /Prev section; a 66 KB file with 1200 chained xref sections exhausts the recursion limit (RecursionError leaks, not caught by the PDFNoValidXRef fallback).
data, password, entry = CASES['prev_chain_1200']()
wlib.check(data, entry, password)
