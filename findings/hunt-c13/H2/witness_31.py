import os, sys
sys.path.insert(0, os.path.dirname(os.path.abspath(__file__)))
import wlib
from cases import CASES
# UnicodeDecodeError:dumppdf.extract1
# dumppdf -E: a /Filespec /F that is not valid UTF-8 leaks UnicodeDecodeError in extract1.
data, password, entry = CASES['filespec_F_not_utf8']()
wlib.check(data, entry, password)
