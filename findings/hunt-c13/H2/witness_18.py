import os, sys
sys.path.insert(0, os.path.dirname(os.path.abspath(__file__)))
import wlib
from cases import CASES
# OverflowError:utils.parse_rect
# A /MediaBox or /CropBox element that is a 400-digit integer overflows float() in parse_rect; only PDFValueError is caught by _parse_mediabox, so OverflowError leaks.
data, password, entry = CASES['mediabox_400_digits']()
wlib.check(data, entry, password)
