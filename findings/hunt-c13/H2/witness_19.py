import os, sys
sys.path.insert(0, os.path.dirname(os.path.abspath(__file__)))
import wlib
from cases import CASES
# Timeout:utils._getrange
# A /MediaBox coordinate of -2**63 makes layout analysis build a Plane whose _getrange grid iteration is proportional to the box size, so extract_text does not finish (timeout) on a 600-byte file.
data, password, entry = CASES['mediabox_minus_2_63']()
wlib.check(data, entry, password)
