import os, sys
sys.path.insert(0, os.path.dirname(os.path.abspath(__file__)))
import wlib
from cases import CASES
# Timeout:pdfdocument.get_objids
# A cross-reference stream whose /Index (or /Size) announces 2**40 entries makes get_objids yield an id for every absent entry (empty type field defaults to 1), so the no-/Pages fallback of create_pages and dumppdf -a loop for ever on a 500-byte file.
data, password, entry = CASES['xrefstream_index_huge_no_pages']()
wlib.check(data, entry, password)
