import os, sys
sys.path.insert(0, os.path.dirname(os.path.abspath(__file__)))
import wlib
from cases import CASES
# ValueError:dumppdf.extract1
# dumppdf -E: a /Filespec /F containing a NUL byte reaches os.path.exists/open, leaking ValueError ('embedded null byte').
data, password, entry = CASES['filespec_F_with_nul']()
wlib.check(data, entry, password)
