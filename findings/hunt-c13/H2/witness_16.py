import os, sys
sys.path.insert(0, os.path.dirname(os.path.abspath(__file__)))
import wlib
from cases import CASES
# AssertionError:utils.format_int_alpha
# A /PageLabels range with /S /a (or /A) and /St 0 or negative trips `assert value > 0` in format_int_alpha, leaking AssertionError.
data, password, entry = CASES['pagelabel_alpha_zero']()
wlib.check(data, entry, password)
