import os, sys
sys.path.insert(0, os.path.dirname(os.path.abspath(__file__)))
import wlib
from cases import CASES
# MemoryError:pdfparser.do_keyword
# A stream /Length of 2**62 in a 600-byte file makes BufferedReader.read try to allocate the whole length, leaking MemoryError: work is not bounded by the input size.
data, password, entry = CASES['length_2_62_file']()
wlib.check(data, entry, password)
