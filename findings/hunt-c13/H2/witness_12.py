import os, sys
sys.path.insert(0, os.path.dirname(os.path.abspath(__file__)))
import wlib
from cases import CASES
# RecursionError:pdfpage.depth_first_search
# PDFPage.create_pages.depth_first_search recurses once per page-tree level; a /Kids chain 1200 levels deep (no cycle) leaks RecursionError.
data, password, entry = CASES['page_tree_depth_1200']()
wlib.check(data, entry, password)
