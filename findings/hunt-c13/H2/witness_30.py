import os, sys
sys.path.insert(0, os.path.dirname(os.path.abspath(__file__)))
import wlib
from cases import CASES
# KeyError:dumppdf.extract1
# dumppdf -E: a /Filespec without /EF leaks KeyError in extract1.
data, password, entry = CASES['filespec_without_EF']()
wlib.check(data, entry, password)
