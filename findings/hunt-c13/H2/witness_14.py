import os, sys
sys.path.insert(0, os.path.dirname(os.path.abspath(__file__)))
import wlib
from cases import CASES
# RecursionError:pdftypes.resolve1
# A stream whose /Length is a reference to another stream whose /Length is again a reference ... (600 deep) recurses through do_keyword/int_value/resolve1/getobj until RecursionError.
data, password, entry = CASES['length_ref_chain_600']()
wlib.check(data, entry, password)
