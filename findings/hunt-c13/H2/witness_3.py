import os, sys
sys.path.insert(0, os.path.dirname(os.path.abspath(__file__)))
import wlib
from cases import CASES
# ValueError:pdfdocument.find_xref
# find_xref checks isdigit() and then calls int() on a startxref value of 5000 digits, leaking ValueError (integer string conversion limit).
data, password, entry = CASES['startxref_5000_digits']()
wlib.check(data, entry, password)
