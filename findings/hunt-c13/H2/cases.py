"""Hand-built damaged documents. CASES[name]() -> (bytes, password, entry)."""
import os
import sys

sys.path.insert(0, os.path.dirname(os.path.abspath(__file__)))
from b import CONTENT, base_objs, classic, stream, xrefstream_doc  # noqa: E402

CASES = {}


def case(entry="extract_text", password=""):
    def deco(f):
        CASES[f.__name__] = lambda: (f(), password, entry)
        return f
    return deco


@case()
def trailer_keyword_glued():
    # "trailers" instead of "trailer"
    return classic(trailer_raw=b"trailers\n<< /Size 6 /Root 1 0 R >>\n")[0]


@case()
def fallback_huge_objid():
    # startxref unusable -> fallback scan; an object number of 5000 digits
    d = classic(startxref=b"abc")[0]
    return d.replace(b"5 0 obj", b"5" * 5000 + b" 0 obj")


@case()
def startxref_5000_digits():
    return classic(startxref=b"9" * 5000)[0]


@case()
def startxref_2_63():
    return classic(startxref=b"%d" % 2**63)[0]


@case("dumppdf -a")
def startxref_2_63_file():
    return classic(startxref=b"%d" % 2**63)[0]


def _xo(val):
    def xo(offs, size):
        out = b"xref\n0 %d\n0000000000 65535 f \n" % size
        for n in range(1, size):
            out += b"%d 00000 n \n" % (val if n == 4 else offs[n])
        return out
    return xo


@case()
def xref_offset_negative():
    return classic(xref_override=_xo(-5))[0]


@case("dumppdf -a")
def xref_offset_negative_file():
    return classic(xref_override=_xo(-5))[0]


def _len(v):
    o = base_objs()
    o[4] = b"<< /Length %d >>\nstream\n" % v + CONTENT + b"\nendstream"
    return classic(o)[0]


@case()
def length_2_63():
    return _len(2**63)


@case("dumppdf -a")
def length_negative_file():
    return _len(-5)


@case("dumppdf -a")
def length_2_62_file():
    return _len(2**62)


@case()
def xrefstream_index_huge_no_pages():
    o = base_objs()
    o[1] = b"<< /Type /Catalog >>"
    return xrefstream_doc(objs=o, index=b"[0 %d]" % 2**40)


def _prevchain(n):
    out = bytearray(b"%PDF-1.4\n")
    o = base_objs()
    offs = {}
    for k in sorted(o):
        offs[k] = len(out)
        out += b"%d 0 obj\n" % k + o[k] + b"\nendobj\n"
    prev = None
    for i in range(n):
        pos = len(out)
        if i == 0:
            out += b"xref\n0 6\n0000000000 65535 f \n"
            out += b"".join(b"%010d 00000 n \n" % offs[k] for k in range(1, 6))
        else:
            out += b"xref\n0 0\n"
        out += b"trailer\n<< /Size 6 /Root 1 0 R"
        out += (b" /Prev %d" % prev if prev is not None else b"") + b" >>\n"
        prev = pos
    out += b"startxref\n%d\n%%%%EOF\n" % prev
    return bytes(out)


@case()
def prev_chain_1200():
    return _prevchain(1200)


@case()
def page_tree_depth_1200():
    n = 1200
    o = base_objs()
    o[2] = b"<< /Type /Pages /Kids [10 0 R] /Count 1 /MediaBox [0 0 612 792] >>"
    for i in range(n):
        nxt = 10 + i + 1 if i < n - 1 else 3
        o[10 + i] = b"<< /Type /Pages /Kids [%d 0 R] /Count 1 >>" % nxt
    return classic(o)[0]


@case()
def objstm_chain_600():
    # object 10+i is said to live in object stream 10+i+1
    n = 600
    out = bytearray(b"%PDF-1.5\n")
    o = base_objs()
    ent = {0: (0, 0, 65535)}
    last = 10 + n
    o[last] = stream(b"/Type /ObjStm /N 1 /First 4", b"9 0 << /A 1 >>")
    for k in sorted(o):
        ent[k] = (1, len(out), 0)
        out += b"%d 0 obj\n" % k + o[k] + b"\nendobj\n"
    for i in range(n):
        ent[10 + i] = (2, 10 + i + 1, 0)
    xnum = last + 1
    xpos = len(out)
    ent[xnum] = (1, xpos, 0)
    data = b""
    for k in range(xnum + 1):
        t, a, b_ = ent.get(k, (0, 0, 0))
        data += t.to_bytes(1, "big") + a.to_bytes(4, "big") + b_.to_bytes(2, "big")
    d = b"/Type /XRef /Size %d /W [1 4 2] /Root 1 0 R /Info 10 0 R" % (xnum + 1)
    out += b"%d 0 obj\n" % xnum + stream(d, data) + b"\nendobj\nstartxref\n%d\n%%%%EOF\n" % xpos
    return bytes(out)


@case()
def length_ref_chain_600():
    n = 600
    o = base_objs()
    o[4] = b"<< /Length 10 0 R >>\nstream\n" + CONTENT + b"\nendstream"
    for i in range(n):
        o[10 + i] = b"<< /Length %d 0 R >>\nstream\nabc\nendstream" % (10 + i + 1)
    o[10 + n] = b"3"
    return classic(o)[0]


def _labels(d):
    o = base_objs()
    o[1] = b"<< /Type /Catalog /Pages 2 0 R /PageLabels << /Nums [0 " + d + b"] >> >>"
    return classic(o)[0]


@case()
def pagelabel_roman_zero():
    return _labels(b"<< /S /r /St 0 >>")


@case()
def pagelabel_alpha_zero():
    return _labels(b"<< /S /a /St 0 >>")


@case()
def pagelabels_tree_depth_1200():
    n = 1200
    o = base_objs()
    o[1] = b"<< /Type /Catalog /Pages 2 0 R /PageLabels 10 0 R >>"
    for i in range(n):
        o[10 + i] = b"<< /Kids [%d 0 R] >>" % (10 + i + 1)
    o[10 + n] = b"<< /Nums [0 << /S /D >>] >>"
    return classic(o)[0]


@case()
def object_is_bare_stream_keyword():
    o = base_objs()
    o[4] = b"stream\nabc\nendstream"
    return classic(o)[0]


@case()
def mediabox_400_digits():
    o = base_objs()
    o[2] = b"<< /Type /Pages /Kids [3 0 R] /Count 1 /MediaBox [0 0 612 1%s] >>" % (b"0" * 400)
    return classic(o)[0]


@case()
def mediabox_minus_2_63():
    o = base_objs()
    o[2] = b"<< /Type /Pages /Kids [3 0 R] /Count 1 /MediaBox [0 0 612 -%d] >>" % 2**63
    return classic(o)[0]


# ---- encrypted documents: incremental update appended to a sample ----
import re  # noqa: E402

_S = os.path.join(os.path.dirname(os.path.dirname(os.path.abspath(__file__))), "samples", "encryption")


def _update(fn, newobjs, info, xref_entries=None, first=20):
    """append an incremental update holding newobjs {num: body}; /Info -> info"""
    data = open(os.path.join(_S, fn), "rb").read()
    oldx = int(re.search(rb"startxref\s+(\d+)", data).group(1))
    ts = data.rindex(b"trailer") + 7
    te = data.rindex(b"startxref")
    tr = data[ts:te].strip()
    tr = re.sub(rb"/Info \d+ 0 R", b"/Info %d 0 R" % info, tr)
    tr = re.sub(rb"/Size \d+", b"/Size %d /Prev %d" % (max(newobjs) + 1, oldx), tr)
    out = bytearray(data)
    offs = {}
    for n in sorted(newobjs):
        offs[n] = len(out)
        out += b"%d 0 obj\n" % n + newobjs[n] + b"\nendobj\n"
    xp = len(out)
    out += b"xref\n"
    for n in sorted(newobjs):
        e = xref_entries(n, offs[n]) if xref_entries else b"%010d 00000 n \n" % offs[n]
        out += b"%d 1\n" % n + e
    out += b"trailer\n" + tr + b"\nstartxref\n%d\n%%%%EOF\n" % xp
    return bytes(out)


@case(password="foo")
def encrypted_generation_2_32():
    return _update("rc4-40.pdf", {20: b"<< /Title (abcdefgh) >>"}, 20,
                   xref_entries=lambda n, off: b"%010d 4294967296 n \n" % off)


@case(password="foo")
def encrypted_generation_2_32_aes():
    return _update("aes-128.pdf", {20: b"<< /Title (abcdefghabcdefghabcdefghabcdefgh) >>"}, 20,
                   xref_entries=lambda n, off: b"%010d 4294967296 n \n" % off)


@case(password="foo")
def encrypted_objid_2_32():
    n = 2**32 + 5
    return _update("rc4-40.pdf", {n: b"<< /Title (abcdefgh) >>"}, n)


@case(password="foo")
def encrypted_nested_arrays_1500():
    return _update("rc4-40.pdf", {20: b"<< /Title " + b"[" * 1500 + b"(abc)" + b"]" * 1500 + b" >>"}, 20)


@case(password="foo")
def encrypted_stream_inside_array():
    # page 1 of the sample is object ? -> add a new catalog/pages/page
    objs = {
        20: b"<< /Type /Catalog /Pages 21 0 R >>",
        21: b"<< /Type /Pages /Kids [22 0 R] /Count 1 /MediaBox [0 0 612 792] >>",
        22: b"<< /Type /Page /Parent 21 0 R /Contents [ << /Length 5 >>\nstream\nBT ET\nendstream ] >>",
    }
    d = _update("rc4-40.pdf", objs, 10)
    i = d.rindex(b"trailer")
    return d[:i] + d[i:].replace(b"/Root 1 0 R", b"/Root 20 0 R")


@case()
def xref_type2_container_not_a_stream():
    # cross-reference stream says object 3 lives in "object stream" 5, which is a dictionary
    return xrefstream_doc(entries_override={3: (2, 5, 0)})


@case()
def xrefstream_object_is_bare_stream_keyword():
    d = xrefstream_doc()
    p = d.rfind(b"99 0 obj")
    return d[:p] + b"99 0 obj\nstream\nabc\nendstream\nendobj\nstartxref\n%d\n%%%%EOF\n" % p


# ---- dumppdf ----
from m import Name, Raw, Ref, Stm, base, build_classic  # noqa: E402


def _doc(cat_extra=None, extra=None):
    b0 = base()
    b0[1].update(cat_extra or {})
    b0.update(extra or {})
    return build_classic(b0)


def _outline(item):
    return _doc({"Outlines": Ref(10)}, {10: {"First": Ref(11), "Last": Ref(11)}, 11: item})


@case("dumppdf -T")
def outline_dest_missing_page():
    return _outline({"Title": b"t", "Dest": [Ref(9999), Name("Fit")]})


@case("dumppdf -T")
def outline_dest_integer():
    return _outline({"Title": b"t", "Dest": 5})


@case("dumppdf -T")
def outline_dest_array_of_integer():
    return _outline({"Title": b"t", "Dest": [5]})


@case("dumppdf -T")
def outline_dest_dict_without_D():
    return _outline({"Title": b"t", "Dest": {"X": 1}})


@case("dumppdf -T")
def outline_dest_is_stream():
    return _outline({"Title": b"t", "Dest": Ref(4)})


def _embedded(fs):
    return _doc({}, {10: Stm({"Type": Name("EmbeddedFile")}, b"data"), 11: fs})


@case("dumppdf -E /tmp/hunt-H2/out/tmp/embedded")
def filespec_without_F():
    return _embedded({"Type": Name("Filespec")})


@case("dumppdf -E /tmp/hunt-H2/out/tmp/embedded")
def filespec_without_EF():
    return _embedded({"Type": Name("Filespec"), "F": b"a.txt"})


@case("dumppdf -E /tmp/hunt-H2/out/tmp/embedded")
def filespec_F_not_utf8():
    return _embedded({"Type": Name("Filespec"), "F": b"\xff\xfe", "EF": {"F": Ref(10)}})


@case("dumppdf -E /tmp/hunt-H2/out/tmp/embedded")
def filespec_UF_integer():
    return _embedded({"Type": Name("Filespec"), "UF": 7, "EF": {"F": Ref(10)}})


@case("dumppdf -E /tmp/hunt-H2/out/tmp/embedded")
def filespec_F_with_nul():
    return _embedded({"Type": Name("Filespec"), "F": b"a\x00b", "EF": {"F": Ref(10)}})


@case("dumppdf -E /tmp/hunt-H2/out/tmp/embedded")
def filespec_F_300_chars():
    return _embedded({"Type": Name("Filespec"), "F": b"a" * 300, "EF": {"F": Ref(10)}})


@case("dumppdf -a")
def nested_arrays_1500_dumppdf():
    return _doc({}, {10: Raw(b"[" * 1500 + b"]" * 1500)})
