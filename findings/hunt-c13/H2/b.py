"""Tiny PDF builder."""
import zlib

CONTENT = b"BT /F1 12 Tf 72 720 Td (Hello) Tj ET"


def stream(d, payload):
    return b"<< " + d + b" /Length %d >>\nstream\n" % len(payload) + payload + b"\nendstream"


def base_objs():
    return {
        1: b"<< /Type /Catalog /Pages 2 0 R >>",
        2: b"<< /Type /Pages /Kids [3 0 R] /Count 1 /MediaBox [0 0 612 792] >>",
        3: b"<< /Type /Page /Parent 2 0 R /Contents 4 0 R /Resources << /Font << /F1 5 0 R >> >> >>",
        4: stream(b"", CONTENT),
        5: b"<< /Type /Font /Subtype /Type1 /BaseFont /Helvetica >>",
    }


def classic(objs=None, trailer=b"/Root 1 0 R", header=b"%PDF-1.4\n", xref_override=None,
            startxref=None, tail=b"%%EOF\n", trailer_raw=None):
    objs = base_objs() if objs is None else objs
    out = bytearray(header)
    offs = {}
    for n in sorted(objs):
        offs[n] = len(out)
        out += b"%d 0 obj\n" % n + objs[n] + b"\nendobj\n"
    xpos = len(out)
    size = max(objs) + 1
    if xref_override is not None:
        out += xref_override(offs, size)
    else:
        out += b"xref\n0 %d\n" % size
        out += b"0000000000 65535 f \n"
        for n in range(1, size):
            if n in offs:
                out += b"%010d 00000 n \n" % offs[n]
            else:
                out += b"0000000000 65535 f \n"
    if trailer_raw is not None:
        out += trailer_raw
    else:
        out += b"trailer\n<< /Size %d " % size + trailer + b" >>\n"
    out += b"startxref\n" + (b"%d" % xpos if startxref is None else startxref) + b"\n" + tail
    return bytes(out), offs, xpos


def xrefstream_doc(objs=None, xattrs=None, W=(1, 4, 2), entries_override=None,
                   objstm=None, objstm_attrs=b"", startxref=None, compress=False,
                   index=None, payload_override=None, header=b"%PDF-1.5\n"):
    """objs: plain objects. objstm: dict num->body put into object stream #90.
    xattrs: dict name->bytes overriding xref stream dictionary entries (None removes)."""
    objs = base_objs() if objs is None else dict(objs)
    out = bytearray(header)
    offs = {}
    ent = {}
    if objstm:
        nums = sorted(objstm)
        hdr = b""
        body = b""
        for n in nums:
            hdr += b"%d %d " % (n, len(body))
            body += objstm[n] + b" "
        payload = hdr + body
        d = b"/Type /ObjStm /N %d /First %d " % (len(nums), len(hdr)) + objstm_attrs
        objs[90] = stream(d, payload)
        for i, n in enumerate(nums):
            ent[n] = (2, 90, i)
    for n in sorted(objs):
        offs[n] = len(out)
        ent[n] = (1, len(out), 0)
        out += b"%d 0 obj\n" % n + objs[n] + b"\nendobj\n"
    xnum = 99
    xpos = len(out)
    ent[xnum] = (1, xpos, 0)
    ent[0] = (0, 0, 65535)
    size = xnum + 1
    if entries_override:
        ent.update(entries_override)
    data = b""
    for n in range(size):
        t, a, b_ = ent.get(n, (0, 0, 0))
        data += t.to_bytes(W[0], "big") + a.to_bytes(W[1], "big") + b_.to_bytes(W[2], "big")
    if payload_override is not None:
        data = payload_override(data)
    attrs = {
        "Type": b"/XRef",
        "Size": b"%d" % size,
        "W": b"[%d %d %d]" % W,
        "Root": b"1 0 R",
    }
    if index is not None:
        attrs["Index"] = index
    if compress:
        data = zlib.compress(data)
        attrs["Filter"] = b"/FlateDecode"
    if xattrs:
        for k, v in xattrs.items():
            if v is None:
                attrs.pop(k, None)
            else:
                attrs[k] = v
    d = b" ".join(b"/" + k.encode() + b" " + v for k, v in attrs.items())
    out += b"%d 0 obj\n" % xnum + stream(d, data) + b"\nendobj\n"
    out += b"startxref\n" + (b"%d" % xpos if startxref is None else startxref) + b"\n%%EOF\n"
    return bytes(out)
