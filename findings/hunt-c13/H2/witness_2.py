import os, sys
sys.path.insert(0, os.path.dirname(os.path.abspath(__file__)))
import wlib
from cases import CASES
# ValueError:pdfdocument.load
# With an unusable startxref the fallback scanner calls int() on an object number of more than 4300 digits matched by PDFOBJ_CUE, leaking ValueError (integer string conversion limit).
data, password, entry = CASES['fallback_huge_objid']()
wlib.check(data, entry, password)
