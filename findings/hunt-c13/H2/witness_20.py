import os, sys
sys.path.insert(0, os.path.dirname(os.path.abspath(__file__)))
import wlib
from cases import CASES
# struct.error:pdfdocument.decrypt_rc4
# In an encrypted (RC4) document an xref entry with generation number 2**32 (or object number >= 2**32) reaches struct.pack('<L', ...) in decrypt_rc4, leaking struct.error.
data, password, entry = CASES['encrypted_generation_2_32']()
wlib.check(data, entry, password)
