import os, sys
sys.path.insert(0, os.path.dirname(os.path.abspath(__file__)))
import wlib
from cases import CASES
# ValueError:pdfparser.do_keyword
# A negative stream /Length makes do_keyword read to EOF and then seek to a negative position, leaking ValueError ('negative seek position') on a real file (also ValueError:psparser.seek on BytesIO).
data, password, entry = CASES['length_negative_file']()
wlib.check(data, entry, password)
