"""Harness: run extraction entry points on PDF bytes and classify outcomes."""
import io
import logging
import os
import signal
import sys
import tempfile
import traceback

sys.path.insert(0, "/tmp/hunt-H2")
sys.path.insert(0, "/tmp/hunt-H2/tools")
logging.disable(logging.CRITICAL)

from pdfminer.psexceptions import PSException  # noqa: E402
from pdfminer import high_level  # noqa: E402
from pdfminer.layout import LAParams  # noqa: E402

ROOT = "/tmp/hunt-H2"
TIMEOUT = 20


class Timeout(BaseException):
    pass


def _alarm(signum, frame):
    raise Timeout()


def innermost(tb):
    """innermost pdfminer/tools frame as module.function"""
    best = None
    for fs in traceback.extract_tb(tb):
        fn = fs.filename
        if "/hunt-H2/pdfminer/" in fn or "/hunt-H2/tools/" in fn:
            mod = os.path.splitext(os.path.basename(fn))[0]
            best = f"{mod}.{fs.name}"
    return best or "?"


def commonest(tb):
    from collections import Counter
    c = Counter()
    for fs in traceback.extract_tb(tb):
        fn = fs.filename
        if "/hunt-H2/pdfminer/" in fn or "/hunt-H2/tools/" in fn:
            mod = os.path.splitext(os.path.basename(fn))[0]
            c[f"{mod}.{fs.name}"] += 1
    return c.most_common(1)[0][0] if c else "?"


def call(fn, timeout=TIMEOUT):
    """returns None if fine else key string"""
    signal.signal(signal.SIGALRM, _alarm)
    signal.alarm(timeout)
    try:
        fn()
        return None
    except PSException:
        return None
    except Timeout:
        return "Timeout:?"
    except RecursionError as e:
        return f"RecursionError:{commonest(e.__traceback__)}"
    except MemoryError as e:
        return f"MemoryError:{innermost(e.__traceback__)}"
    except SystemExit:
        return None
    except BaseException as e:  # noqa
        return f"{(type(e).__module__ + ".") if type(e).__module__ != "builtins" else ""}{type(e).__name__}:{innermost(e.__traceback__)}"
    finally:
        signal.alarm(0)


def entry_points(data, password="", full=False):
    """yield (name, callable)"""
    def et():
        high_level.extract_text(io.BytesIO(data), password=password)

    def et_nocache():
        high_level.extract_text(io.BytesIO(data), password=password, caching=False)

    def ep():
        for _ in high_level.extract_pages(io.BytesIO(data), password=password):
            pass

    def mk_fp(ot, outdir=False):
        def f():
            out = io.BytesIO()
            kw = {}
            if outdir:
                kw["output_dir"] = tempfile.mkdtemp(dir="/tmp/hunt-H2/out/tmp")
            high_level.extract_text_to_fp(
                io.BytesIO(data), out, output_type=ot, password=password,
                laparams=LAParams(), **kw)
        return f

    def dump(args):
        def f():
            import dumppdf
            d = "/tmp/hunt-H2/out/tmp"
            fd, path = tempfile.mkstemp(suffix=".pdf", dir=d)
            os.write(fd, data)
            os.close(fd)
            try:
                a = list(args) + ["-o", os.devnull]
                if password:
                    a += ["-P", password]
                dumppdf.main(a + [path])
            finally:
                os.unlink(path)
        return f

    def p2t(args):
        def f():
            import pdf2txt
            d = "/tmp/hunt-H2/out/tmp"
            fd, path = tempfile.mkstemp(suffix=".pdf", dir=d)
            os.write(fd, data)
            os.close(fd)
            try:
                a = list(args) + ["-o", os.devnull]
                if password:
                    a += ["-P", password]
                pdf2txt.main(a + [path])
            finally:
                os.unlink(path)
        return f

    yield "extract_text", et
    yield "dumppdf -a", dump(["-a"])
    if full:
        yield "extract_text nocache", et_nocache
        yield "extract_pages", ep
        for ot in ("xml", "html", "hocr", "tag"):
            yield f"to_fp {ot}", mk_fp(ot)
        yield "to_fp text outdir", mk_fp("text", True)
        yield "dumppdf -T", dump(["-T"])
        yield "dumppdf -p1", dump(["-p", "1"])
        yield "dumppdf -i1", dump(["-i", "1"])
        yield "dumppdf -a -r", dump(["-a", "-r"])
        yield "dumppdf -a -t", dump(["-a", "-t"])
        yield "dumppdf -E", dump(["-E", tempfile.mkdtemp(dir="/tmp/hunt-H2/out/tmp")])
        yield "pdf2txt", p2t([])
        yield "pdf2txt xml", p2t(["-t", "xml"])


def run(data, password="", full=False):
    os.makedirs("/tmp/hunt-H2/out/tmp", exist_ok=True)
    res = {}
    devnull = open(os.devnull, "w")
    old = sys.stdout, sys.stderr
    for name, fn in entry_points(data, password, full):
        sys.stdout, sys.stderr = devnull, devnull
        try:
            k = call(fn)
        finally:
            sys.stdout, sys.stderr = old
        if k:
            res.setdefault(k, name)
    return res
