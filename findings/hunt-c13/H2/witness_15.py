import os, sys
sys.path.insert(0, os.path.dirname(os.path.abspath(__file__)))
import wlib
from cases import CASES
# AssertionError:utils.format_int_roman
# A /PageLabels range with /S /r (or /R) and /St 0 (or >= 4000) trips `assert 0 < value < 4000` in format_int_roman, leaking AssertionError out of extract_text.
data, password, entry = CASES['pagelabel_roman_zero']()
wlib.check(data, entry, password)
