import os, sys
sys.path.insert(0, os.path.dirname(os.path.abspath(__file__)))
import wlib
from cases import CASES
# AttributeError:dumppdf.dumpoutline
# dumppdf -T: an outline /Dest array whose first element is not a reference makes `dest[0].objid` leak AttributeError.
data, password, entry = CASES['outline_dest_array_of_integer']()
wlib.check(data, entry, password)
