import os, sys
sys.path.insert(0, os.path.dirname(os.path.abspath(__file__)))
import wlib
from cases import CASES
# KeyError:dumppdf.resolve_dest
# dumppdf -T: an outline /Dest dictionary without /D makes resolve_dest's `dest["D"]` leak KeyError.
data, password, entry = CASES['outline_dest_dict_without_D']()
wlib.check(data, entry, password)
