import json, re
PRE = open("h.py").read().split("class Timeout")[0]
PRE = PRE.replace('sys.path.insert(0, "/tmp/hunt-H3")\n', '')
TEMPLATE = PRE + '''
import signal, traceback, zlib
class _Timeout(BaseException): pass
def _al(s, f): raise _Timeout()
signal.signal(signal.SIGALRM, _al)
def check(fn, expect=None, timeout=20):
    """run fn; exit 1 and print if a non-PSException leaks or time limit exceeded"""
    signal.alarm(timeout)
    try:
        fn()
    except PSException:
        pass
    except _Timeout:
        print("LEAK: exceeded %d seconds" % timeout); sys.exit(1)
    except BaseException as e:
        traceback.print_exc(limit=-3)
        print("LEAK: %s: %s" % (type(e).__name__, str(e)[:200])); sys.exit(1)
    finally:
        signal.alarm(0)
def to_fp(data, output_type, outdir=False):
    def f():
        d = tempfile.mkdtemp(prefix="w_", dir=os.path.dirname(os.path.abspath(__file__))) if outdir else None
        try:
            extract_text_to_fp(io.BytesIO(data), io.BytesIO(), output_type=output_type, output_dir=d, laparams=LAParams())
        finally:
            if d: shutil.rmtree(d, ignore_errors=True)
    return f
BIG = b"1"*400 + b".5"   # a real too large for a double: the parser reads it as inf
DEEP = b"["*3000 + b"]"*3000
TXT = b"BT /F1 12 Tf 100 700 Td (A) Tj %s (B) Tj ET"
IMGRES = b"<< /Font << /F1 5 0 R >> /XObject << /Im1 7 0 R >> >>"
def imgdoc(d, data):
    return build(b"q 10 0 0 10 50 50 cm /Im1 Do Q", resources=IMGRES, extra={7: stream(b"/Type /XObject /Subtype /Image /Width 2 /Height 2 /BitsPerComponent 1 /ColorSpace /DeviceGray " + d, data), 8: stream(b"", b"xx")})
'''
F = []
def add(key, body, expl, short):
    F.append((key, body, expl, short))
add("RecursionError:pdfinterp.do_w", 'check(lambda: extract_text(io.BytesIO(build(DEEP + b" w"))))',
    "A 3000-deep nested array as operand of w (likewise cm m l c v y re g G rg RG k K sc scn SC SCN MP DP BMC BDC Tc Tw Tz TL Tf Tr Ts Tm TJ) is repr()'d eagerly inside the f-string of log.warning, exhausting the recursion limit.",
    'extract_text(BytesIO(pdf with content b"["*3000+b"]"*3000+b" w"))')
add("RecursionError:psparser.literal_name", 'check(lambda: extract_text(io.BytesIO(build(DEEP + b" cs"))))',
    "literal_name() falls back to str(x) for a non-name; a 3000-deep nested array operand of cs/CS/Tf/Do exhausts the recursion limit.",
    'extract_text(BytesIO(pdf with content b"["*3000+b"]"*3000+b" cs"))')
add("RecursionError:pdfdevice.render_string_horizontal", 'check(lambda: extract_text(io.BytesIO(build(b"BT /F1 12 Tf " + DEEP + b" Tj ET"))))',
    "A deeply nested array as the string operand of Tj/'/\"/inside TJ is repr()'d in the warning f-string of render_string_horizontal and exhausts the recursion limit.",
    'extract_text(BytesIO(pdf with content b"BT /F1 12 Tf "+b"["*3000+b"]"*3000+b" Tj ET"))')
add("RecursionError:utils.make_compat_str", 'check(to_fp(build(b"/T << /A " + DEEP + b" >> BDC EMC"), "tag"))',
    "TagExtractor.begin_tag stringifies marked-content property values with str(); a deeply nested array value in a BDC/DP property list exhausts the recursion limit (output_type='tag').",
    'extract_text_to_fp(pdf with content b"/T << /A "+b"["*3000+b"]"*3000+b" >> BDC EMC", out, output_type="tag")')
add("RecursionError:pdftypes.decode", 'check(to_fp(build(b"BI /W 2 /H 2 /BPC 8 /CS /G /F " + DEEP + b" ID abcd EI"), "text", outdir=True))',
    "An inline image whose /F (filter) is a deeply nested array: building the 'Unsupported filter: %r' message recurses past the limit when the image is exported (output_dir set).",
    'extract_text_to_fp(pdf with inline image /F [[[...3000...]]], out, output_dir=d)')
add("OverflowError:casting.safe_int", 'check(lambda: extract_text(io.BytesIO(build(TXT % (BIG + b" Tr")))))',
    "A real operand of Tr with 400 digits is parsed as float inf; safe_int() catches only TypeError/ValueError so int(inf) leaks OverflowError.",
    'extract_text(BytesIO(pdf with content b"BT /F1 12 Tf "+b"1"*400+b".5 Tr (B) Tj ET"))')
add("ValueError:converter.put_text", 'check(to_fp(build(b"BT /F1 12 Tf 100 700 Td (A) Tj " + BIG + b" Tc (BC) Tj (D) Tj ET"), "html"))',
    "A 400-digit real operand (parsed as inf) of Tc/Tw/TL/Ts/Td/TD/Tm/Tf/TJ makes glyph sizes NaN; HTMLConverter formats them with %d and leaks ValueError (cannot convert float NaN to integer).",
    'extract_text_to_fp(pdf with content "... <400 digits>.5 Tc (BC) Tj (D) Tj", out, output_type="html", laparams=LAParams())')
add("OverflowError:converter.place_rect", 'check(to_fp(build(b"q " + BIG + b" 0 0 1 0 0 cm BT /F1 12 Tf (A) Tj ET 0 0 5 5 re f Q"), "html"))',
    "An inf entry in cm yields infinite item coordinates; HTMLConverter.place_rect formats them with %d and leaks OverflowError.",
    'extract_text_to_fp(pdf with content "q <400 digits>.5 0 0 1 0 0 cm ... (A) Tj ... re f Q", out, output_type="html")')
add("OverflowError:converter.begin_div", 'check(to_fp(build(b"BT /F1 12 Tf 100 700 Td (A) Tj " + b"1"*308 + b" 0 0 1 0 0 Tm (B) Tj (C) Tj ET"), "html"))',
    "A 308-digit integer in Tm (a finite double) overflows to inf in the text box geometry; HTMLConverter.begin_div formats with %d and leaks OverflowError (ValueError for NaN via a form /Matrix with inf entries).",
    'extract_text_to_fp(pdf with content "BT /F1 12 Tf ... <308 digits> 0 0 1 0 0 Tm (B) Tj (C) Tj ET", out, output_type="html")')
add("OverflowError:converter.bbox_repr", 'check(to_fp(build(TXT % (BIG + b" Tz")), "hocr"))',
    "inf/NaN glyph boxes (400-digit real operand of Tz, TL, TD, ', \") reach HOCRConverter.bbox_repr which calls int() on them: OverflowError or ValueError leaks (output_type='hocr').",
    'extract_text_to_fp(pdf with content "... <400 digits>.5 Tz (B) Tj", out, output_type="hocr")')
add("ValueError:converter.bbox_repr", 'check(to_fp(build(TXT % (BIG + b" TL T*")), "hocr"))',
    "Same root cause as the OverflowError variant: NaN coordinates after an inf TL reach int() in HOCRConverter.bbox_repr.",
    'extract_text_to_fp(pdf with content "... <400 digits>.5 TL T* (B) Tj", out, output_type="hocr")')
add("OverflowError:converter.render", 'check(to_fp(build(BIG + b" w 10 10 m 20 20 l S"), "xml"))',
    "An inf line width (400-digit real operand of w) is written by XMLConverter with linewidth=\"%d\" and leaks OverflowError.",
    'extract_text_to_fp(pdf with content "<400 digits>.5 w 10 10 m 20 20 l S", out, output_type="xml")')
add("ValueError:converter.render", 'check(to_fp(build(b"q " + BIG + b" 0 0 1 0 0 cm /Im1 Do Q", resources=IMGRES, extra={7: stream(b"/Type /XObject /Subtype /Image /Width 2 /Height 2 /BitsPerComponent 8 /ColorSpace /DeviceGray", b"abcd")}), "xml", outdir=True))',
    "An image drawn under a cm with an inf entry gets NaN width/height; XMLConverter writes them with %d and leaks ValueError.",
    'extract_text_to_fp(pdf with "q <400 digits>.5 0 0 1 0 0 cm /Im1 Do Q", out, output_type="xml", output_dir=d)')
add("AssertionError:pdfdevice.end_tag", 'check(to_fp(build(b"BT /F1 12 Tf (A) Tj ET EMC"), "tag"))',
    "An EMC without matching BMC/BDC trips 'assert self._stack' in TagExtractor.end_tag (output_type='tag').",
    'extract_text_to_fp(pdf with content "BT /F1 12 Tf (A) Tj ET EMC", out, output_type="tag")')
add("OverflowError:pdfparser.do_keyword", 'check(lambda: extract_text(io.BytesIO(build(b"/X1 Do", resources=b"<< /XObject << /X1 6 0 R >> >>", extra={6: b"<< /Type /XObject /Subtype /Form /BBox [0 0 9 9] /Length 9223372036854775808 >>\\nstream\\nBT ET\\nendstream"}))))',
    "A stream (e.g. a form XObject) whose /Length is 2**63 makes fp.read(objlen) raise OverflowError (cannot fit 'int' into an index-sized integer) in PDFParser.do_keyword.",
    'extract_text(BytesIO(pdf whose form XObject has /Length 9223372036854775808))')
add("KeyError:image._save_jbig2", 'check(to_fp(imgdoc(b"/Filter /JBIG2Decode", b"abcd"), "text", outdir=True))',
    "Exporting an image with /Filter /JBIG2Decode but no /DecodeParms /JBIG2Globals does params['JBIG2Globals'] and leaks KeyError.",
    'extract_text_to_fp(pdf with image /Filter /JBIG2Decode, no DecodeParms, out, output_dir=d)')
add("AttributeError:image._save_jbig2", 'check(to_fp(imgdoc(b"/Filter /JBIG2Decode /DecodeParms << /JBIG2Globals 99 0 R >>", b"abcd"), "text", outdir=True))',
    "/JBIG2Globals that is a direct non-stream value, or a reference to a missing object, leaks AttributeError ('int' has no attribute 'resolve' / 'NoneType' has no attribute 'get_data').",
    'extract_text_to_fp(pdf with image /Filter /JBIG2Decode /DecodeParms << /JBIG2Globals 99 0 R >>, out, output_dir=d)')
add("TypeError:image._save_jbig2", 'check(to_fp(imgdoc(b"/Filter /JBIG2Decode /DecodeParms [null]", b"abcd"), "text", outdir=True))',
    "/DecodeParms [null] for a JBIG2 image gives params None; params['JBIG2Globals'] leaks TypeError.",
    'extract_text_to_fp(pdf with image /Filter /JBIG2Decode /DecodeParms [null], out, output_dir=d)')
add("KeyError:jbig2.encode_data_length", 'check(to_fp(imgdoc(b"/Filter /JBIG2Decode /DecodeParms << /JBIG2Globals 8 0 R >>", b"\\x00"*64), "text", outdir=True))',
    "A corrupt JBIG2 payload (all zero bytes) yields segments without 'raw_data'; JBIG2StreamWriter.encode_data_length leaks KeyError.",
    'extract_text_to_fp(pdf with JBIG2 image whose data is 64 NUL bytes, out, output_dir=d)')
add("error:jbig2.unpack_int", 'check(to_fp(imgdoc(b"/Filter /JBIG2Decode /DecodeParms << /JBIG2Globals 8 0 R >>", b"\\xff"*64), "text", outdir=True))',
    "A corrupt/truncated JBIG2 payload (0xff bytes) makes JBIG2StreamReader unpack from a short buffer and leaks struct.error.",
    'extract_text_to_fp(pdf with JBIG2 image whose data is 64 0xff bytes, out, output_dir=d)')
add("ImportError:image._save_jpeg2000", 'check(to_fp(imgdoc(b"/Filter /JPXDecode", b"abcd"), "text", outdir=True))',
    "Without Pillow installed, exporting a JPXDecode image (also Flate images that are not 1-bit/8-bit gray/RGB, and CMYK DCT images) leaks ImportError instead of a library error.",
    'extract_text_to_fp(pdf with image /Filter /JPXDecode, out, output_dir=d)')
add("Timeout:image._create_unique_image_name", 'check(to_fp(build(b"BI /W 1 /H 1 ID a EI " * 20000), "text", outdir=True))',
    "N identical inline images get the same name; the unique-name search restarts at index 0 for each, so export costs O(N^2) lexists calls: 20000 tiny images (400 KB) exceed 20 s.",
    'extract_text_to_fp(pdf with content b"BI /W 1 /H 1 ID a EI "*20000, out, output_dir=d)')
add("Timeout:image._save_bmp", 'check(to_fp(build(b"BI /W 1 /H 300000000 /BPC 1 /CS /G ID a EI"), "text", outdir=True))',
    "An inline image claiming /H 300000000 with one byte of data loops over every claimed row writing padding (and a 1.2 GB sparse file): work is unbounded relative to the 600-byte input.",
    'extract_text_to_fp(pdf with content "BI /W 1 /H 300000000 /BPC 1 /CS /G ID a EI", out, output_dir=d)')
add("Timeout:pdfinterp.get_inline_data", 'check(lambda: extract_text(io.BytesIO(build(b"BI /W 2 /H 2 /BPC 8 /CS /G ID " + b"E"*1600000 + b" EI"))))',
    "Inline image data made of 'E' bytes keeps the end-marker matcher in its byte-by-byte branch where 'data += c' copies the whole buffer: quadratic time (0.8 MB 13 s, 1.6 MB > 20 s).",
    'extract_text(BytesIO(pdf with content b"BI /W 2 /H 2 /BPC 8 /CS /G ID "+b"E"*1600000+b" EI"))')
FAN = '''
def fan(n, body2):
    extra = {}
    for i in range(n):
        body = body2 if i < n-1 else b"BT /F1 9 Tf (x) Tj ET"
        extra[100+i] = stream(b"/Type /XObject /Subtype /Form /BBox [0 0 10 10] /Resources << /Font << /F1 5 0 R >> /XObject << /X %d 0 R >> >>" % (101+i), body)
    return build(b"/X Do", resources=b"<< /XObject << /X 100 0 R >> >>", extra=extra)
'''
add("Timeout:pdfinterp.do_Do", FAN + 'check(lambda: extract_text(io.BytesIO(fan(40, b"/X Do /X Do"))))',
    "40 form XObjects each invoking the next one twice (no cycle, 10 KB file) cause 2**40 form renderings: exponential work, never returns.",
    'extract_text(BytesIO(pdf with forms X0..X39, each with content "/X Do /X Do" pointing to the next))')
add("RecursionError:pdfinterp.do_Do", FAN + 'check(lambda: extract_text(io.BytesIO(fan(400, b"/X Do"))))',
    "A chain of 400 distinct form XObjects, each invoking the next, nests do_Do/render_contents/execute until the interpreter recursion limit is exhausted (only self-invocation is guarded, not depth).",
    'extract_text(BytesIO(pdf with forms X0..X399, each with content "/X Do" pointing to the next))')
out = []
for n, (key, body, expl, short) in enumerate(F, 1):
    open("witness_%d.py" % n, "w").write("# %s\n" % key + TEMPLATE + body + "\nsys.exit(0)\n")
    out.append({"key": key, "witness": "out/witness_%d.py  # %s" % (n, short), "explanation": expl})
json.dump(out, open("findings.json", "w"), indent=1)
print(len(out))
