# error:jbig2.unpack_int
import io, os, sys, signal, traceback, tempfile, shutil, logging
logging.disable(logging.CRITICAL)
from pdfminer.high_level import extract_text, extract_pages, extract_text_to_fp
from pdfminer.layout import LAParams
from pdfminer.psexceptions import PSException

def build(content=b"", resources=None, extra=None, page_extra=b"", content_dict=b"", contents_ref=None):
    """objs: 1 catalog, 2 pages, 3 page, 4 content, 5 font; extra: dict objid->bytes body"""
    if resources is None:
        resources = b"<< /Font << /F1 5 0 R >> >>"
    objs = {}
    objs[1] = b"<< /Type /Catalog /Pages 2 0 R >>"
    objs[2] = b"<< /Type /Pages /Kids [3 0 R] /Count 1 >>"
    objs[3] = b"<< /Type /Page /Parent 2 0 R /MediaBox [0 0 612 792] /Resources " + resources + b" /Contents " + (contents_ref or b"4 0 R") + b" " + page_extra + b" >>"
    objs[4] = b"<< /Length %d %s >>\nstream\n" % (len(content), content_dict) + content + b"\nendstream"
    objs[5] = b"<< /Type /Font /Subtype /Type1 /BaseFont /Helvetica /Encoding /WinAnsiEncoding >>"
    if extra:
        objs.update(extra)
    out = io.BytesIO()
    out.write(b"%PDF-1.7\n")
    offs = {}
    for k in sorted(objs):
        offs[k] = out.tell()
        out.write(b"%d 0 obj\n" % k + objs[k] + b"\nendobj\n")
    xr = out.tell()
    n = max(objs) + 1
    out.write(b"xref\n0 %d\n" % n)
    out.write(b"0000000000 65535 f \n")
    for k in range(1, n):
        if k in offs:
            out.write(b"%010d 00000 n \n" % offs[k])
        else:
            out.write(b"0000000000 65535 f \n")
    out.write(b"trailer\n<< /Size %d /Root 1 0 R >>\nstartxref\n%d\n%%%%EOF\n" % (n, xr))
    return out.getvalue()

def stream(d, data):
    return b"<< /Length %d %s >>\nstream\n" % (len(data), d) + data + b"\nendstream"


import signal, traceback, zlib
class _Timeout(BaseException): pass
def _al(s, f): raise _Timeout()
signal.signal(signal.SIGALRM, _al)
def check(fn, expect=None, timeout=20):
    """run fn; exit 1 and print if a non-PSException leaks or time limit exceeded"""
    signal.alarm(timeout)
    try:
        fn()
    except PSException:
        pass
    except _Timeout:
        print("LEAK: exceeded %d seconds" % timeout); sys.exit(1)
    except BaseException as e:
        traceback.print_exc(limit=-3)
        print("LEAK: %s: %s" % (type(e).__name__, str(e)[:200])); sys.exit(1)
    finally:
        signal.alarm(0)
def to_fp(data, output_type, outdir=False):
    def f():
        d = tempfile.mkdtemp(prefix="w_", dir=os.path.dirname(os.path.abspath(__file__))) if outdir else None
        try:
            extract_text_to_fp(io.BytesIO(data), io.BytesIO(), output_type=output_type, output_dir=d, laparams=LAParams())
        finally:
            if d: shutil.rmtree(d, ignore_errors=True)
    return f
BIG = b"1"*400 + b".5"   # a real too large for a double: the parser reads it as inf
DEEP = b"["*3000 + b"]"*3000
TXT = b"BT /F1 12 Tf 100 700 Td (A) Tj %s (B) Tj ET"
IMGRES = b"<< /Font << /F1 5 0 R >> /XObject << /Im1 7 0 R >> >>"
def imgdoc(d, data):
    return build(b"q 10 0 0 10 50 50 cm /Im1 Do Q", resources=IMGRES, extra={7: stream(b"/Type /XObject /Subtype /Image /Width 2 /Height 2 /BitsPerComponent 1 /ColorSpace /DeviceGray " + d, data), 8: stream(b"", b"xx")})
check(to_fp(imgdoc(b"/Filter /JBIG2Decode /DecodeParms << /JBIG2Globals 8 0 R >>", b"\xff"*64), "text", outdir=True))
sys.exit(0)
