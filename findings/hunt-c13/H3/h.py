import io, os, sys, signal, traceback, tempfile, shutil, logging
sys.path.insert(0, "/tmp/hunt-H3")
logging.disable(logging.CRITICAL)
from pdfminer.high_level import extract_text, extract_pages, extract_text_to_fp
from pdfminer.layout import LAParams
from pdfminer.psexceptions import PSException

def build(content=b"", resources=None, extra=None, page_extra=b"", content_dict=b"", contents_ref=None):
    """objs: 1 catalog, 2 pages, 3 page, 4 content, 5 font; extra: dict objid->bytes body"""
    if resources is None:
        resources = b"<< /Font << /F1 5 0 R >> >>"
    objs = {}
    objs[1] = b"<< /Type /Catalog /Pages 2 0 R >>"
    objs[2] = b"<< /Type /Pages /Kids [3 0 R] /Count 1 >>"
    objs[3] = b"<< /Type /Page /Parent 2 0 R /MediaBox [0 0 612 792] /Resources " + resources + b" /Contents " + (contents_ref or b"4 0 R") + b" " + page_extra + b" >>"
    objs[4] = b"<< /Length %d %s >>\nstream\n" % (len(content), content_dict) + content + b"\nendstream"
    objs[5] = b"<< /Type /Font /Subtype /Type1 /BaseFont /Helvetica /Encoding /WinAnsiEncoding >>"
    if extra:
        objs.update(extra)
    out = io.BytesIO()
    out.write(b"%PDF-1.7\n")
    offs = {}
    for k in sorted(objs):
        offs[k] = out.tell()
        out.write(b"%d 0 obj\n" % k + objs[k] + b"\nendobj\n")
    xr = out.tell()
    n = max(objs) + 1
    out.write(b"xref\n0 %d\n" % n)
    out.write(b"0000000000 65535 f \n")
    for k in range(1, n):
        if k in offs:
            out.write(b"%010d 00000 n \n" % offs[k])
        else:
            out.write(b"0000000000 65535 f \n")
    out.write(b"trailer\n<< /Size %d /Root 1 0 R >>\nstartxref\n%d\n%%%%EOF\n" % (n, xr))
    return out.getvalue()

def stream(d, data):
    return b"<< /Length %d %s >>\nstream\n" % (len(data), d) + data + b"\nendstream"

class Timeout(BaseException):
    pass

def _alarm(sig, frm):
    raise Timeout()

MODES = ["text", "pages", "xml_dir", "html", "hocr", "tag", "text_dir", "text_nocache"]

def run_mode(data, mode):
    fp = io.BytesIO(data)
    if mode == "text":
        extract_text(fp)
    elif mode == "text_nocache":
        extract_text(fp, caching=False)
    elif mode == "pages":
        for p in extract_pages(fp):
            pass
    elif mode in ("xml_dir", "text_dir"):
        d = tempfile.mkdtemp(prefix="h3_", dir="/tmp/hunt-H3/out")
        try:
            extract_text_to_fp(fp, io.BytesIO(), output_type=mode.split("_")[0], output_dir=d, laparams=LAParams())
        finally:
            shutil.rmtree(d, ignore_errors=True)
    else:
        extract_text_to_fp(fp, io.BytesIO(), output_type=mode, laparams=LAParams())

def classify(data, modes=MODES, timeout=20):
    """returns list of (mode, key, tb) findings"""
    res = []
    for mode in modes:
        signal.signal(signal.SIGALRM, _alarm)
        signal.alarm(timeout)
        try:
            run_mode(data, mode)
        except PSException:
            pass
        except Timeout:
            res.append((mode, "Timeout", ""))
        except BaseException as e:
            tb = traceback.extract_tb(e.__traceback__)
            inner = None
            for fr in tb:
                if "/pdfminer/" in fr.filename:
                    inner = fr
            fn = "?"
            if inner:
                fn = os.path.basename(inner.filename)[:-3] + "." + inner.name
            res.append((mode, "%s:%s" % (type(e).__name__, fn), "%s | line %s: %s" % (str(e)[:150], inner.lineno if inner else "?", inner.line if inner else "?")))
        finally:
            signal.alarm(0)
    return res
