#!/bin/sh
# Offline setup: nothing to build or install; verify the interpreter, the
# repository import and the harness self-test.
here="$(cd "$(dirname "$0")" && pwd)"
cd "$here" || exit 1
mkdir -p evidence
PYTHONDONTWRITEBYTECODE=1 PYTHONPATH="$here" /venv/bin/python - <<'PY'
import sys
import vf
import pdfminer, os
assert os.path.realpath(os.path.dirname(os.path.dirname(pdfminer.__file__))) == vf.REPO, (pdfminer.__file__, vf.REPO)
assert sys.version_info >= (3, 12), sys.version
import cryptography  # the repository's own dependency
from vf.common import run_with_budget, StepBudgetExceeded, last_steps
from pdfminer.utils import mult_matrix
run_with_budget(lambda: mult_matrix((1,0,0,1,0,0),(1,0,0,1,0,0)), 1000)
assert last_steps() > 0, "sys.monitoring LINE events not delivered"
print("setup ok: python", sys.version.split()[0], "repo", vf.REPO)
PY
