#!/bin/sh
# usage: tools/seedrun.sh <seeded-id> <check ids...>   -> apply seeded/<id>/patch.diff to a scratch worktree, run checks (quick), print exit + keys
id=$1; shift
wt=/tmp/wt-seedrun-$$
git -C /repo worktree add --detach $wt HEAD >/dev/null 2>&1 || exit 2
( cd $wt && git apply /verif/seeded/$id/patch.diff ) || { echo "$id: patch does not apply"; git -C /repo worktree remove --force $wt; exit 2; }
for c in "$@"; do
  out=$(cd /verif && VERIF_REPO=$wt VERIF_EVIDENCE_DIR=/tmp/ev-seedchk ./check $c --jobs ${SEED_JOBS:-8} ${SEED_ARGS:-} 2>&1); rc=$?
  echo "$id $c exit=$rc $(echo "$out" | grep '^ *key=' | head -3 | cut -c1-160 | tr '\n' '|')"
done
git -C /repo worktree remove --force $wt
