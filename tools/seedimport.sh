#!/bin/sh
# usage: tools/seedimport.sh C04   -> copies /tmp/seed-C04/out/<k> to /verif/seeded/C04-<k>/ and runs seedcheck on each
pid=$1; shift
src=${SEED_SRC:-/tmp/seed-$pid}; pre=${SEED_PREFIX:-}; for d in $src/out/[0-9]*; do
  k=$(basename $d)
  dst=/verif/seeded/$pid-$pre$k
  mkdir -p $dst
  cp $d/patch.diff $d/demo.py $d/meta.json $dst/ 2>/dev/null
  # demos may import helper modules that live next to them
  for f in $src/out/*.py; do [ -f "$f" ] && cp $f $dst/; done
  /verif/tools/seedcheck.py $dst $pid "$@" > $dst/ran.json 2>&1
  python3 - "$dst" <<'PY'
import json,sys
d=sys.argv[1]
try:
    r=json.load(open(d+'/ran.json'))
    print(d.split('/')[-1], 'confirmed' if r.get('confirmed') else 'NOT-CONFIRMED', {c:(v['caught'],v['keys'][:2]) for c,v in r.get('checks',{}).items()})
except Exception as e:
    print(d, 'ERROR', e, open(d+'/ran.json').read()[-300:])
PY
done
