#!/usr/bin/env python3
"""Merge seeded/<id>/ran.json (written by tools/seedcheck.py) into seeded/<id>/meta.json."""
import glob
import json
import os

ROOT = os.path.dirname(os.path.dirname(os.path.abspath(__file__)))
NOTES = {
    "C03-r9-1": "missed at first (1-bit geometries had at most 4 components, a pixel never spanned two bytes); caught after a quarter of the 1-bit geometries have 16/24/32 components",
    "C15-r9-1": "missed at first (the numbered-files family painted the name once into a gap-free run); caught after the numbered_gap family: Run, Run.0..Run.(n-1), Run.(n+1), Run.(n+3) exist and the name is painted three times",
    "C06-r9-1": "an embedded Type 1 program's overrides written into the shared StandardEncoding table: the font that carries them is reported correctly, later fonts in the process are not - a history matter, silent in C06 (one font per process state), caught by C12 (history_dependence:fp_text)",
    "C01-r9-1": "the same slip as C14-r8-1 (form feed dropped from the white space stripped inside hex strings), here judged by value",
    "C14-r9-1": "the same slip as C14-r8-1, written with bytes.translate",
    "C04-r9-1": "the same slip as C04-r8-2, found independently by a second seeder",
    "C17-r9-1": "missed at first (the key strings of name-tree leaves were always written directly); caught after 25% of the name trees write them as indirect objects (all, or 40% of the keys)",
    "C05-r9-1": "the range form of /W2 under a vertical CMap: C05 has no vertical fonts; a CID-font metrics matter caught by C07 (adv:adv_v)",
    "C02-r9-1": "the same slip as C02-r8-1, found independently by a second seeder",
    "C13-r9-1": "the same slip as C13-r8-1, found independently by a second seeder",
    "C01-r7-2": "missed at first (names were compared by their bytes only); caught after C01 also asserts the representation (text for valid UTF-8, bytes otherwise) that every spelling of a name must share",
    "C02-r7-2": "same change as C10-r3-2 (members of object streams deciphered twice): C02 holds no encrypted documents; caught by C10",
    "C04-r7-1": "missed at first (every page had content); caught after 8% of the pages have no /Contents or an empty array",
    "C05-r7-2": "same change as C07-r7-1 (TJ adjustments of vertical text scaled by Tz): C05 has no vertical fonts; caught by C07",
    "C05-r7-3": "missed at first (offsets of exactly 0 0 were never drawn); caught after Td / TD operands are 0 in a fifth / third of the cases",
    "C06-r7-2": "missed at first (an off-by-one in the generator: no Differences run reached code 255); caught after runs end at 255, name it explicitly, or start at 0 (builder)",
    "C06-r7-3": "missed at first (subset-tagged standard-14 names were lumped with the excluded standard-14 names); caught after fonts named TAG+Times-Roman etc. keep their own Widths and programs (builder)",
    "C07-r7-2": "patch.diff rebased by the lead onto 62c9641 (the repair of the CMap range expansion touched the same lines); patch.orig.diff is the sub-agent's original",
    "C08-r7-2": "missed at first (both interpretations compared went through end_figure); caught after the LTFigure tree is compared with the Do / BI invocations of the generated content and forms that paint nothing were added (builder)",
    "C09-r7-1": "missed at first; caught after three-box column layouts (tall left box, heading and wide note on the right, all content orders) (builder)",
    "C12-r7-1": "missed at first; caught after the pool got a font whose /Encoding names a non-existent CMap spelled like a character collection",
    "C12-r7-2": "missed at first; caught after the pool got empty streams shared by the /Contents arrays of several pages",
    "C13-r7-1": "caught once /Length of the encryption dictionary is replaced by a name / string / array (obj faults under /Encrypt are sampled with stride 3)",
    "C13-r7-2": "missed at first (the first import run was flagged only because of a genuine defect of the then unchanged tree, since repaired: e852439); caught after the filters seed got a three-component PNG-predictor stream whose first rows use Paeth / Average",
    "C13-r7-3": "caught by the thorough tier (the fault is one of ten replacements of one token of the one vertical-text operand; the quick tier samples a third of them); patch.diff rebased by the lead onto e852439, patch.orig.diff is the sub-agent's original",
    "C14-r7-2": "missed at first (inputs were always io.BytesIO); caught after every input is also tokenized through a stream whose read() delivers 1-5 bytes per call",
    "C15-r7-1": "missed at first; caught after image and embedded-file names with compatibility forms of the separators and dots (U+FF0F, U+FF3C, U+FF0E, U+2024 ...) (builder)",
    "C16-r7-1": "the rotation option of extract_text_to_fp: a page-geometry matter caught by C04 (rotation_option); C16 does not rotate pages",
    "C02-r6-2": "enumerating the pages writes inherited attributes into the cached page dictionary: C02's histories hold no page trees and are silent; caught by C04 after it re-reads every page object after the enumeration (page_object_changed_by_enumeration)",
    "C02-r6-3": "missed at first (no revision ever redefined an object as null); caught after update revisions may set an object to the null object",
    "C04-r6-2": "missed at first by C04 (C01 caught the kept null entries); caught by C04 after 6% of the absent inheritable keys are written with the null object",
    "C04-r6-3": "missed at first (every Resources dictionary had the Font category only); caught after half of them carry a second category of their own and the category set of page.resources is asserted",
    "C05-r6-1": "missed at first (Type 3 font matrices were diagonal); caught after half of them became oblique (c != 0)",
    "C05-r6-2": "missed at first by C05 (single-page programs; C12 caught it); caught by C05 after a quarter of the judged pages follow a page that leaves text state behind",
    "C05-r6-3": "same change as C16-r5-2 (one-element array colour space resources): C05 selects colour spaces by their device names only; caught by C16",
    "C08-r6-1": "the check ran into its shard timeout instead of reporting (one overall step budget per page, cubic in the glyph count); caught (step_budget:group_textlines) after per-phase allowances and a run-wide stop flag (builder)",
    "C09-r6-1": "missed at first; caught after the form route (same glyph boxes through a form XObject under all_texts, figure box asserted) (builder)",
    "C09-r6-2": "missed at first (tools/pdf2txt.py was not driven); caught after the pdf2txt layout-flag monitor (builder)",
    "C10-r6-1": "missed at first; caught after encrypted classic-table files with a damaged startxref and generations > 0 on content streams and Info (builder)",
    "C11-r6-1": "missed at first; caught after the pdf2txt -o/-c/-t monitor (builder)",
    "C11-r6-3": "missed at first; caught after blank-only pages (groups == []) joined the XML tree comparison (builder)",
    "C12-r6-1": "missed at first; caught after the pool got a form without /Resources painted by pages with different fonts",
    "C12-r6-2": "missed at first; caught after the pool got an embedded CMap stream named /H with WMode 1 and a twin using the predefined /H",
    "C12-r6-3": "missed at first; caught after the pool got an embedded Type 1 program whose header overrides StandardEncoding entries",
    "C13-r6-2": "missed at first (no DeviceN / Indexed / Separation / Lab colour space in the seeds); caught after the graphics seed got them and colour-space sites are sampled densely",
    "C13-r6-3": "missed at first (no TD operator in the seeds, content-token faults sampled with stride 12); caught after the basic seed got TD / T* / \" and content faults are sampled with stride 4",
    "C16-r6-1": "missed at first (all colour components in 0..1); caught after Lab colour spaces with components up to +-100",
    "C16-r6-2": "the initial matrix of a /Rotate 270 page: a page-geometry matter caught by C04 (glyph_origin:rot270); C16 generates no rotated pages",
    "C16-r6-3": "the colour-space table shared between pages and forms needs a Do, outside C16's operator set; caught by C12 (PREDEFINED_COLORSPACE fingerprint, names-undefined document)",
    "C17-r6-2": "missed at first; caught after 8% of the documents are read with caching=False and lookups are repeated in shuffled order (builder)",
    "C17-r6-3": "missed at first; caught after page labels are re-evaluated with settings.STRICT=True on valid unbalanced trees (builder)",
    "C18-r6-1": "a Group 4 decoding matter (make-up code 64 in the second run): C18's CCITT images have short rows and are silent; caught by C19",
    "C20-r6-3": "missed at first (extend() was only used with new objects); caught after re-insertions also go through extend() (builder)",
    "C01-r5-1": "resolve_all is not part of reading object syntax: C01 (getobj / stream parser values) is silent; the effect shows where the library resolves containers - caught by C06 after /Widths arrays got one indirect object referenced from several positions (builder)",
    "C02-r5-1": "missed at first (the trailer dictionary always started on a new line); caught after tables may write it on the keyword's line",
    "C02-r5-3": "missed at first (hybrid tables never listed the objects hidden in the /XRefStm as free); caught after half of the hybrid revisions use the 7.5.8.4 layout",
    "C05-r5-3": "missed at first (simple fonts all had the 1/1000 glyph space); caught after a fifth of the fonts became Type 3 with /FontMatrix 1/100 or 1/512",
    "C06-r5-2": "missed at first (Type 3 MissingWidth with a short Widths table was excluded: Tables 112 and 122 disagree); caught after the oracle accepts exactly the two values the tables justify (builder)",
    "C07-r5-1": "missed at first; caught after /W and /W2 range entries ending at CID 65535 (builder)",
    "C07-r5-2": "missed at first (the tag output was not driven); caught after the tag-output monitor (builder)",
    "C07-r5-3": "missed at first; caught after CIDSystemInfo, /Registry and /Ordering may be indirect (builder)",
    "C09-r5-3": "the page box handed to layout analysis ignores /Rotate: a page-geometry matter caught by C04 (ltpage_bbox); C09 generates no rotated pages (outside its quantification)",
    "C10-r5-2": "a crypt-filter table shared by all handlers only shows with two encrypted documents open at once: a cross-document matter, C10 (one document at a time) is silent; caught by C12 after encrypted twins with other keys joined the pool and every collision group is interleaved round-robin",
    "C11-r5-1": "missed at first; caught after text-sink runs pass narrow codecs (builder)",
    "C12-r5-1": "missed at first; caught after the pool got an incremental update that replaces a member of an object stream",
    "C12-r5-2": "missed at first; caught after two documents with different ToUnicode CMaps under the same object number joined the pool",
    "C12-r5-3": "missed at first; caught after a document with 67000 distinct names joined the pool (the seeded bound is 65536; a different bound needs a different size)",
    "C13-r5-2": "missed at first (stream faults were applied to the plaintext; the two partial-block cases of the thorough enumeration fell between the quick samples); caught after stored payloads are cut by 1-17 bytes (s_lencut*), sampled densely",
    "C14-r5-3": "not a violation of C14 as stated: names and keywords of 128+ bytes are no longer interned, so two tokenizations yield equal but not identical objects; token sequences, positions and buffer-size independence - what the statement asserts - are unchanged (the check compares tokens by value)",
    "C15-r5-1": "missed at first; caught after the numbered-run family (10-4096 existing numbered files) (builder)",
    "C16-r5-1": "missed at first by C16 (shapes read with laparams=None; C08 caught it); caught by C16 after a quarter of the pages are also read through extract_pages with layout analysis",
    "C16-r5-2": "missed at first; caught after ColorSpace resources spell parameterless families as one-element arrays",
    "C17-r5-2": "missed at first (name objects were never looked up under a tree key's spelling); caught after documents share spellings between the /Dests dictionary and the name tree (builder)",
    "C18-r5-1": "missed at first; caught after single inline filters are spelled as bare names and ASCII85 text contains EI + white space (builder); patch.diff rebased by the lead onto ff92a55, patch.orig.diff is the sub-agent's original",
    "C02-r4-1": "missed at first by C02 (cross-reference streams only used the Up filter; C03 caught it); caught by C02 after xref streams got rows with every PNG filter type under /Predictor 10-15",
    "C02-r4-2": "missed at first (every object was written 'N G obj' + LF); caught after the fallback documents vary what follows the obj keyword (nothing before a delimiter, space, tab, CR LF)",
    "C02-r4-3": "missed at first (tools/dumppdf.py -a was not driven, no object had a false-in-Python value); caught after C02 got the dumpallobjs monitor and histories with 0 / 0.0 / [] / () / <> / <<>> / false objects",
    "C04-r4-3": "missed at first (page selection only through the library API); caught after C04 drives pdf2txt.py and dumppdf.py with -p / --pagenos / --page-numbers / -m",
    "C08-r4-2": "missed at first; caught after C08 got figure-only containers under all_texts and the 'no bare glyph left in an analysed container' assertion (builder)",
    "C08-r4-3": "missed at first; caught after C08 got blank-only containers (builder)",
    "C09-r4-2": "same change as C08-r4-2 (a container without own glyphs never analyses its figures under all_texts): a conservation matter, caught by C08 (structure:glyph_outside_line); C09's workload has own glyphs in every analysed container and is silent",
    "C10-r4-2": "missed at first; caught after the encrypted cross-reference-stream documents vary the third /W width (0, 1, 2) (builder)",
    "C12-r4-1": "missed at first; caught after the pool got pages sharing one indirect /Contents array",
    "C12-r4-2": "missed at first (no LZW-coded stream in the pool; the C03 run on this tree did not finish within its time limit); caught after two LZW documents joined the pool",
    "C12-r4-3": "missed at first by C12 (C10 caught it); caught by C12 after an RC4 document with a form XObject shared by two pages joined the pool (caching=False histories)",
    "C13-r4-2": "missed at first (no #xx name escape in the seeds, truncation points sampled with stride 12); caught after the basic seed got /F#202 and cuts that leave a half-read token are always run",
    "C13-r4-4": "missed at first (xml entry ran without strip_control; the three FontName sites fell between the stride-12 samples); caught after the xml entry sets strip_control=True and name<->string swaps are always run",
    "C14-r4-2": "missed at first (inputs were at most 64 bytes); caught after C14 got the long-run family (1000-9000 repetitions of one unit at buffer sizes 61, 4096, 65536)",
    "C15-r4-2": "missed at first; caught after CMAP_PATH values with an empty component joined the C15 workload (builder)",
    "C15-r4-3": "missed at first (tools/dumppdf.py -E was not driven); caught after C15 got the embedded-file extraction family (builder)",
    "C16-r4-1": "missed at first by C16 and C12 (single-page programs; no pool document left graphics state behind); caught by C16 (judged page interpreted after an earlier page must equal the same page alone) and by C12 (gstate-carry document)",
    "C17-r4-2": "missed at first; caught after name and number trees got /Limits whose elements are indirect references (builder)",
    "C07-r3-1": "not a violation of C07 as stated: the change only alters increment-form bfrange entries whose last destination byte would pass 255 (<0001> <0010> <30F8>), for which ISO 32000-1 9.10.3 says 'the result of mapping is undefined' (the last byte shall be <= 255 - (hi - lo)); C07 deliberately generates no such range, so neither a carry nor a wrap-around is asserted",
    "C04-r3-3": "page selection changes the text of a page without Resources (it inherits the maps of the page interpreted before it); PDFPage.resources - what C04 asserts - stays correct, so C04 is silent; caught by C12 (page-at-a-time / subset vs all-pages) after a page-without-resources document joined its pool; same mechanism as C12-r3-2",
    "C12-r3-1": "missed at first (no pool document raised while a form was open); caught after C12 got a document whose form cannot be decoded and a good twin with the form at the same object number",
    "C12-r3-2": "missed at first; caught after the page-without-resources document was added to the C12 pool",
    "C12-r3-3": "caught by the PREDEFINED_COLORSPACE fingerprint once a pool document defined a named colour space; glyph and path colours are now part of the page signature as well",
    "C05-r3-2": "missed at first (the model did not track colour spaces); caught after cs/CS/sc/scn/SC/SCN were added to the C05 programs and LTChar.ncs is compared with the model's fill colour space",
    "C13-r3-1": "missed at first (every entry point ran with caching=True); caught after the extract_pages entry was switched to caching=False",
    "C15-r3-2": "missed at first; caught after the C15 workload got a CMAP_PATH-unset family with planted pickles in the working directory",
    "C15-r3-3": "missed at first; caught after the C15 CMAP_PATH directory got symbolic links to planted files outside it",
    "C17-r3-3": "missed at first (tools/dumppdf.py was not driven); caught after C17 got a dumpoutline monitor comparing level, title and page number of every outline item",
    "C18-r3-1": "missed at first (inline images only in single-stream pages); caught after C18 splits page content into /Contents arrays with padding streams",
    "C18-r3-2": "missed at first; caught by C18 (name pairs colliding after sanitising, files re-read after all exports) and by C15 (overwrite of an existing file)",
    "C07-r2-1": "patch.diff was rebased by the lead onto the repaired tree (a later fix changed render_string); patch.orig.diff is the sub-agent's original",
    "C05-r2-1": "same change as C07-r2-1 (word spacing after CID 32 of a composite font); missed at first (simple fonts only), caught after C05 got an Identity-H composite font; patch.diff rebased by the lead",
    "C20-r2-3": "not a violation of C20 as stated: the change only alters the ORDER in which Plane.find returns objects after removals (its demo reads the property as requiring insertion order for find); membership, len, contains and iteration order - what the statement asserts - are unaffected, and no layout result changes (C09 is silent too)",
    "C01-3": "C14 (tokenizer totality / buffer independence) is not expected to see this semantic change; C01 does",
    "C14-3": "C01 never writes VT inside hex strings (not PDF white space); C14 does",
    "C17-2": "patch.diff was rebased by the lead onto the repaired tree (a later fix changed NumberTree._parse); patch.orig.diff is the sub-agent's original",
    "C20-3": "patch.diff was rebased by the lead onto the repaired tree (a later fix changed Plane.add); patch.orig.diff is the sub-agent's original",
}
for d in sorted(glob.glob(os.path.join(ROOT, "seeded", "C*-*"))):
    name = os.path.basename(d)
    try:
        ran = json.load(open(os.path.join(d, "ran.json")))
    except Exception as e:
        print(name, "no ran.json", e)
        continue
    try:
        meta = json.load(open(os.path.join(d, "meta.json")))
    except Exception:
        meta = {}
    if "checks" not in ran:
        print(name, "NOT RUN:", ran.get("apply_error", "")[:100])
        continue
    meta["property"] = ran["property"]
    meta["confirmed_by_lead"] = {
        "demo_passes_on_clean_tree": ran["demo_clean_rc"] == 0, "patch_applies": ran["patch_applies"],
        "repository_tests_pass_with_change": ran["repo_tests_rc"] == 0, "repo_tests_tail": ran.get("repo_tests_tail"),
        "demo_fails_with_change": ran["demo_changed_rc"] != 0,
        "how": "tools/seedcheck.py: scratch worktree of /repo HEAD, demo on clean tree, git apply patch.diff, repository tests, demo on changed tree, ./check <id> (quick) with VERIF_REPO=<worktree>",
    }
    meta["checks_run"] = {c: {"exit": v["exit"], "caught": v["caught"], "keys": [k.replace("key=", "") for k in v["keys"]]} for c, v in ran["checks"].items()}
    if name in NOTES:
        meta["note"] = NOTES[name]
    json.dump(meta, open(os.path.join(d, "meta.json"), "w"), indent=1)
    print(name, "confirmed" if ran.get("confirmed") else "NOT-CONFIRMED", {c: v["caught"] for c, v in ran["checks"].items()})
