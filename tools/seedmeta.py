#!/usr/bin/env python3
"""Merge seeded/<id>/ran.json (written by tools/seedcheck.py) into seeded/<id>/meta.json."""
import glob
import json
import os

ROOT = os.path.dirname(os.path.dirname(os.path.abspath(__file__)))
NOTES = {
    "C07-r2-1": "patch.diff was rebased by the lead onto the repaired tree (a later fix changed render_string); patch.orig.diff is the sub-agent's original",
    "C05-r2-1": "same change as C07-r2-1 (word spacing after CID 32 of a composite font); missed at first (simple fonts only), caught after C05 got an Identity-H composite font; patch.diff rebased by the lead",
    "C20-r2-3": "not a violation of C20 as stated: the change only alters the ORDER in which Plane.find returns objects after removals (its demo reads the property as requiring insertion order for find); membership, len, contains and iteration order - what the statement asserts - are unaffected, and no layout result changes (C09 is silent too)",
    "C01-3": "C14 (tokenizer totality / buffer independence) is not expected to see this semantic change; C01 does",
    "C14-3": "C01 never writes VT inside hex strings (not PDF white space); C14 does",
    "C17-2": "patch.diff was rebased by the lead onto the repaired tree (a later fix changed NumberTree._parse); patch.orig.diff is the sub-agent's original",
    "C20-3": "patch.diff was rebased by the lead onto the repaired tree (a later fix changed Plane.add); patch.orig.diff is the sub-agent's original",
}
for d in sorted(glob.glob(os.path.join(ROOT, "seeded", "C*-*"))):
    name = os.path.basename(d)
    try:
        ran = json.load(open(os.path.join(d, "ran.json")))
    except Exception as e:
        print(name, "no ran.json", e)
        continue
    try:
        meta = json.load(open(os.path.join(d, "meta.json")))
    except Exception:
        meta = {}
    if "checks" not in ran:
        print(name, "NOT RUN:", ran.get("apply_error", "")[:100])
        continue
    meta["property"] = ran["property"]
    meta["confirmed_by_lead"] = {
        "demo_passes_on_clean_tree": ran["demo_clean_rc"] == 0, "patch_applies": ran["patch_applies"],
        "repository_tests_pass_with_change": ran["repo_tests_rc"] == 0, "repo_tests_tail": ran.get("repo_tests_tail"),
        "demo_fails_with_change": ran["demo_changed_rc"] != 0,
        "how": "tools/seedcheck.py: scratch worktree of /repo HEAD, demo on clean tree, git apply patch.diff, repository tests, demo on changed tree, ./check <id> (quick) with VERIF_REPO=<worktree>",
    }
    meta["checks_run"] = {c: {"exit": v["exit"], "caught": v["caught"], "keys": [k.replace("key=", "") for k in v["keys"]]} for c, v in ran["checks"].items()}
    if name in NOTES:
        meta["note"] = NOTES[name]
    json.dump(meta, open(os.path.join(d, "meta.json"), "w"), indent=1)
    print(name, "confirmed" if ran.get("confirmed") else "NOT-CONFIRMED", {c: v["caught"] for c, v in ran["checks"].items()})
