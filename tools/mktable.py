#!/usr/bin/env python3
"""Regenerate section 24 of DESIGN.md (which checks catch which seeded changes) from seeded/*/meta.json."""
import glob
import json
import os
import re

ROOT = os.path.dirname(os.path.dirname(os.path.abspath(__file__)))


def main():
    rows = []
    for d in sorted(glob.glob(os.path.join(ROOT, "seeded", "C*-*")), key=lambda p: (p.split("/")[-1].split("-")[0], int(p.split("-")[-1]))):
        try:
            m = json.load(open(os.path.join(d, "meta.json")))
        except Exception:
            continue
        name = os.path.basename(d)
        runs = m.get("checks_run", {})
        caught = [c for c, v in runs.items() if v.get("caught")]
        missed = [c for c, v in runs.items() if not v.get("caught")]
        keys = []
        for c in caught:
            keys += ["%s:%s" % (c, k.split(" count=")[0]) for k in runs[c].get("keys", [])[:2]]
        summ = " ".join(str(m.get("summary", "")).split())[:170]
        needs = " ".join(str(m.get("needs", "")).split())[:170]
        rows.append("| %s | %s | %s | %s | %s |" % (name, summ.replace("|", "/"), needs.replace("|", "/"),
                                                 ", ".join(caught) or "-", "; ".join(keys)[:160].replace("|", "/")))
    table = ("| change | what was changed | needs to manifest | caught by | first keys |\n|---|---|---|---|---|\n" + "\n".join(rows))
    p = os.path.join(ROOT, "DESIGN.md")
    s = open(p).read()
    marker = "## 24. Which checks catch which changes"
    i = s.index(marker)
    head = s[:i] + marker + "\n\n"
    body = ("Seeded changes were written by fresh sub-agents that saw only the property text and a scratch worktree; each was\n"
            "confirmed by `tools/seedcheck.py` (demo passes on the clean tree, patch applies, the 216 repository tests pass with it,\n"
            "demo fails with it) and the checks were run against the changed tree through `VERIF_REPO` (never in `/repo`).\n"
            "`seeded/<id>/meta.json` holds the details. Where a check missed a change at first, the strengthening is listed below the table.\n\n")
    tail_marker = "\n### Strengthening after misses"
    tail = ""
    if tail_marker in s[i:]:
        tail = s[i:][s[i:].index(tail_marker):]
    open(p, "w").write(head + body + table + "\n" + tail)
    print("%d rows" % len(rows))


if __name__ == "__main__":
    main()
