#!/usr/bin/env python3
"""Regenerate the 'Build status' table of DESIGN.md from evidence/, known_findings.json and seeded/."""
import glob
import json
import os

ROOT = os.path.dirname(os.path.dirname(os.path.abspath(__file__)))
BUILDER = {"C01": "lead", "C02": "lead", "C04": "lead", "C05": "lead", "C12": "lead", "C13": "lead + repair agent", "C14": "lead", "C16": "lead"}


def main():
    kf = json.load(open(os.path.join(ROOT, "known_findings.json")))["findings"]
    rows = []
    for i in range(1, 21):
        pid = "C%02d" % i
        try:
            ev = json.load(open(os.path.join(ROOT, "evidence", pid + ".json")))
            cov = ev["coverage"]
            q = "%d / %d" % (cov["evaluations"], cov["distinct_nontrivial"])
        except Exception:
            q = "-"
        fixed = sum(1 for e in kf if e["property"] == pid and e["status"] == "fixed")
        known = [e["key"] for e in kf if e["property"] == pid and e["status"] == "known"]
        seeds = glob.glob(os.path.join(ROOT, "seeded", pid + "-*"))
        caught = 0
        for d in seeds:
            try:
                m = json.load(open(os.path.join(d, "meta.json")))
                if any(v.get("caught") for v in m.get("checks_run", {}).values()):
                    caught += 1
            except Exception:
                pass
        rows.append("| %s | %s | %s | %d | %s | %d / %d |" % (pid, BUILDER.get(pid, "sub-agent, reviewed and integrated by the lead"), q, fixed,
                                                           ", ".join("`%s`" % k for k in known) or "-", caught, len(seeds)))
    table = ("| property | built by | quick tier: evaluations / distinct non-trivial | defects repaired (`fix:` commits) | known findings | seeded changes caught / run |\n"
             "|---|---|---|---|---|---|\n" + "\n".join(rows))
    p = os.path.join(ROOT, "DESIGN.md")
    s = open(p).read()
    start = "<!-- status:begin -->"
    end = "<!-- status:end -->"
    block = start + "\n" + table + "\n" + end
    if start in s:
        s = s[:s.index(start)] + block + s[s.index(end) + len(end):]
    else:
        marker = "---------------------------------------------------------------------------\n\n## 0. Common machinery"
        intro = ("## Build status (after the build phase)\n\nAll twenty properties are claimed; every check is `./check <ID>` (see MANIFEST.json). The per-property sections below "
                 "are the plan written before the build; where the build deviated, section 23 says how and why. Numbers are from the evidence files of the last quick run.\n\n")
        s = s.replace(marker, intro + block + "\n\n" + marker, 1)
    open(p, "w").write(s)
    print("status table written")


if __name__ == "__main__":
    main()
