#!/bin/sh
# usage: tools/sweep.sh <tier> <seeds...>   runs every READY check for each seed; evidence goes to a scratch dir
tier=$1; shift
cd /verif
for s in "$@"; do
  for c in $(cat vf/checks/READY); do
    out=$(VERIF_EVIDENCE_DIR=/tmp/ev-sweep ./check $c --tier $tier --seed $s 2>&1)
    rc=$?
    echo "$c seed=$s rc=$rc $(echo "$out" | grep "tier=$tier" | cut -c1-160)"
    [ $rc -ne 0 ] && echo "$out" | grep -E "VIOLATION|key=|INCONCLUSIVE|crashed" | cut -c1-300 | head -8
  done
done
