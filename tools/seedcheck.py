#!/usr/bin/env python3
"""Confirm a seeded change and run checks against it, without touching /repo.

usage: tools/seedcheck.py <dir with patch.diff, demo.py, meta.json> <property-id> [extra check ids ...]

Steps (all in a scratch worktree of /repo at HEAD, removed afterwards):
  1. demo.py on the clean tree            -> must exit 0
  2. git apply patch.diff                 -> must apply
  3. repository tests on the changed tree -> must pass (216)
  4. demo.py on the changed tree          -> must exit != 0
  5. ./check <id> (quick, VERIF_REPO=worktree) for the property and any extra ids -> exit code / keys
Prints a JSON summary (also usable as the "ran" part of meta.json).
"""
import json
import os
import subprocess
import sys

PY = "/venv/bin/python"


def run(cmd, cwd, env=None, timeout=int(os.environ.get("SEED_TIMEOUT", "1800"))):
    r = subprocess.run(cmd, cwd=cwd, env=env, capture_output=True, text=True, timeout=timeout)
    return r.returncode, (r.stdout + r.stderr)


def main():
    d = os.path.abspath(sys.argv[1])
    pid = sys.argv[2]
    extra = sys.argv[3:]
    wt = "/tmp/wt-seedchk-%d" % os.getpid()
    res = {"property": pid, "dir": d}
    subprocess.run(["git", "-C", "/repo", "worktree", "add", "--detach", wt, "HEAD"], check=True, capture_output=True)
    try:
        env = dict(os.environ, PYTHONPATH=wt, PYTHONDONTWRITEBYTECODE="1")
        rc, out = run([PY, os.path.join(d, "demo.py")], wt, env)
        res["demo_clean_rc"] = rc
        rc, out = run(["git", "apply", os.path.join(d, "patch.diff")], wt)
        res["patch_applies"] = rc == 0
        if rc != 0:
            res["apply_error"] = out[-400:]
            print(json.dumps(res, indent=1))
            return 2
        rc, out = run([PY, "-m", "pytest", "-q", "-p", "no:cacheprovider", "--timeout=900", "tests"], wt, env)
        res["repo_tests_rc"] = rc
        res["repo_tests_tail"] = out.strip().splitlines()[-1] if out.strip() else ""
        rc, out = run([PY, os.path.join(d, "demo.py")], wt, env)
        res["demo_changed_rc"] = rc
        res["demo_changed_tail"] = out.strip().splitlines()[-1][:200] if out.strip() else ""
        cenv = dict(os.environ, VERIF_REPO=wt, VERIF_EVIDENCE_DIR="/tmp/ev-seedchk")
        res["checks"] = {}
        for c in [pid] + extra:
            rc, out = run(["./check", c, "--jobs", os.environ.get("SEED_JOBS", "8")], "/verif", cenv)
            keys = [l.strip().split(" detail=")[0] for l in out.splitlines() if l.strip().startswith("key=")]
            res["checks"][c] = {"exit": rc, "caught": rc == 1, "keys": keys[:6]}
        res["confirmed"] = (res["demo_clean_rc"] == 0 and res["repo_tests_rc"] == 0 and res["demo_changed_rc"] != 0)
        print(json.dumps(res, indent=1))
        return 0
    finally:
        subprocess.run(["git", "-C", "/repo", "worktree", "remove", "--force", wt], capture_output=True)


if __name__ == "__main__":
    sys.exit(main())
