#!/usr/bin/env python3
"""Self-validation of the monitors: apply one textual mutation to a scratch worktree of /repo and run checks
against it (VERIF_REPO), expecting exit 1.  Never touches /repo's working tree.

usage: tools/muttest.py <file-in-repo> <old> <new> <check-id> [<check-id>...]
"""
import os
import subprocess
import sys

WT = "/tmp/wt-mut-%d" % os.getpid()


def main():
    f, old, new = sys.argv[1:4]
    checks = sys.argv[4:]
    subprocess.run(["git", "-C", "/repo", "worktree", "add", "--detach", WT, "HEAD"], check=True, capture_output=True)
    try:
        p = os.path.join(WT, f)
        s = open(p).read()
        if s.count(old) < 1:
            print("MUTATION DOES NOT APPLY: %r not in %s" % (old, f))
            return 2
        open(p, "w").write(s.replace(old, new, 1))
        imp = subprocess.run(["/venv/bin/python", "-c", "import sys; sys.path.insert(0, %r); import pdfminer.high_level" % WT], capture_output=True)
        if imp.returncode:
            print("mutant does not import")
            return 2
        env = dict(os.environ, VERIF_REPO=WT, VERIF_EVIDENCE_DIR="/tmp/ev-mut")
        rc_all = 0
        for c in checks:
            r = subprocess.run(["./check", c] + (["--jobs", os.environ.get("MUT_JOBS", "8")]), cwd="/verif", env=env, capture_output=True, text=True)
            keys = [l.strip()[:160] for l in r.stdout.splitlines() if l.strip().startswith("key=")]
            print("%s: exit %d %s" % (c, r.returncode, "CAUGHT" if r.returncode == 1 else "MISSED"), keys[:3])
            if r.returncode != 1:
                rc_all = 1
        if os.environ.get("MUT_TESTS"):
            t = subprocess.run(["/venv/bin/python", "-m", "pytest", "-q", "-x", "-p", "no:cacheprovider", "tests"], cwd=WT, capture_output=True, text=True)
            print("repo tests:", t.stdout.strip().splitlines()[-1] if t.stdout.strip() else t.returncode)
        return rc_all
    finally:
        subprocess.run(["git", "-C", "/repo", "worktree", "remove", "--force", WT], capture_output=True)


if __name__ == "__main__":
    sys.exit(main())
