"""Subprocess entry: run one shard (or one known-finding witness) of a check."""
from __future__ import annotations

import json
import os
import resource
import sys
import traceback


def main() -> int:
    pid, specpath, outpath = sys.argv[1:4]
    import vf  # noqa: F401  (puts the repo on sys.path)
    from vf.common import Recorder, dec, quiet_logging
    from vf.runner import load_module

    quiet_logging()
    with open(specpath) as f:
        spec = json.load(f)
    mod = load_module(pid)
    mem = getattr(mod, "MEM_LIMIT", 4 << 30)
    if mem:
        try:
            resource.setrlimit(resource.RLIMIT_AS, (mem, mem))
        except (ValueError, OSError):
            pass
    rec = Recorder()
    try:
        if "__witness__" in spec:
            for key, detail in mod.replay(dec(spec["__witness__"])):
                rec.fail(key, spec["__witness__"], detail)
        else:
            mod.run_shard(spec, rec)
    except BaseException:  # noqa: BLE001 - harness error: reported, never a verdict
        traceback.print_exc()
        return 3
    with open(outpath, "w") as f:
        json.dump(rec.dump(), f)
    return 0


if __name__ == "__main__":
    sys.exit(main())
