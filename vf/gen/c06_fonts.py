"""C06 generator: simple-font dictionaries (as JSON-able *cases*), the PDF pages
that show all 256 codes with them, and the reference expectation per code.

A case (everything needed to rebuild the page and the expectation):

  {"subtype": "Type1"|"MMType1"|"TrueType"|"Type3",
   "basefont": str,                       # a standard-14 name only together with "std14": true
   "std14": bool,                         # no /Widths, no /FontDescriptor
   "enc": {"kind": "absent"} | {"kind": "name", "name": E}
          | {"kind": "dict", "base": E|None, "diff": [int | "glyphname", ...]},
   "tounicode": None | {"blocks": [["char", [[code, text], ...]] | ["range", [[lo, hi, text] | [lo, hi, [text, ...]], ...]]],
                         "flate": bool, "begincmap": bool},
   "fontfile": None | {"style": "array"|"std", "entries": [[code, name], ...], "eol": "\n"|"\r"|"\r\n",
                        "noise": bool, "info_first": bool},
   "widths": None | {"first": int, "list": [num, ...], "missing": num|None, "indirect": "no"|"array"|"items"|"shared"},
                                          # shared: every value that occurs twice or more is ONE indirect object,
                                          # referenced from each of its positions in the array
   "matrix": None | [a, b, c, d, e, f],   # Type3
   "descriptor": bool,                    # Type3 only: with a /FontDescriptor
   "size": num, "layout": "single"|"row"|"tj", "order": "asc"|"desc"|"perm:<n>", "direct": bool,
   "tag": str}                            # sub-family
"""
from __future__ import annotations

import random
import zlib
from typing import Any, Dict, List, Optional, Tuple

from vf.gen import pdfw
from vf.gen.pdfw import N, Name, Ref, Stream
from vf.ref import agl
from vf.ref.c06_enc import ENCODINGS, SKIP, STD14_FIXED, STD14_WIDTHS

# 9.6.4: <six upper-case letters>+<PostScript name> marks a SUBSET of an embedded font; such a name is not one of the
# standard-14 names (nor one of their alternative names), so the font's own /Widths, /MissingWidth and encoding apply
SUBSET_STD14 = ["ABCDEF+Times-Roman", "QWERTY+Helvetica", "XYZABC+Arial,Bold", "GHIJKL+Courier", "MNOPQR+TimesNewRoman",
                "BCDEFG+Helvetica-Bold", "HIJKLM+CourierNew", "NOPQRS+Arial"]
ENC_NAMES = ["StandardEncoding", "MacRomanEncoding", "WinAnsiEncoding"]
LIST_NAMES = sorted(agl.LIST)

# names that certainly have no AGL mapping (none is a glyph-list name, none has the uni/u form)
NOMAP_PLAIN = [
    "foo", "qux", "glyph42", "g123", "c17", "nomapping", "zzzz", "dummy", "Xx", "cid00065", "G0041", "x0041",
    "Uni0041", "UNI0041", "U0041", "uni", "uni41", "uni004", "uni00411", "uni004100", "uniD800", "uniDBFF",
    "uniDC00", "uniDFFF", "uni0041D800", "uniD83DDE00", "u", "u41", "u041", "u0000041", "uD800", "uDFFF", "u00D800",
    "uni-0041", "u+0041", "unicode0041",
]
# no mapping either, but of a shape on which prefix/hex handling is easily wrong
NOMAP_TRAP_STRIP = ["uu0041", "u0041u", "uni0041u", "uni0041n", "uniuni0041", "uni0041uni", "inu0041"]  # inu0041 is plain
NOMAP_TRAP_HEX = ["uniform", "uni00G1", "uni004G", "u00G1", "u0041G", "uniABCX", "uniF00DZZZZ"]
NOMAP_TRAP_RANGE = ["u110000", "uFFFFFF", "u10FFFG"]
SUFFIXES = ["alt", "sc", "swash", "001", "a.b", "x_y", "alt_B", "", "oldstyle", "u0041"]

TEXT_POOL = (
    [chr(c) for c in range(0x20, 0x7F)]
    + [chr(c) for c in range(0xA0, 0x180)]
    + [chr(c) for c in range(0x391, 0x3CA) if c != 0x3A2]
    + [chr(c) for c in range(0x410, 0x450)]
    + ["\u4e2d", "\u6587", "\u65e5", "\u672c", "\u8a9e", "\ud55c", "\uae00", "\u3000", "\u20ac", "\u2122",
       "\ufb01", "\ufb03", "\U0001F600", "\U00010400", "\U0002F800", "\ue000", "\uf6fb", "\ufffd", "\u0301",
       "\u200b", "\ud7ff"]
)
RANGE_LAST = ["A", "a", "0", "\u00c0", "\u0391", "\u0410", "\u4e00", "\U0001F600", "\ue000"]


# --------------------------------------------------------------------------
# glyph names
# --------------------------------------------------------------------------
def _scalar(rng: random.Random, bmp: bool) -> int:
    r = rng.random()
    if r < 0.45:
        return rng.randrange(0x20, 0x7F)
    if r < 0.7:
        return rng.randrange(0xA0, 0x500)
    if r < 0.8:
        return rng.choice([0, 1, 0x7F, 0xD7FF, 0xE000, 0xFFFF, 0xFFFD, 0xF6FB])
    if bmp or r < 0.9:
        while True:
            v = rng.randrange(0x0, 0x10000)
            if not 0xD800 <= v <= 0xDFFF:
                return v
    return rng.choice([0x10000, 0x1040C, 0x1F600, 0x10FFFF, 0x2F800, rng.randrange(0x10000, 0x110000)])


def mapped_component(rng: random.Random) -> Tuple[str, str]:
    """-> (category, component) where the component certainly has an AGL mapping."""
    r = rng.random()
    if r < 0.4:
        return "list", rng.choice(LIST_NAMES)
    if r < 0.55:
        return "uni4", "uni%04X" % _scalar(rng, True)
    if r < 0.7:
        return "uniseq", "uni" + "".join("%04X" % _scalar(rng, True) for _ in range(rng.randint(2, 3)))
    v = _scalar(rng, False)
    if v > 0xFFFF:
        return ("u5", "u%05X" % v) if v <= 0xFFFFF and rng.random() < 0.6 else ("u6", "u%06X" % v)
    k = rng.choice([4, 4, 5, 6])
    return "u%d" % k, "u%0*X" % (k, v)


def glyph_name(rng: random.Random, traps: bool = False) -> Tuple[str, str]:
    """-> (category, glyph name).  Categories: list uni4 uniseq u4 u5 u6 comp suffix nomap notdef
    (+ trap_strip trap_hex trap_range when `traps`)."""
    r = rng.random()
    if r < 0.50:
        return mapped_component(rng)
    if r < 0.62:
        n = rng.randint(2, 3)
        return "comp", "_".join(mapped_component(rng)[1] for _ in range(n))
    if r < 0.76:
        if rng.random() < 0.3:
            base = "_".join(mapped_component(rng)[1] for _ in range(2))
        else:
            base = mapped_component(rng)[1]
        return "suffix", base + "." + rng.choice(SUFFIXES)
    if r < 0.80:
        return "notdef", ".notdef"
    if traps and r < 0.90:
        k = rng.choice(["trap_strip", "trap_hex", "trap_range"])
        pool = {"trap_strip": NOMAP_TRAP_STRIP[:-1], "trap_hex": NOMAP_TRAP_HEX, "trap_range": NOMAP_TRAP_RANGE}[k]
        return k, rng.choice(pool)
    nm = rng.choice(NOMAP_PLAIN + ["inu0041"])
    if rng.random() < 0.2:
        nm += "." + rng.choice(SUFFIXES)
    return "nomap", nm


def name_category(name: str) -> str:
    """Category of a glyph name as used in failure keys (recomputed from the name, so that replay agrees)."""
    if name in NOMAP_TRAP_STRIP[:-1]:
        return "trap_strip"
    if name in NOMAP_TRAP_HEX:
        return "trap_hex"
    if name in NOMAP_TRAP_RANGE:
        return "trap_range"
    head = name.split(".")[0]
    if name.startswith("."):
        return "notdef"
    if agl.to_unicode(name) == "":
        return "nomap"
    if "." in name:
        return "suffix"
    if "_" in head:
        return "comp"
    if head in agl.LIST:
        return "list"
    if head.startswith("uni"):
        return "uni4" if len(head) == 7 else "uniseq"
    return "u%d" % (len(head) - 1)


# --------------------------------------------------------------------------
# case generation
# --------------------------------------------------------------------------
def gen_diff(rng: random.Random, traps: bool, overlap: bool) -> List[Any]:
    diff: List[Any] = []
    nruns = rng.randint(1, 6)
    used: set = set()
    for _ in range(nruns):
        ln = rng.randint(1, 12)
        start = rng.randrange(0, 257 - ln)  # a run may end at code 255; none runs past it (such names have no code)
        r = rng.random()
        if r < 0.12:
            start = 256 - ln  # the running count reaches code 255
        elif r < 0.18:
            start, ln = 255, 1  # code 255 named explicitly
        elif r < 0.26:
            start = 0
        codes = range(start, start + ln)
        if not overlap and any(c in used for c in codes):
            continue
        used.update(codes)
        diff.append(start)
        for _ in range(ln):
            diff.append(glyph_name(rng, traps)[1])
    if not diff:
        diff = [65, glyph_name(rng, traps)[1]]
    return diff


def gen_tounicode(rng: random.Random) -> Dict[str, Any]:
    ncodes = rng.choice([1, 3, 10, 40, 120, 256])
    codes = sorted(rng.sample(range(256), ncodes))
    blocks: List[Any] = []
    i = 0
    chars: List[Any] = []
    ranges: List[Any] = []

    def text() -> str:
        return "".join(rng.choice(TEXT_POOL) for _ in range(rng.choice([1, 1, 1, 2, 3])))

    while i < len(codes):
        j = i
        while j + 1 < len(codes) and codes[j + 1] == codes[j] + 1 and j - i < 20:
            j += 1
        r = rng.random()
        if j > i and r < 0.35:
            # increment form: only the last byte of the target changes (j - i <= 20 keeps it inside the byte)
            t = text()[:-1] + rng.choice(RANGE_LAST)
            ranges.append([codes[i], codes[j], t])
            i = j + 1
        elif j > i and r < 0.6:
            ranges.append([codes[i], codes[j], [text() for _ in range(i, j + 1)]])
            i = j + 1
        elif r < 0.7:
            ranges.append([codes[i], codes[i], text()])
            i += 1
        else:
            chars.append([codes[i], text()])
            i += 1
    # split into blocks of <= 100 (ISO 32000 / CMap spec limit), interleaved
    for k in range(0, len(chars), 100):
        blocks.append(["char", chars[k:k + 100]])
    for k in range(0, len(ranges), 100):
        blocks.append(["range", ranges[k:k + 100]])
    rng.shuffle(blocks)
    return {"blocks": blocks, "flate": rng.random() < 0.5, "begincmap": rng.random() < 0.85}


def gen_widths(rng: random.Random, full: bool = False) -> Dict[str, Any]:
    if full or rng.random() < 0.25:
        first, ln = 0, 256
    else:
        first = rng.choice([0, 1, 31, 32, 33, 65, 128, 200, 255, rng.randrange(1, 256)])
        ln = rng.randint(1, 256 - first)
        if rng.random() < 0.3:
            ln = min(ln, rng.randint(1, 8))
    style = rng.random()
    lst: List[Any] = []
    for _ in range(ln):
        if style < 0.6:
            lst.append(rng.choice([0, 250, 278, 333, 500, 556, 600, 667, 722, 1000, 1500, rng.randrange(0, 2001)]))
        else:
            lst.append(rng.randrange(0, 4000) / 4.0 if rng.random() < 0.5 else rng.randrange(0, 2001))
    missing = rng.choice([None, None, 0, 250, 500, 1000, 333.5, rng.randrange(1, 2000)])
    indirect = rng.choice(["no", "no", "array", "items", "shared"])
    if indirect == "shared" and ln >= 2:
        lst[rng.randrange(1, ln)] = lst[0]  # at least one object is referenced twice
    return {"first": first, "list": lst, "missing": missing, "indirect": indirect}


def gen_fontfile(rng: random.Random, style: str = "array", traps: bool = False) -> Dict[str, Any]:
    n = rng.choice([0, 1, 5, 30, 100, 200])
    codes = sorted(rng.sample(range(256), n))
    entries = []
    for c in codes:
        entries.append([c, glyph_name(rng, traps)[1]])
    return {"style": style, "entries": entries, "eol": rng.choice(["\n", "\n", "\r", "\r\n"]),
            "noise": rng.random() < 0.5, "info_first": rng.random() < 0.7, "oneline": rng.random() < 0.2,
            "flate": rng.random() < 0.5}


T3_SCALES = [0.001, 0.002, 0.0005, 0.01, 0.00048828125, 0.0125, 0.000244140625, 1.0, 0.004]


def gen_case(rng: random.Random, family: str) -> Dict[str, Any]:
    """family: base | diff | overlap | tounicode | fontfile | ff_enc | ff_std | ff_traps | std14 | std14_tu | t3 | t3_shear |
    t3_missing | widths | traps"""
    c: Dict[str, Any] = {"tag": family, "std14": False, "tounicode": None, "fontfile": None, "widths": None,
                         "matrix": None, "descriptor": True}
    c["size"] = rng.choice([1, 8, 10, 12, 7.5, 0.5, 24])
    c["layout"] = rng.choice(["single", "row", "tj"])
    c["order"] = rng.choice(["asc", "asc", "desc", "perm:%d" % rng.randrange(1 << 30)])
    c["direct"] = rng.random() < 0.25
    c["basefont"] = rng.choice(["VFSans", "ABCDEF+VFSerif", "VF-Mono", "ArialMT", "TimesNewRomanPSMT"] + SUBSET_STD14)

    def enc_any(allow_nobase: bool, traps: bool = False, overlap: bool = False, force_dict: bool = False):
        r = rng.random()
        if r < 0.3 and not force_dict:
            return {"kind": "name", "name": rng.choice(ENC_NAMES), "indirect": rng.random() < 0.2}
        bases = ["MacRomanEncoding", "WinAnsiEncoding", "MacRomanEncoding", "WinAnsiEncoding"]
        if allow_nobase:
            bases.append(None)
            bases.append(None)
        diff = gen_diff(rng, traps, overlap)
        if rng.random() < 0.04 and not (traps or overlap):
            diff = []  # a dictionary with /BaseEncoding only (or an empty Differences array)
        return {"kind": "dict", "base": rng.choice(bases), "diff": diff, "indirect": rng.random() < 0.3,
                "omit_empty": rng.random() < 0.5}

    if family in ("std14", "std14_tu"):
        c["subtype"] = "Type1"
        c["std14"] = True
        c["basefont"] = rng.choice(["Courier", "Helvetica", "Times-Roman", "Helvetica", "Times-Roman", "Courier-Bold"])
        r = rng.random()
        if r < 0.25:
            c["enc"] = {"kind": "absent"}
        else:
            c["enc"] = enc_any(True)
        if family == "std14_tu":
            c["tounicode"] = gen_tounicode(rng)
        return c
    if family in ("t3", "t3_shear", "t3_missing"):
        c["subtype"] = "Type3"
        c["enc"] = enc_any(False)
        a = rng.choice(T3_SCALES if family != "t3_missing" else T3_SCALES[1:])
        d = a if rng.random() < 0.6 else rng.choice(T3_SCALES)
        c["matrix"] = [a, 0, 0, d, 0, 0]
        if family == "t3_shear":
            c["matrix"][2] = rng.choice([a / 4, a / 2, -a / 4])
        w = gen_widths(rng)
        c["descriptor"] = rng.random() < 0.4
        if family == "t3_missing":
            # a FontDescriptor with a non-zero MissingWidth and codes outside FirstChar..LastChar.  Table 112 says the
            # width of such a code is 0, Table 122 says it is MissingWidth (glyph space, 9.6.5): the oracle accepts
            # both readings and nothing else
            while len(w["list"]) == 256:
                w = gen_widths(rng)
            w["missing"] = rng.choice([250, 500, 1000, 333.5, rng.randrange(1, 2000)])
            c["descriptor"] = True
        elif not (c["descriptor"] and len(w["list"]) == 256):
            w["missing"] = None  # Table 112: outside FirstChar..LastChar the width is 0; MissingWidth would make it debatable
        if not c["descriptor"]:
            w["missing"] = None
        c["widths"] = w
        if rng.random() < 0.4:
            c["tounicode"] = gen_tounicode(rng)
        return c

    c["subtype"] = rng.choice(["Type1", "MMType1", "TrueType"])
    c["widths"] = gen_widths(rng)
    if family == "base":
        c["enc"] = {"kind": "name", "name": rng.choice(ENC_NAMES)}
    elif family == "diff":
        c["enc"] = enc_any(True, force_dict=True)
    elif family == "overlap":
        c["enc"] = enc_any(True, overlap=True, force_dict=True)
    elif family == "traps":
        c["enc"] = enc_any(True, traps=True, force_dict=True)
    elif family == "tounicode":
        c["enc"] = enc_any(True)
        c["tounicode"] = gen_tounicode(rng)
    elif family == "widths":
        c["enc"] = enc_any(True)
    elif family in ("fontfile", "ff_std", "ff_traps"):
        c["subtype"] = rng.choice(["Type1", "MMType1"])
        c["enc"] = {"kind": "absent"}
        c["fontfile"] = gen_fontfile(rng, "std" if family == "ff_std" else "array", traps=(family == "ff_traps"))
        if rng.random() < 0.3:
            c["tounicode"] = gen_tounicode(rng)
    elif family == "ff_enc":
        c["subtype"] = rng.choice(["Type1", "MMType1"])
        c["enc"] = enc_any(False)  # explicit /Encoding (name, or dictionary WITH BaseEncoding) overrides the built-in one
        c["fontfile"] = gen_fontfile(rng)
    else:
        raise ValueError(family)
    return c


# --------------------------------------------------------------------------
# expectation (reference model)
# --------------------------------------------------------------------------
def tounicode_map(tu: Optional[Dict[str, Any]]) -> Dict[int, str]:
    m: Dict[int, str] = {}
    if not tu:
        return m
    for kind, ents in tu["blocks"]:
        if kind == "char":
            for code, t in ents:
                m[code] = t
        else:
            for lo, hi, t in ents:
                if isinstance(t, list):
                    for k, tt in enumerate(t):
                        m[lo + k] = tt
                else:
                    for k in range(hi - lo + 1):
                        # ISO 32000-1 9.10.3: the last byte of the destination string is incremented
                        b = bytearray(t.encode("utf-16-be"))
                        assert b[-1] + k <= 0xFF
                        b[-1] += k
                        m[lo + k] = bytes(b).decode("utf-16-be")
    return m


def encoding_glyphs(case: Dict[str, Any]) -> List[Tuple[str, Any]]:
    """per code: (source, value) where value is the expected text as str | tuple | None | SKIP."""
    enc = case["enc"]
    ff = case.get("fontfile")
    out: List[Tuple[str, Any]] = []
    if enc["kind"] == "absent" and ff:
        if ff["style"] == "std":
            t = ENCODINGS["StandardEncoding"]
            return [("builtin_std", t[c]) for c in range(256)]
        names: Dict[int, str] = {}
        for code, nm in ff["entries"]:
            names[code] = nm
        for c in range(256):
            if c in names:
                u = agl.to_unicode(names[c])
                out.append(("builtin:" + name_category(names[c]), u if u else None))
            else:
                out.append(("builtin:unassigned", None))
        return out
    if enc["kind"] == "absent":
        basename = "StandardEncoding"  # standard-14 Latin text fonts: the built-in encoding is StandardEncoding
    elif enc["kind"] == "name":
        basename = enc["name"]
    else:
        basename = enc["base"] or "StandardEncoding"  # Table 114: nonsymbolic, not embedded -> StandardEncoding
    t = ENCODINGS[basename]
    out = [("base:" + basename, t[c]) for c in range(256)]
    if enc["kind"] == "dict":
        code = None
        for x in enc["diff"]:
            if isinstance(x, int):
                code = x
            else:
                u = agl.to_unicode(x)
                out[code] = ("diff:" + name_category(x), u if u else None)
                code += 1
    return out


def expected(case: Dict[str, Any]) -> List[Dict[str, Any]]:
    """per code: {"text": str|tuple|SKIP, "tsrc": str, "adv": float|None, "wsrc": str}"""
    tu = tounicode_map(case.get("tounicode"))
    glyphs = encoding_glyphs(case)
    size = case["size"]
    res = []
    for c in range(256):
        src, val = glyphs[c]
        if c in tu:
            tsrc, text = "tounicode", tu[c]
        else:
            tsrc = src
            text = "(cid:%d)" % c if val is None else val
        adv = None
        wsrc = "none"
        if case["std14"]:
            # judged only when the code's glyph is a standard glyph of the face: named by a base encoding or by a
            # plain list name in Differences (a glyph called 'uni0041' or 'A.alt' is not in the core fonts)
            bf = case["basefont"]
            if (src.startswith("base:") or src == "diff:list") and val is not None and val != SKIP:
                ch = val[0] if isinstance(val, tuple) else val  # tuple: 'space'/'hyphen' glyph under a second code
                if ch in STD14_WIDTHS["Helvetica"]:
                    if bf in STD14_FIXED:
                        adv, wsrc = STD14_FIXED[bf], "std14_fixed"
                    elif ch in STD14_WIDTHS[bf]:
                        adv, wsrc = STD14_WIDTHS[bf][ch], "std14_afm"
            if adv is not None:
                if c in tu:
                    wsrc += "+tounicode"
                adv = adv / 1000.0 * size
        else:
            w = case["widths"]
            k = c - w["first"]
            if 0 <= k < len(w["list"]):
                glyphw, wsrc = w["list"][k], "widths"
            else:
                glyphw, wsrc = (w["missing"] if w["missing"] is not None else 0), "missing" if w["missing"] is not None else "missing_default"
            if case["subtype"] == "Type3":
                # 9.2.4 / 9.6.5: the glyph-space displacement (w, 0) goes through FontMatrix: x component a*w
                adv = glyphw * case["matrix"][0] * size
                wsrc = ("type3_shear_" if case["matrix"][2] else "type3_") + wsrc
                if wsrc.endswith("_missing") and glyphw != 0 and len(w["list"]) < 256:
                    adv = (0.0, adv)  # Table 112 (0) or Table 122 (MissingWidth, in glyph space): either reading
                    wsrc = "type3_missing_either"
            else:
                adv = glyphw / 1000.0 * size
        res.append({"text": text, "tsrc": tsrc, "adv": adv, "wsrc": wsrc})
    return res


# --------------------------------------------------------------------------
# PDF construction
# --------------------------------------------------------------------------
def tounicode_stream(tu: Dict[str, Any]) -> Stream:
    def hx(t: str) -> bytes:
        return b"<" + t.encode("utf-16-be").hex().upper().encode() + b">"

    L: List[bytes] = [b"/CIDInit /ProcSet findresource begin", b"12 dict begin"]
    if tu["begincmap"]:
        L.append(b"begincmap")
    L += [b"/CIDSystemInfo << /Registry (Adobe) /Ordering (UCS) /Supplement 0 >> def",
          b"/CMapName /Adobe-Identity-UCS def", b"/CMapType 2 def",
          b"1 begincodespacerange", b"<00> <FF>", b"endcodespacerange"]
    for kind, ents in tu["blocks"]:
        if kind == "char":
            L.append(b"%d beginbfchar" % len(ents))
            for code, t in ents:
                L.append(b"<%02X> " % code + hx(t))
            L.append(b"endbfchar")
        else:
            L.append(b"%d beginbfrange" % len(ents))
            for lo, hi, t in ents:
                if isinstance(t, list):
                    L.append(b"<%02X> <%02X> [" % (lo, hi) + b" ".join(hx(x) for x in t) + b"]")
                else:
                    L.append(b"<%02X> <%02X> " % (lo, hi) + hx(t))
            L.append(b"endbfrange")
    if tu["begincmap"]:
        L.append(b"endcmap")
    L += [b"CMapName currentdict /CMap defineresource pop", b"end", b"end", b""]
    data = b"\n".join(L)
    if tu["flate"]:
        return Stream({"Filter": N("FlateDecode")}, zlib.compress(data))
    return Stream({}, data)


def type1_program(ff: Dict[str, Any], fontname: str) -> Tuple[bytes, int, int, int]:
    """A Type 1 font program (Adobe Type 1 Font Format, ch. 2): clear-text header with the /Encoding array,
    'currentfile eexec', dummy encrypted bytes and the 512-zero trailer. -> (data, Length1, Length2, Length3)"""
    eol = ff["eol"].encode()
    L: List[bytes] = [b"%!PS-AdobeFont-1.0: " + fontname.encode() + b" 001.001", b"%%CreationDate: Thu Jan 1 2026"]
    if ff["noise"]:
        L.append(b"% dup 65 /B put   (a comment, not program text)")
    L.append(b"11 dict begin")
    info = [b"/FontInfo 9 dict dup begin", b"/version (001.001) readonly def",
            b"/Notice (Copyright \\(c\\) nobody. dup 66 /C put) readonly def" if ff["noise"] else b"/Notice (none) readonly def",
            b"/FullName (" + fontname.encode() + b" Regular) readonly def", b"/FamilyName (VF) readonly def",
            b"/Weight (Medium) readonly def", b"/ItalicAngle 0 def", b"/isFixedPitch false def",
            b"/UnderlinePosition -100 def", b"/UnderlineThickness 50 def", b"end readonly def"]
    encl: List[bytes] = []
    if ff["style"] == "std":
        encl.append(b"/Encoding StandardEncoding def")
    else:
        encl.append(b"/Encoding 256 array")
        encl.append(b"0 1 255 {1 index exch /.notdef put} for")
        ents = [b"dup %d /%s put" % (code, nm.encode("ascii")) for code, nm in ff["entries"]]
        if ff.get("oneline") and ents:
            ents = [b" ".join(ents[k:k + 4]) for k in range(0, len(ents), 4)]  # several entries per line
        encl += ents
        encl.append(b"readonly def")
    rest = [b"/FontName /" + fontname.encode() + b" def", b"/PaintType 0 def", b"/FontType 1 def",
            b"/FontMatrix [0.001 0 0 0.001 0 0] readonly def", b"/FontBBox {-100 -250 1100 900} readonly def",
            b"/UniqueID 4000001 def"]
    if ff["info_first"]:
        L += info + rest[:1] + encl + rest[1:]
    else:
        L += rest[:1] + encl + rest[1:] + info
    L += [b"currentdict end", b"currentfile eexec"]
    clear = eol.join(L) + eol
    # dummy "encrypted" portion: binary bytes (first one not a hex digit/space), containing PS-looking text on purpose
    enc = bytes([0xE9, 0x8D, 0x09, 0xD7]) + b" dup 67 /D put " + bytes((i * 37 + 11) & 0xFF for i in range(300))
    trailer = (b"0" * 64 + b"\n") * 8 + b"cleartomark\n"
    return clear + enc + trailer, len(clear), len(enc), len(trailer)


def code_order(case: Dict[str, Any]) -> List[int]:
    o = case["order"]
    if o == "asc":
        return list(range(256))
    if o == "desc":
        return list(range(255, -1, -1))
    r = random.Random(o)
    lst = list(range(256))
    r.shuffle(lst)
    return lst


def content_stream(case: Dict[str, Any], fname: str = "F1") -> bytes:
    order = code_order(case)
    size = case["size"]
    sz = pdfw.ser(size)
    out: List[bytes] = [b"BT", b"/" + fname.encode() + b" " + sz + b" Tf"]
    lay = case["layout"]
    if lay == "single":
        for i, code in enumerate(order):
            x, y = 36 + (i % 16) * 34, 740 - (i // 16) * 40
            s = pdfw.ser_hex(bytes([code])) if i % 3 == 0 else pdfw.ser_string(bytes([code]))
            out.append(b"1 0 0 1 %d %d Tm %s Tj" % (x, y, s))
    elif lay == "row":
        out.append(b"36 740 Td")
        for r in range(16):
            row = bytes(order[r * 16:(r + 1) * 16])
            out.append((pdfw.ser_string(row) if r % 2 == 0 else pdfw.ser_hex(row)) + b" Tj")
            out.append(b"0 -40 Td")
    else:
        out.append(b"36 740 Td")
        for r in range(16):
            row = bytes(order[r * 16:(r + 1) * 16])
            parts = [pdfw.ser_string(row[0:3]), b"-120", pdfw.ser_hex(row[3:4]), b"55.5", pdfw.ser_string(row[4:11]),
                     b"0", pdfw.ser_string(row[11:16])]
            out.append(b"[" + b" ".join(parts) + b"] TJ")
            out.append(b"0 -40 Td")
    out.append(b"ET")
    return b"\n".join(out) + b"\n"


def font_object(case: Dict[str, Any], doc: pdfw.Doc) -> Dict[str, Any]:
    d: Dict[str, Any] = {"Type": N("Font"), "Subtype": N(case["subtype"])}
    enc = case["enc"]
    if enc["kind"] == "name":
        d["Encoding"] = doc.add(N(enc["name"])) if enc.get("indirect") else N(enc["name"])
    elif enc["kind"] == "dict":
        ed: Dict[str, Any] = {"Type": N("Encoding")}
        if enc["base"]:
            ed["BaseEncoding"] = N(enc["base"])
        if enc["diff"] or not enc.get("omit_empty"):
            da: Any = [x if isinstance(x, int) else N(x) for x in enc["diff"]]
            ed["Differences"] = doc.add(da) if enc.get("indirect") else da
        d["Encoding"] = doc.add(ed) if len(enc["diff"]) % 2 == 0 else ed
    if case["tounicode"]:
        d["ToUnicode"] = doc.add(tounicode_stream(case["tounicode"]))
    if case["subtype"] != "Type3":
        d["BaseFont"] = N(case["basefont"])
    if case["std14"]:
        return d
    w = case["widths"]
    wl: Any = list(w["list"])
    if w["indirect"] == "items":
        wl = [doc.add(x) if i % 5 == 0 else x for i, x in enumerate(wl)]
    elif w["indirect"] == "shared":
        pool: Dict[str, Any] = {}
        reps = [repr(x) for x in wl]
        for i, x in enumerate(list(wl)):
            if reps.count(reps[i]) >= 2:
                if reps[i] not in pool:
                    pool[reps[i]] = doc.add(x)
                wl[i] = pool[reps[i]]
    elif w["indirect"] == "array":
        wl = doc.add(wl)
    d["FirstChar"] = w["first"]
    d["LastChar"] = w["first"] + len(w["list"]) - 1
    d["Widths"] = wl
    if case["subtype"] == "Type3":
        m = case["matrix"]
        a, dd = m[0], m[3]
        d["FontBBox"] = [0, round(-0.25 / dd, 6), round(1.0 / a, 6), round(0.9 / dd, 6)]
        d["FontMatrix"] = list(m)
        # glyph procedures for (some of) the names the encoding uses
        names: List[str] = []
        if enc["kind"] == "dict":
            names = [x for x in enc["diff"] if isinstance(x, str)][:10]
        names += ["A", "space"]
        procs: Dict[Any, Any] = {}
        for nm in names:
            if Name(nm) not in procs:
                procs[Name(nm)] = doc.add(Stream({}, b"%s 0 0 0 750 750 d1\n0 0 750 750 re f\n" % pdfw.ser(w["list"][0])))
        d["CharProcs"] = procs
        d["Resources"] = {"ProcSet": [N("PDF")]}
        if case["descriptor"]:
            fd = {"Type": N("FontDescriptor"), "FontName": N("VFType3"), "Flags": 32, "ItalicAngle": 0,
                  "FontBBox": d["FontBBox"], "Ascent": 900, "Descent": -250, "CapHeight": 700, "StemV": 80}
            if w["missing"] is not None:
                fd["MissingWidth"] = w["missing"]
            d["FontDescriptor"] = doc.add(fd)
        return d
    fd = {"Type": N("FontDescriptor"), "FontName": N(case["basefont"]), "Flags": 32, "FontBBox": [-100, -250, 1100, 900],
          "ItalicAngle": 0, "Ascent": 900, "Descent": -250, "CapHeight": 700, "StemV": 80}
    if w["missing"] is not None:
        fd["MissingWidth"] = w["missing"]
    if case["fontfile"]:
        data, l1, l2, l3 = type1_program(case["fontfile"], case["basefont"].replace("+", ""))
        sd: Dict[str, Any] = {"Length1": l1, "Length2": l2, "Length3": l3}
        if case["fontfile"].get("flate"):
            sd["Filter"] = N("FlateDecode")
            data = zlib.compress(data)
        fd["FontFile"] = doc.add(Stream(sd, data))
    d["FontDescriptor"] = doc.add(fd)
    return d


def build_doc(cases: List[Dict[str, Any]], xref: str = "table", pack: bool = False,
              pages_of: Optional[List[Any]] = None) -> bytes:
    """One page per entry of `pages_of` (default one page per case in order).  An entry is an index into `cases`,
    or a LIST of indices: then the page's /Font dictionary holds these fonts as /F1 /F2 ... in that order and the
    content shows all 256 codes with each of them in turn.  An indirect case that is shown several times (on
    several pages, or under two names of one page) is ONE font object referenced every time; a case with
    "direct" is written inline in every resource dictionary that uses it."""
    doc = pdfw.Doc()
    pages = []
    fontids: List[int] = []
    frefs: Dict[int, Any] = {}
    for ent in (pages_of if pages_of is not None else range(len(cases))):
        fonts: Dict[str, Any] = {}
        content: List[bytes] = []
        for slot, idx in enumerate(ent if isinstance(ent, list) else [ent]):
            case = cases[idx]
            if idx not in frefs:
                fo = font_object(case, doc)
                if case["direct"]:
                    frefs[idx] = fo
                else:
                    frefs[idx] = doc.add(fo)
                    fontids.append(frefs[idx].n)
            fonts["F%d" % (slot + 1)] = frefs[idx]
            content.append(content_stream(case, "F%d" % (slot + 1)))
        pages.append({"content": b"".join(content), "resources": {"Font": fonts}})
    pdfw.page_doc(pages, doc=doc)
    if xref == "stream":
        return doc.build(xref="stream", objstm=fontids if pack else None)
    return doc.build()
