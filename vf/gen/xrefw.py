"""Render a document *history* (revisions of define/override sets) into bytes,
each revision in a chosen physical form: classic cross-reference table,
cross-reference stream, or hybrid (table + /XRefStm); objects stored directly or
packed into object streams.  Written from ISO 32000-1 7.5.4-7.5.8.

A history is a list of revisions: {"objs": {objid: value}, "root": objid,
"info": objid|None}.  Values use the vf.gen.pdfw model (Stream allowed).
"""
from __future__ import annotations

import random
import zlib
from typing import Any, Dict, List, Optional, Sequence, Set, Tuple

from vf.gen.pdfw import Name, Ref, Stream, ser, ser_dict, ser_indirect

EOLS = [b"\n", b"\r\n", b"\r"]


def png_up_encode(rows: bytes, columns: int) -> bytes:
    """PNG predictor 12 (Up) as real writers emit for xref streams."""
    out = bytearray()
    prev = bytes(columns)
    for i in range(0, len(rows), columns):
        row = rows[i:i + columns]
        out.append(2)
        out += bytes((row[j] - prev[j]) & 255 for j in range(columns))
        prev = row
    return bytes(out)


def runs(ids: List[int]) -> List[Tuple[int, int]]:
    """Sorted ids -> [(start, count)] of maximal consecutive runs."""
    out: List[Tuple[int, int]] = []
    for n in sorted(ids):
        if out and out[-1][0] + out[-1][1] == n:
            out[-1] = (out[-1][0], out[-1][1] + 1)
        else:
            out.append((n, 1))
    return out


class Rendered:
    def __init__(self) -> None:
        self.data = b""
        self.containers: Set[int] = set()   # object numbers of xref streams / object streams
        self.forms: List[str] = []
        self.features: Set[str] = set()
        self.packed: Set[Tuple[int, int]] = set()  # (revision, objid) stored in an object stream


def render_history(history: List[Dict[str, Any]], rng: random.Random, forms: Optional[List[str]] = None,
                   container_base: int = 1000, allow_objstm: bool = True, tail_ws: bool = True,
                   never_defined: Optional[Set[int]] = None) -> Rendered:
    """Render all revisions.  `never_defined`: ids that no revision ever defines (may be
    written as free entries to merge table subsections)."""
    R = Rendered()
    out = bytearray(b"%PDF-1.7\n%\xe2\xe3\xcf\xd3\n")
    for _ in range(rng.randint(0, 2)):
        out += b"% " + bytes(rng.choice(b"abcdefghij ") for _ in range(rng.randint(0, 60))) + rng.choice([b"\n", b"\r\n"])
    nextc = container_base
    prev_xref: Optional[int] = None
    size = 0
    all_ids: Set[int] = set()
    for rev in history:
        all_ids.update(rev["objs"])
    never = set(never_defined or ())
    for ri, rev in enumerate(history):
        form = forms[ri] if forms else rng.choice(["table", "stream", "hybrid"])
        R.forms.append(form)
        objs: Dict[int, Any] = rev["objs"]
        offsets: Dict[int, int] = {}
        packed_ids: List[int] = []
        if form != "table" and allow_objstm:
            cand = [n for n, v in objs.items() if not isinstance(v, Stream)]
            rng.shuffle(cand)
            k = rng.choice([0, len(cand) // 2, len(cand)]) if cand else 0
            packed_ids = sorted(cand[:k])
        direct = [n for n in sorted(objs) if n not in packed_ids]
        rng.shuffle(direct)
        for n in direct:
            offsets[n] = len(out)
            out += ser_indirect(n, 0, objs[n], stream_eol=rng.choice([b"\n", b"\r\n"]))
        in_stm: Dict[int, Tuple[int, int]] = {}
        if packed_ids:
            groups: List[List[int]] = []
            ng = rng.choice([1, 1, 2, 3])
            ids = list(packed_ids)
            rng.shuffle(ids)
            for g in range(ng):
                part = ids[g::ng]
                if part:
                    groups.append(part)
            for part in groups:
                bodies = [ser(objs[n]) for n in part]
                offs = []
                pos = 0
                for b in bodies:
                    offs.append(pos)
                    pos += len(b) + 1
                head = b" ".join(b"%d %d" % (n, o) for n, o in zip(part, offs)) + rng.choice([b"\n", b" ", b"\r\n"])
                payload = head + b"\n".join(bodies) + b"\n"
                d: Dict[str, Any] = {"Type": Name("ObjStm"), "N": len(part), "First": len(head)}
                data = payload
                if rng.random() < 0.7:
                    d["Filter"] = Name("FlateDecode")
                    data = zlib.compress(payload)
                sn = nextc
                nextc += 1
                R.containers.add(sn)
                offsets[sn] = len(out)
                out += ser_indirect(sn, 0, Stream(d, data))
                for i, n in enumerate(part):
                    in_stm[n] = (sn, i)
                    R.packed.add((ri, n))
            R.features.add("objstm")
            if len(groups) > 1:
                R.features.add("objstm_multi")
        size = max([size, nextc if (nextc > container_base) else 0] + [n + 1 for n in objs] + [n + 1 for n in offsets])
        trailer: Dict[str, Any] = {"Root": Ref(rev["root"])}
        if rev.get("info") is not None:
            trailer["Info"] = Ref(rev["info"])
        if prev_xref is not None:
            trailer["Prev"] = prev_xref
        eol = rng.choice(EOLS)

        def write_table(entries: Dict[int, int], trailer_d: Dict[str, Any], first: bool, hidden: Sequence[int] = ()) -> int:
            """entries: objid -> offset.  Returns the offset of the 'xref' keyword.  hidden: objects that this
            revision's /XRefStm defines; a hybrid file lists them as free in the table (7.5.8.4)."""
            start = len(out)
            xeol = rng.choice(EOLS)
            R.features.add("xref_kw_eol:" + {b"\n": "LF", b"\r\n": "CRLF", b"\r": "CR"}[xeol])
            out.extend(b"xref" + xeol)
            ids = sorted(entries)
            free0 = first and 0 not in entries
            listed: Dict[int, Optional[int]] = {n: entries[n] for n in ids}
            if free0:
                listed[0] = None
            for n in hidden:
                if n not in listed:
                    listed[n] = None
                    R.features.add("hybrid_hidden_listed_free")
            # optionally merge runs by writing free entries for ids nobody ever defines
            if rng.random() < 0.4:
                keys = sorted(listed)
                for a, b in zip(keys, keys[1:]):
                    gap = list(range(a + 1, b))
                    if gap and len(gap) <= 3 and all(g in never for g in gap):
                        for g in gap:
                            listed[g] = None
                        R.features.add("free_gap_entries")
            sub = runs(sorted(listed))
            if len(sub) > 1:
                R.features.add("multi_subsection")
            for s0, cnt in sub:
                out.extend(b"%d %d" % (s0, cnt) + rng.choice([b"\n", b"\r\n", b"\r"]))
                for n in range(s0, s0 + cnt):
                    e2 = rng.choice([b" \n", b"\r\n", b" \r"])
                    R.features.add("entry_eol:" + {b" \n": "SPLF", b"\r\n": "CRLF", b" \r": "SPCR"}[e2])
                    if listed[n] is None:
                        out.extend(b"%010d %05d f" % (0, 65535 if n == 0 else 0) + e2)
                    else:
                        out.extend(b"%010d %05d n" % (listed[n], 0) + e2)
            td = dict(trailer_d)
            td["Size"] = size
            tsep = rng.choice(EOLS + [b" ", b""])     # the dictionary may start on the keyword's own line
            if tsep in (b" ", b""):
                R.features.add("trailer_dict_on_keyword_line")
            out.extend(b"trailer" + tsep + ser_dict(td) + eol)
            return start

        def write_xref_stream(entries: Dict[int, Tuple[int, int, int]], extra: Dict[str, Any], first: bool, own: bool) -> int:
            """entries: objid -> (type, f2, f3).  Returns offset of the xref stream object."""
            nonlocal nextc, size
            xn = nextc
            nextc += 1
            R.containers.add(xn)
            pos = len(out)
            ents = dict(entries)
            if own:
                ents[xn] = (1, pos, 0)
            size = max(size, xn + 1)
            maxoff = max([e[1] for e in ents.values()] + [pos, 1])
            w2 = rng.choice([w for w in (2, 3, 4, 5) if maxoff < 256 ** w])
            maxf3 = max([e[2] for e in ents.values()] + [0])
            if maxf3 == 0:
                w3 = rng.choice([0, 1, 2])
            elif maxf3 < 256:
                w3 = rng.choice([1, 2])
            else:
                w3 = 2
            all_type1 = all(e[0] == 1 for e in ents.values())
            w1 = 0 if (all_type1 and rng.random() < 0.3) else 1
            use_index = True
            ids = sorted(ents)
            # optionally list ids nobody ever defines as free (type 0) rows inside the ranges
            if rng.random() < 0.5:
                extra_free = []
                for a, b in zip(ids, ids[1:]):
                    gap = list(range(a + 1, b))
                    if gap and len(gap) <= 3 and all(g in never for g in gap) and rng.random() < 0.6:
                        extra_free += gap
                if ids and ids[0] > 1 and (ids[0] - 1) in never and rng.random() < 0.3:
                    extra_free.append(ids[0] - 1)
                if extra_free:
                    ids = sorted(ids + extra_free)
                    R.features.add("xrefstm_free_rows")
            if first and rng.random() < 0.5:
                # no /Index: rows for 0..Size-1, undefined ones are free
                use_index = False
                if w1 == 0:
                    w1 = 1
                ids = list(range(size))
            if any(n not in ents for n in ids):
                w1 = 1
            rows = bytearray()
            for n in ids:
                t, f2, f3 = ents.get(n, (0, 0, 65535 if n == 0 else 0))
                if t == 0 and w3 < 2:
                    f3 = 0
                rows += (t.to_bytes(w1, "big") if w1 else b"") + f2.to_bytes(w2, "big") + (f3.to_bytes(w3, "big") if w3 else b"")
            d: Dict[str, Any] = {"Type": Name("XRef"), "Size": size, "W": [w1, w2, w3]}
            R.features.add("W:%d%d%d" % (w1, w2, w3))
            if use_index:
                idx: List[int] = []
                rr = runs(ids)
                for s0, cnt in rr:
                    idx += [s0, cnt]
                d["Index"] = idx
                if len(rr) > 1:
                    R.features.add("xrefstm_multi_index")
            else:
                R.features.add("xrefstm_no_index")
            d.update(extra)
            data = bytes(rows)
            r = rng.random()
            if r < 0.35:
                cols = w1 + w2 + w3
                if rng.random() < 0.5:
                    data = zlib.compress(png_up_encode(data, cols))
                    d["DecodeParms"] = {"Predictor": 12, "Columns": cols}
                    R.features.add("xrefstm_png_up")
                else:
                    # any PNG filter type per row (None, Sub, Up, Average, Paeth); /Predictor 10..15 all mean
                    # "PNG, the row's own tag decides" (7.4.4.4)
                    from vf.ref.filters import png_encode

                    ftypes = [rng.randrange(5) for _ in range(len(data) // cols)]
                    data = zlib.compress(png_encode(data, 1, cols, 8, ftypes))
                    d["DecodeParms"] = {"Predictor": rng.choice([10, 11, 12, 13, 14, 15]), "Columns": cols}
                    R.features.add("xrefstm_png_mixed")
                    if 3 in ftypes:
                        R.features.add("xrefstm_png_average")
                d["Filter"] = Name("FlateDecode")
            elif r < 0.75:
                data = zlib.compress(data)
                d["Filter"] = Name("FlateDecode")
            out.extend(ser_indirect(xn, 0, Stream(d, data)))
            return pos

        first = ri == 0
        if form == "table":
            # compressed objects cannot occur here (packed_ids is empty)
            prev_xref = write_table(dict(offsets), trailer, first)
            startxref = prev_xref
        elif form == "stream":
            ents: Dict[int, Tuple[int, int, int]] = {n: (1, o, 0) for n, o in offsets.items()}
            for n, (sn, i) in in_stm.items():
                ents[n] = (2, sn, i)
            prev_xref = write_xref_stream(ents, trailer, first, own=True)
            startxref = prev_xref
        else:  # hybrid
            R.features.add("hybrid")
            stm_ents: Dict[int, Tuple[int, int, int]] = {}
            tab_ents: Dict[int, int] = {}
            for n, o in offsets.items():
                if n in R.containers and rng.random() < 0.7:
                    stm_ents[n] = (1, o, 0)
                else:
                    tab_ents[n] = o
            for n, (sn, i) in in_stm.items():
                stm_ents[n] = (2, sn, i)
            own_in_stream = rng.random() < 0.5
            xpos = write_xref_stream(stm_ents, {}, False, own=own_in_stream)
            if not own_in_stream:
                tab_ents[nextc - 1] = xpos
            t2 = dict(trailer)
            t2["XRefStm"] = xpos
            prev_xref = write_table(tab_ents, t2, first, hidden=sorted(stm_ents) if rng.random() < 0.5 else ())
            startxref = prev_xref
        # tail
        seol = rng.choice(EOLS)
        R.features.add("tail_eol:" + {b"\n": "LF", b"\r\n": "CRLF", b"\r": "CR"}[seol])
        out += b"startxref" + seol + b"%d" % startxref + seol + b"%%EOF"
        last = ri == len(history) - 1
        if last and tail_ws:
            t = rng.choice([b"", b"\n", b"\r\n", b"\r", b"\n\n", b" \n", b"\n \t\n"])
            if t not in (b"\n",):
                R.features.add("tail_trailing:%r" % t)
            out += t
        else:
            out += rng.choice([b"\n", b"\r\n"])
    R.data = bytes(out)
    return R
