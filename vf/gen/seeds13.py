"""Feature-covering seed documents for C13 (damaged input), built as object models
(vf.gen.pdfw.Doc) so that every dictionary entry and array element is an
addressable fault site.  Seeds are DETERMINISTIC: known-finding witnesses refer
to (seed, site, fault kind); only ever append new seeds or new objects at the end.
"""
from __future__ import annotations

import random
import zlib
from typing import Any, Callable, Dict, List, Tuple

from vf.gen.pdfw import Doc, HexStr, N, Name, Ref, Stream, font_type1, font_widths

MB = [0, 0, 300, 300]


def _finish(doc: Doc, page_dicts: List[Dict[str, Any]], catalog_extra: Dict[str, Any] = None, info: Dict[str, Any] = None) -> Doc:
    cat = doc.alloc()
    pages = doc.alloc()
    kids = []
    for pd in page_dicts:
        d = {"Type": N("Page"), "Parent": pages, "MediaBox": list(MB)}
        d.update(pd)
        kids.append(doc.add(d))
    doc.set(pages, {"Type": N("Pages"), "Kids": kids, "Count": len(kids)})
    c = {"Type": N("Catalog"), "Pages": pages}
    c.update(catalog_extra or {})
    doc.set(cat, c)
    doc.trailer["Root"] = cat
    if info is not None:
        doc.trailer["Info"] = doc.add(info)
    return doc


def seed_basic() -> Tuple[Doc, Dict[str, Any]]:
    """classic table; standard-14 Type1 font and a TrueType font with widths; two pages; Info."""
    doc = Doc()
    f1 = doc.add(font_type1("Helvetica", Encoding=N("WinAnsiEncoding")))
    f2 = doc.add(font_widths(name="SeedTT", first=32, widths=[500 + (i % 7) * 50 for i in range(95)], subtype="TrueType",
                             encoding={"Type": N("Encoding"), "BaseEncoding": N("WinAnsiEncoding"), "Differences": [65, N("Aacute"), N("uni0042")]}))
    c1 = doc.add(Stream({}, b"BT /F1 12 Tf 20 250 Td 14 TL (Hello seed) Tj T* [(kern) -120 (ed)] TJ /F#202 10 Tf (ABC\\040xyz) ' 2 -13 TD (td) Tj T* (star) Tj 1 2 (quote) \" ET\n"
                            b"q 1 0 0 1 5 5 cm 0.5 g 10 10 50 20 re f 2 w 0 0 m 100 100 l S Q"))
    c2a = doc.add(Stream({}, b"BT /F#202 9 Tf 1 0 0 1 30 200 Tm (second"))
    c2b = doc.add(Stream({}, b" page) Tj ET"))
    res = doc.add({"Font": {"F1": f1, "F 2": f2}, "ProcSet": [N("PDF"), N("Text")]})   # written /F#202
    return _finish(doc, [{"Resources": res, "Contents": c1, "Rotate": 90, "CropBox": [10, 10, 290, 290]},
                         {"Resources": res, "Contents": [c2a, c2b]}],
                   info={"Title": b"Seed basic", "Producer": b"\xfe\xff\x00v\x00f"}), {}


def seed_xrefstm() -> Tuple[Doc, Dict[str, Any]]:
    """cross-reference stream + object stream + Flate content with PNG predictor."""
    from vf.ref.filters import png_encode

    doc = Doc()
    f1 = doc.add(font_type1("Times-Roman"))
    raw = b"BT /F1 11 Tf 25 220 Td (compressed content stream) Tj ET    "
    cols = 12
    raw = raw + b" " * (-len(raw) % cols)
    enc = zlib.compress(png_encode(raw, 1, cols, 8, [[2, 1, 0, 3, 4][i % 5] for i in range(len(raw) // cols)]))
    c1 = doc.add(Stream({"Filter": N("FlateDecode"), "DecodeParms": {"Predictor": 12, "Columns": cols}}, enc))
    ln = doc.add(len(b"BT /F1 9 Tf 25 100 Td (indirect length) Tj ET"))
    c2 = doc.add(Stream({"Length": ln, "Filter": [N("FlateDecode")], "DecodeParms": [None]}, zlib.compress(b"BT /F1 9 Tf 25 100 Td (indirect length) Tj ET")))
    doc.objs[c2.n].d["Length"] = doc.add(len(doc.objs[c2.n].data))
    _finish(doc, [{"Resources": {"Font": {"F1": f1}}, "Contents": [c1, c2]}])
    return doc, {"xref": "stream", "objstm": [n for n, v in doc.objs.items() if not isinstance(v, Stream)]}


def _tounicode(pairs: List[Tuple[int, str]], nbytes: int = 2) -> bytes:
    fmt = "<%0" + str(nbytes * 2) + "X>"
    lines = ["/CIDInit /ProcSet findresource begin", "12 dict begin", "begincmap",
             "/CIDSystemInfo << /Registry (Adobe) /Ordering (UCS) /Supplement 0 >> def", "/CMapName /Adobe-Identity-UCS def",
             "/CMapType 2 def", "1 begincodespacerange", (fmt + " " + fmt) % (0, 256 ** nbytes - 1), "endcodespacerange",
             "%d beginbfchar" % len(pairs)]
    for code, s in pairs:
        lines.append((fmt % code) + " <" + s.encode("utf-16-be").hex().upper() + ">")
    lines += ["endbfchar", "1 beginbfrange", (fmt + " " + fmt + " <0041>") % (0x30, 0x39), "endbfrange",
              "endcmap", "CMapName currentdict /CMap defineresource pop", "end", "end"]
    return "\n".join(lines).encode()


def seed_type0() -> Tuple[Doc, Dict[str, Any]]:
    """Type0 fonts: Identity-H with ToUnicode and W; predefined CJK CMap; vertical font with W2/DW2."""
    doc = Doc()
    fd = doc.add({"Type": N("FontDescriptor"), "FontName": N("SeedCID"), "Flags": 4, "FontBBox": [0, -200, 1000, 800],
                  "ItalicAngle": 0, "Ascent": 800, "Descent": -200, "CapHeight": 700, "StemV": 80})
    tu = doc.add(Stream({}, _tounicode([(1, "A"), (2, "B"), (3, "あ"), (4, "ffi")])))
    cid1 = doc.add({"Type": N("Font"), "Subtype": N("CIDFontType2"), "BaseFont": N("SeedCID"),
                    "CIDSystemInfo": {"Registry": b"Adobe", "Ordering": b"Identity", "Supplement": 0},
                    "FontDescriptor": fd, "DW": 900, "W": [1, [500, 600], 3, 5, 700], "CIDToGIDMap": N("Identity")})
    f1 = doc.add({"Type": N("Font"), "Subtype": N("Type0"), "BaseFont": N("SeedCID"), "Encoding": N("Identity-H"),
                  "DescendantFonts": [cid1], "ToUnicode": tu})
    cid2 = doc.add({"Type": N("Font"), "Subtype": N("CIDFontType0"), "BaseFont": N("SeedJ"),
                    "CIDSystemInfo": doc.add({"Registry": b"Adobe", "Ordering": b"Japan1", "Supplement": 2}),
                    "FontDescriptor": fd, "DW": 1000})
    f2 = doc.add({"Type": N("Font"), "Subtype": N("Type0"), "BaseFont": N("SeedJ-90ms"), "Encoding": N("90ms-RKSJ-H"),
                  "DescendantFonts": [cid2]})
    cid3 = doc.add({"Type": N("Font"), "Subtype": N("CIDFontType0"), "BaseFont": N("SeedV"),
                    "CIDSystemInfo": {"Registry": b"Adobe", "Ordering": b"Japan1", "Supplement": 2},
                    "FontDescriptor": fd, "DW": 1000, "DW2": [880, -1000], "W2": [1, [-900, 500, 880], 10, 20, -800, 400, 800]})
    f3 = doc.add({"Type": N("Font"), "Subtype": N("Type0"), "BaseFont": N("SeedV"), "Encoding": N("Identity-V"),
                  "DescendantFonts": [cid3]})
    from vf.gen.ttf07 import build_ttf

    ttf = build_ttf({"subtables": [{"pid": 3, "eid": 1, "fmt": 4, "segs": [{"s": 0x41, "e": 0x5A, "delta": -0x40}, {"s": 0x3042, "e": 0x3044, "delta": (30 - 0x3042) & 0xFFFF}]},
                                   {"pid": 1, "eid": 0, "fmt": 0, "gids": [0] * 256}], "extra_tables": ["head", "maxp"]})
    fd4 = doc.add({"Type": N("FontDescriptor"), "FontName": N("SeedTTF"), "Flags": 4, "FontBBox": [0, -200, 1000, 800], "ItalicAngle": 0, "Ascent": 800,
                   "Descent": -200, "CapHeight": 700, "StemV": 80, "FontFile2": doc.add(Stream({"Length1": len(ttf)}, ttf))})
    cid4 = doc.add({"Type": N("Font"), "Subtype": N("CIDFontType2"), "BaseFont": N("SeedTTF"),
                    "CIDSystemInfo": {"Registry": b"Adobe", "Ordering": b"Identity", "Supplement": 0}, "FontDescriptor": fd4, "DW": 800})
    f4 = doc.add({"Type": N("Font"), "Subtype": N("Type0"), "BaseFont": N("SeedTTF"), "Encoding": N("Identity-H"), "DescendantFonts": [cid4]})
    c = doc.add(Stream({}, b"BT /F1 12 Tf 20 260 Td <000100020003> Tj [<0004> 50 <0031>] TJ /F2 12 Tf 0 -20 Td <82A082A2> Tj "
                           b"/F3 12 Tf 200 -10 Td <00010002000B> Tj /F4 10 Tf -100 -30 Td <00010002001E> Tj ET"))
    return _finish(doc, [{"Resources": {"Font": {"F1": f1, "F2": f2, "F3": f3, "F4": f4}}, "Contents": c}]), {}


def seed_type3() -> Tuple[Doc, Dict[str, Any]]:
    """Type3 font with CharProcs, Differences, own Resources; MMType1 with ToUnicode."""
    doc = Doc()
    gA = doc.add(Stream({}, b"500 0 0 0 400 700 d1 0 0 400 700 re f"))
    gB = doc.add(Stream({}, b"600 0 d0 0 0 m 500 0 l 250 700 l h f"))
    f1 = doc.add({"Type": N("Font"), "Subtype": N("Type3"), "FontBBox": [0, 0, 1000, 1000], "FontMatrix": [0.001, 0, 0, 0.001, 0, 0],
                  "CharProcs": {"A": gA, "B": gB}, "Encoding": {"Type": N("Encoding"), "Differences": [65, N("A"), N("B")]},
                  "FirstChar": 65, "LastChar": 66, "Widths": [500, 600], "Resources": {"ProcSet": [N("PDF")]},
                  "ToUnicode": doc.add(Stream({}, _tounicode([(65, "A"), (66, "B")], 1)))})
    f2 = doc.add({"Type": N("Font"), "Subtype": N("MMType1"), "BaseFont": N("Seed_MM_400_wt"), "FirstChar": 32, "LastChar": 34,
                  "Widths": [250, 300, 350], "FontDescriptor": {"Type": N("FontDescriptor"), "FontName": N("Seed_MM"), "Flags": 32,
                                                                 "FontBBox": [0, -200, 1000, 800], "ItalicAngle": 0, "Ascent": 800,
                                                                 "Descent": -200, "CapHeight": 700, "StemV": 80, "MissingWidth": 444}})
    c = doc.add(Stream({}, b"BT /F1 20 Tf 30 200 Td (ABBA) Tj /F2 10 Tf 0 -30 Td ( !\"#) Tj ET"))
    return _finish(doc, [{"Resources": {"Font": {"F1": f1, "F2": f2}}, "Contents": c}]), {}


def _enc_doc() -> Doc:
    doc = Doc()
    f1 = doc.add(font_type1("Courier"))
    c = doc.add(Stream({"Filter": N("FlateDecode")}, zlib.compress(b"BT /F1 10 Tf 20 150 Td (secret text) Tj ET")))
    meta = doc.add(Stream({"Type": N("Metadata"), "Subtype": N("XML")}, b"<x:xmpmeta xmlns:x='adobe:ns:meta/'></x:xmpmeta>"))
    _finish(doc, [{"Resources": {"Font": {"F1": f1}}, "Contents": c}], catalog_extra={"Metadata": meta, "Lang": b"en-GB"},
            info={"Title": b"Encrypted seed", "Keywords": HexStr(b"a b c")})
    return doc


def seed_rc4() -> Tuple[Doc, Dict[str, Any]]:
    from vf.gen.crypt import StdEncryptor

    doc = _enc_doc()
    enc = StdEncryptor(2, 3, 128, None, b"", b"owner", -3904, random.Random(1301), id0=b"0123456789abcdef", id1=b"0123456789abcdef")
    return doc, {"encryptor": enc}


def seed_aes() -> Tuple[Doc, Dict[str, Any]]:
    from vf.gen.crypt import StdEncryptor

    doc = _enc_doc()
    enc = StdEncryptor(4, 4, 128, "AESV2", b"", b"owner", -1852, random.Random(1302), id0=b"fedcba9876543210", id1=b"fedcba9876543210",
                       encrypt_metadata=False)
    return doc, {"encryptor": enc}


def seed_aes256() -> Tuple[Doc, Dict[str, Any]]:
    from vf.gen.crypt import StdEncryptor

    doc = _enc_doc()
    enc = StdEncryptor(5, 6, 256, "AESV3", b"", b"own", -1028, random.Random(1303), id0=b"A" * 16, id1=b"B" * 16)
    return doc, {"encryptor": enc, "xref": "stream"}


def seed_graphics() -> Tuple[Doc, Dict[str, Any]]:
    """form XObjects (nested), image XObjects (gray, rgb, 1-bit, DCT), inline image, paths, colour spaces, ExtGState."""
    doc = Doc()
    f1 = doc.add(font_type1("Helvetica"))
    im_gray = doc.add(Stream({"Type": N("XObject"), "Subtype": N("Image"), "Width": 5, "Height": 3, "ColorSpace": N("DeviceGray"),
                              "BitsPerComponent": 8, "Filter": N("FlateDecode")}, zlib.compress(bytes(range(15)))))
    im_rgb = doc.add(Stream({"Type": N("XObject"), "Subtype": N("Image"), "Width": 2, "Height": 2, "ColorSpace": N("DeviceRGB"),
                             "BitsPerComponent": 8}, bytes(range(12))))
    im_bit = doc.add(Stream({"Type": N("XObject"), "Subtype": N("Image"), "Width": 9, "Height": 2, "ColorSpace": N("DeviceGray"),
                             "BitsPerComponent": 1, "ImageMask": False, "Decode": [0, 1]}, b"\xaa\x80\x55\x00"))
    im_dct = doc.add(Stream({"Type": N("XObject"), "Subtype": N("Image"), "Width": 1, "Height": 1, "ColorSpace": N("DeviceRGB"),
                             "BitsPerComponent": 8, "Filter": N("DCTDecode")}, b"\xff\xd8\xff\xe0\x00\x10JFIF\x00fake\xff\xd9"))
    icc = doc.add(Stream({"N": 3, "Alternate": N("DeviceRGB")}, b"\x00" * 24))
    inner = doc.add(Stream({"Type": N("XObject"), "Subtype": N("Form"), "BBox": [0, 0, 50, 50], "Matrix": [1, 0, 0, 1, 5, 5],
                            "Resources": {"Font": {"F1": f1}}}, b"BT /F1 6 Tf 1 1 Td (inner) Tj ET 0 0 10 10 re S"))
    outer = doc.add(Stream({"Type": N("XObject"), "Subtype": N("Form"), "BBox": [0, 0, 100, 100], "Matrix": [2, 0, 0, 2, 0, 0],
                            "Resources": {"XObject": {"In": inner}, "Font": {"F1": f1}}},
                           b"q /In Do Q BT /F1 8 Tf 10 40 Td (outer) Tj ET"))
    content = (b"q 50 0 0 30 10 10 cm /Im1 Do Q q 20 0 0 20 80 10 cm /Im2 Do Q q 90 0 0 20 120 10 cm /Im3 Do Q q 10 0 0 10 230 10 cm /Im4 Do Q\n"
               b"/Fm1 Do\n/Cs2 cs 0.5 0.25 scn 1 1 2 2 re f /Cs3 cs 1 sc 2 2 2 2 re f /Cs4 CS 0.5 SCN 3 3 2 2 re S /Cs5 cs 50 10 -10 sc 4 4 2 2 re f\n"
               b"/Cs1 cs 0.1 0.2 0.3 sc /Cs1 CS 0.3 0.2 0.1 SCN 1 0 0 RG 0 1 0 rg 0 0 0 1 k [3 2] 1 d 1.5 w\n"
               b"100 100 m 150 100 l 150 150 l 100 150 l h B 10 200 m 20 220 30 220 40 200 c 60 180 70 200 v 80 220 90 200 y S\n"
               b"200 200 30 30 re W n /GS1 gs\n"
               b"q 16 0 0 16 200 100 cm BI /W 4 /H 4 /BPC 8 /CS /G ID 0123456789abcdef\nEI Q\n"
               b"q 8 0 0 8 230 100 cm BI /W 2 /H 2 /BPC 8 /CS /G /F /AHx /DP << /Predictor 1 >> ID 00ff7f80>\nEI Q\n"
               b"q 8 0 0 8 240 100 cm BI /Width 2 /Height 1 /BitsPerComponent 8 /ColorSpace /DeviceGray /Filter [ /A85 ] ID 5sd~>\nEI Q\n"
               b"BT /F1 10 Tf 20 280 Td (after image) Tj ET")
    c = doc.add(Stream({}, content))
    res = {"Font": {"F1": f1}, "XObject": {"Im1": im_gray, "Im2": im_rgb, "Im3": im_bit, "Im4": im_dct, "Fm1": outer},
           "ColorSpace": {"Cs1": [N("ICCBased"), icc],
                          "Cs2": [N("DeviceN"), [N("InkA"), N("InkB")], N("DeviceRGB"), {"FunctionType": 2, "Domain": [0, 1, 0, 1], "C0": [0, 0, 0], "C1": [1, 1, 1], "N": 1}],
                          "Cs3": [N("Indexed"), N("DeviceRGB"), 1, b"\x00\x00\x00\xff\xff\xff"], "Cs4": [N("Separation"), N("Spot"), N("DeviceGray"), {"FunctionType": 2, "Domain": [0, 1], "N": 1}],
                          "Cs5": [N("Lab"), {"WhitePoint": [0.95, 1, 1.09]}]}, "ExtGState": {"GS1": {"Type": N("ExtGState"), "LW": 2, "CA": 0.5}}}
    return _finish(doc, [{"Resources": res, "Contents": c}]), {"output_dir": True}


def seed_nav() -> Tuple[Doc, Dict[str, Any]]:
    """outlines, page labels (number tree with Kids), name tree of destinations, /Dests dict, deep page tree with inheritance."""
    doc = Doc()
    f1 = doc.add(font_type1("Helvetica"))
    cat = doc.alloc()
    root = doc.alloc()
    mid = doc.alloc()
    leafpages = []
    res = doc.add({"Font": {"F1": f1}})
    for i in range(3):
        c = doc.add(Stream({}, b"BT /F1 12 Tf 20 200 Td (nav page %d) Tj ET" % i))
        leafpages.append(doc.add({"Type": N("Page"), "Parent": mid if i else root, "Contents": c}))
    doc.set(mid, {"Type": N("Pages"), "Parent": root, "Kids": leafpages[1:], "Count": 2, "Rotate": 180})
    doc.set(root, {"Type": N("Pages"), "Kids": [leafpages[0], mid], "Count": 3, "MediaBox": list(MB), "Resources": res})
    o_root = doc.alloc()
    o1, o2, o3 = doc.alloc(), doc.alloc(), doc.alloc()
    doc.set(o1, {"Title": b"Chapter 1", "Parent": o_root, "Next": o2, "First": o3, "Last": o3, "Count": 1,
                 "Dest": [leafpages[0], N("XYZ"), 0, 300, None]})
    doc.set(o3, {"Title": b"\xfe\xff\x00S\x00e\x00c", "Parent": o1, "A": {"S": N("GoTo"), "D": b"dest-b"}})
    doc.set(o2, {"Title": b"Chapter 2", "Parent": o_root, "Prev": o1, "Dest": b"dest-a", "SE": doc.add({"Type": N("StructElem"), "S": N("H1")})})
    doc.set(o_root, {"Type": N("Outlines"), "First": o1, "Last": o2, "Count": 3})
    nt_leaf1 = doc.add({"Limits": [b"dest-a", b"dest-b"], "Names": [b"dest-a", [leafpages[1], N("Fit")], b"dest-b", doc.add({"D": [leafpages[2], N("FitH"), 100]})]})
    nt_leaf2 = doc.add({"Limits": [b"dest-z", b"dest-z"], "Names": [b"dest-z", [leafpages[0], N("Fit")]]})
    nt_root = doc.add({"Kids": [nt_leaf1, nt_leaf2]})
    pl = {"Kids": [doc.add({"Limits": [0, 1], "Nums": [0, {"S": N("r")}, 1, {"S": N("D"), "St": 5, "P": b"A-"}]}),
                   doc.add({"Limits": [2, 2], "Nums": [2, {"S": N("A")}]})]}
    doc.set(cat, {"Type": N("Catalog"), "Pages": root, "Outlines": o_root, "Names": {"Dests": nt_root}, "PageLabels": pl,
                  "Dests": doc.add({"old-dest": [leafpages[0], N("Fit")]}), "PageMode": N("UseOutlines")})
    doc.trailer["Root"] = cat
    return doc, {"nav": True}


def seed_filters() -> Tuple[Doc, Dict[str, Any]]:
    """LZW / ASCII85 / RunLength / ASCIIHex chains, TIFF predictor, abbreviated names."""
    from vf.ref.filters import a85_encode, hex_encode, lzw_encode, rl_encode, tiff2_encode

    doc = Doc()
    f1 = doc.add(font_type1("Helvetica"))
    t1 = b"BT /F1 10 Tf 20 250 Td (lzw then ascii85) Tj ET"
    c1 = doc.add(Stream({"Filter": [N("ASCII85Decode"), N("LZWDecode")]}, a85_encode(lzw_encode(t1))))
    t2 = b"BT /F1 10 Tf 20 230 Td (runlength in hex) Tj ET"
    c2 = doc.add(Stream({"Filter": [N("AHx"), N("RL")], "DecodeParms": [None, None]}, hex_encode(rl_encode(t2))))
    t3 = b"BT /F1 10 Tf 20 210 Td (tiff predictor!!) Tj ET "
    t3 = t3 + b" " * (-len(t3) % 8)
    c3 = doc.add(Stream({"Filter": N("LZWDecode"), "DecodeParms": {"Predictor": 2, "Columns": 8, "Colors": 1, "BitsPerComponent": 8, "EarlyChange": 1}},
                        lzw_encode(tiff2_encode(t3, 1, 8, 8))))
    # PNG predictor over several colour components, the first row already filtered with Paeth / Average
    from vf.ref.filters import png_encode
    t4 = b"BT /F1 10 Tf 20 190 Td (png predictor rgb) Tj ET "
    t4 = t4 + b" " * (-len(t4) % 12)
    c4 = doc.add(Stream({"Filter": N("Fl"), "DecodeParms": {"Predictor": 15, "Columns": 4, "Colors": 3, "BitsPerComponent": 8}},
                        zlib.compress(png_encode(t4, 3, 4, 8, [[4, 3, 1, 2, 0][i % 5] for i in range(len(t4) // 12)]))))
    return _finish(doc, [{"Resources": {"Font": {"F1": f1}}, "Contents": [c1, c2, c3, c4]}]), {}


def seed_ccitt() -> Tuple[Doc, Dict[str, Any]]:
    from vf.ref.t6 import encode

    doc = Doc()
    f1 = doc.add(font_type1("Helvetica"))
    w = 24
    rows = [[(x // 3 + y) % 2 for x in range(w)] for y in range(6)]
    im = doc.add(Stream({"Type": N("XObject"), "Subtype": N("Image"), "Width": w, "Height": 6, "ColorSpace": N("DeviceGray"),
                         "BitsPerComponent": 1, "Filter": N("CCITTFaxDecode"),
                         "DecodeParms": {"K": -1, "Columns": w, "Rows": 6, "BlackIs1": False, "EncodedByteAlign": False}}, encode(rows, w)))
    c = doc.add(Stream({}, b"q 48 0 0 12 20 20 cm /Fax Do Q BT /F1 10 Tf 20 100 Td (fax) Tj ET"))
    return _finish(doc, [{"Resources": {"Font": {"F1": f1}, "XObject": {"Fax": im}}, "Contents": c}]), {"output_dir": True}


def seed_labels() -> Tuple[Doc, Dict[str, Any]]:
    """page labels as a number tree of indirect nodes, three levels deep (root -> intermediate -> leaves)."""
    doc = Doc()
    f1 = doc.add(font_type1("Helvetica"))
    c1 = doc.add(Stream({}, b"BT /F1 12 Tf 20 200 Td (label page 1) Tj ET"))
    c2 = doc.add(Stream({}, b"BT /F1 12 Tf 20 200 Td (label page 2) Tj ET"))
    leaf1 = doc.add({"Limits": [0, 0], "Nums": [0, doc.add({"S": N("R"), "St": 3})]})
    leaf2 = doc.add({"Limits": [1, 1], "Nums": [1, {"Type": N("PageLabel"), "S": N("a"), "P": HexStr(b"App-")}]})
    mid = doc.add({"Limits": [0, 1], "Kids": [leaf1, leaf2]})
    root = doc.add({"Kids": [mid]})
    res = {"Font": {"F1": f1}}
    return _finish(doc, [{"Resources": res, "Contents": c1}, {"Resources": res, "Contents": c2}],
                   catalog_extra={"PageLabels": root}), {"nav": True}


def seed_forms() -> Tuple[Doc, Dict[str, Any]]:
    """a chain of form XObjects, each with its own resources, drawing the next one: page -> A -> B -> C -> D -> E."""
    doc = Doc()
    f1 = doc.add(font_type1("Helvetica"))
    nxt = None
    for i, name in enumerate(["E", "D", "C", "B", "A"]):
        res: Dict[str, Any] = {"Font": {"F1": f1}}
        content = b"BT /F1 %d Tf 2 %d Td (form %s) Tj ET" % (6 + i, 4 + i, name.encode())
        if nxt is not None:
            res["XObject"] = {"Nx": nxt}
            content = b"q 1 0 0 1 3 3 cm /Nx Do Q " + content
        nxt = doc.add(Stream({"Type": N("XObject"), "Subtype": N("Form"), "BBox": [0, 0, 100 + 10 * i, 100 + 10 * i], "Resources": res},
                             content))
    c = doc.add(Stream({}, b"q /Fa Do Q BT /F1 10 Tf 20 280 Td (forms page) Tj ET"))
    return _finish(doc, [{"Resources": {"Font": {"F1": f1}, "XObject": {"Fa": nxt}}, "Contents": c}]), {}


SEEDS: List[Tuple[str, Callable[[], Tuple[Doc, Dict[str, Any]]]]] = [
    ("basic", seed_basic), ("xrefstm", seed_xrefstm), ("type0", seed_type0), ("type3", seed_type3), ("rc4", seed_rc4),
    ("aes", seed_aes), ("aes256", seed_aes256), ("graphics", seed_graphics), ("nav", seed_nav), ("filters", seed_filters),
    ("ccitt", seed_ccitt), ("labels", seed_labels), ("forms", seed_forms),
]


def build(doc: Doc, opts: Dict[str, Any]) -> bytes:
    return doc.build(xref=opts.get("xref", "table"), objstm=opts.get("objstm"), encryptor=opts.get("encryptor"))
