"""C08 workload generators.

(a) *scenes*: JSON-able descriptions of a page made of glyph boxes, shapes,
    images and (nested) figures with exact dyadic geometry, and a builder that
    turns a scene into real pdfminer layout objects (LTPage, LTChar made with a
    stub font, LTRect, LTLine, LTCurve, LTImage, LTFigure);
(b) small conformant PDFs (paragraphs, columns, rotated and vertical text, TJ
    gaps, form XObjects with text, nested forms, images, paths);
(c) LAParams families.

Scene item formats (lists, so that a case survives JSON):
    ["c", x0, y0, w, h, text, vertical]   a glyph box (w, h >= 0)
    ["r", x0, y0, x1, y1]                 LTRect
    ["l", x0, y0, x1, y1]                 LTLine
    ["v", [x, y, x, y, ...]]              LTCurve through the points
    ["i", x0, y0, x1, y1]                 LTImage
    ["f", [x, y, w, h], [a, b, c, d, e, f], [items...]]   LTFigure
"""
from __future__ import annotations

import random
import re
from typing import Any, Dict, List, Optional, Tuple

from vf.gen.pdfw import Doc, N, Stream, font_widths

LETTERS = "abcdefghijklmnopqrstuvwxyzABCDEFGHIJKLMNOPQRSTUVWXYZ0123456789.,;:-!?"
BLANKS = ["", " ", " ", "\t", "\n", "\xa0", "　", "  ", "\r\n"]
ODD_TEXTS = ["fi", "(cid:12)", "é", "一", "\U0001f600", "\n", "x\ny", "\x00", "a b"]


def q(rng: random.Random, lo: float, hi: float, den: int = 4) -> float:
    """A dyadic rational in [lo, hi] with denominator `den` (exact in binary floating point)."""
    return rng.randint(int(lo * den), int(hi * den)) / den


def glyph(x0: float, y0: float, w: float, h: float, text: str, vert: int = 0) -> List[Any]:
    return ["c", x0, y0, w, h, text, vert]


def letter(rng: random.Random) -> str:
    r = rng.random()
    if r < 0.9:
        return rng.choice(LETTERS)
    if r < 0.96:
        return rng.choice(ODD_TEXTS)
    return rng.choice(BLANKS)


SIZES = [4, 6, 7.5, 8, 10, 12, 12, 16, 24, 36]
WFRAC = [0.25, 0.5, 0.5, 0.5, 0.625, 0.75, 1]


# ----------------------------------------------------------------------------
# glyph blocks: each returns a list of glyph items, at most `n`
# ----------------------------------------------------------------------------
def blk_para(rng: random.Random, ox: float, oy: float, n: int) -> List[Any]:
    size = rng.choice(SIZES)
    lead = size * rng.choice([1, 1.125, 1.25, 1.5, 2, 3])
    align = rng.choice(["left", "left", "right", "center", "ragged"])
    mono = rng.random() < 0.3
    explicit_space = rng.random() < 0.4
    gapf = rng.choice([0.25, 0.5, 1, 2])
    out: List[Any] = []
    y = oy
    width_goal = size * rng.choice([6, 12, 20, 30])
    while len(out) < n:
        line: List[Tuple[float, str]] = []  # (width, text); a negative width is a gap
        x = 0.0
        while x < width_goal and len(line) < 60:
            for _ in range(rng.randint(1, 7)):
                w = size * (0.5 if mono else rng.choice(WFRAC))
                line.append((w, letter(rng)))
                x += w
            g = size * gapf
            if explicit_space:
                line.append((g, " "))
            else:
                line.append((-g, ""))
            x += g
        line.pop()  # trailing gap
        total = sum(abs(w) for w, _ in line)
        shift = {"left": 0.0, "right": width_goal - total, "center": (width_goal - total) / 2,
                 "ragged": q(rng, 0, 4) * size}[align]
        x = ox + shift
        for w, t in line:
            if w < 0:
                x += -w
                continue
            out.append(glyph(x, y, w, size, t))
            x += w
            if len(out) >= n:
                break
        y -= lead
        if rng.random() < 0.15:
            y -= lead * rng.choice([0.5, 1, 2])      # paragraph break
        if rng.random() < 0.2:
            break
    return out[:n]


def blk_grid(rng: random.Random, ox: float, oy: float, n: int) -> List[Any]:
    w = rng.choice(SIZES) * rng.choice([0.5, 1])
    h = rng.choice(SIZES)
    gx = w * rng.choice([0, 0, 0.25, 1, 3, -0.5, -1])
    gy = h * rng.choice([0, 0, 0.25, 0.5, 1, 3, -0.5, -1])
    cols = rng.randint(1, 12)
    rows = max(1, min(n // cols, rng.randint(1, 12)))
    out = []
    colmajor = rng.random() < 0.3
    cells = [(r, c) for r in range(rows) for c in range(cols)]
    if colmajor:
        cells = [(r, c) for c in range(cols) for r in range(rows)]
    for r, c in cells:
        out.append(glyph(ox + c * (w + gx), oy - r * (h + gy), w, h, letter(rng)))
    return out[:n]


def blk_vcol(rng: random.Random, ox: float, oy: float, n: int) -> List[Any]:
    s = rng.choice(SIZES)
    gy = s * rng.choice([0, 0, 0.25, 1, 2.5])
    gx = s * rng.choice([0.25, 0.5, 1, 2, 0])
    vert = 1 if rng.random() < 0.7 else 0
    ncols = rng.randint(1, 6)
    out = []
    x = ox
    for _ in range(ncols):
        k = rng.randint(1, 14)
        y = oy
        for _ in range(k):
            hh = s * (1 if rng.random() < 0.8 else rng.choice([0.5, 0.75]))
            out.append(glyph(x, y - hh, s, hh, letter(rng), vert))
            y -= hh + gy
            if rng.random() < 0.08:
                y -= s * 2
        x -= s + gx
    return out[:n]


def blk_pile(rng: random.Random, ox: float, oy: float, n: int) -> List[Any]:
    s = rng.choice(SIZES)
    k = min(n, rng.randint(2, 25))
    spread = rng.choice([0.25, 1, 2])
    return [glyph(ox + q(rng, -spread, spread) * s, oy + q(rng, -spread, spread) * s,
                  s * rng.choice(WFRAC), s * rng.choice([1, 1, 0.5, 1.5]), letter(rng), 1 if rng.random() < 0.1 else 0)
            for _ in range(k)]


def blk_stairs(rng: random.Random, ox: float, oy: float, n: int) -> List[Any]:
    s = rng.choice(SIZES)
    dy = s * rng.choice([0.125, 0.25, 0.5, 0.75, 1, -0.25, -0.5])
    dx = s * rng.choice([0.5, 1, 1.5, 0, 3])
    k = min(n, rng.randint(2, 20))
    return [glyph(ox + i * dx, oy - i * dy, s * rng.choice([0.5, 1]), s, letter(rng)) for i in range(k)]


def blk_degenerate(rng: random.Random, ox: float, oy: float, n: int) -> List[Any]:
    s = rng.choice(SIZES)
    k = min(n, rng.randint(1, 12))
    out = []
    x = ox
    for _ in range(k):
        r = rng.random()
        w, h = s * 0.5, s
        if r < 0.3:
            w = 0.0
        elif r < 0.55:
            h = 0.0
        elif r < 0.7:
            w = h = 0.0
        out.append(glyph(x, oy, w, h, letter(rng), 1 if rng.random() < 0.15 else 0))
        x += w + s * rng.choice([0, 0, 0.25, 1])
    return out


def blk_blank(rng: random.Random, ox: float, oy: float, n: int) -> List[Any]:
    s = rng.choice(SIZES)
    k = min(n, rng.randint(1, 14))
    mode = rng.choice(["all_blank", "mixed", "empty", "lead_trail"])
    out = []
    x = ox
    for i in range(k):
        if mode == "all_blank":
            t = rng.choice(BLANKS[1:])
        elif mode == "empty":
            t = ""
        elif mode == "lead_trail":
            t = " " if i in (0, k - 1) else letter(rng)
        else:
            t = rng.choice(BLANKS) if rng.random() < 0.5 else letter(rng)
        w = s * rng.choice([0.25, 0.5])
        out.append(glyph(x, oy, w, s, t))
        x += w + s * rng.choice([0, 0, 0.5, 2])
    return out


def blk_scatter(rng: random.Random, bbox: List[float], n: int) -> List[Any]:
    (x0, y0, x1, y1) = bbox
    if x1 <= x0 or y1 <= y0:
        (x0, y0, x1, y1) = (0, 0, 100, 100)
    k = min(n, rng.randint(1, max(1, n)))
    out = []
    for _ in range(k):
        s = rng.choice(SIZES)
        out.append(glyph(q(rng, x0, x1), q(rng, y0, y1), s * rng.choice(WFRAC), s, letter(rng), 1 if rng.random() < 0.1 else 0))
    return out


def blk_offpage(rng: random.Random, bbox: List[float], n: int) -> List[Any]:
    (x0, y0, x1, y1) = bbox
    k = min(n, rng.randint(1, 10))
    out = []
    s = rng.choice(SIZES)
    mode = rng.choice(["straddle", "near", "far", "huge_glyph", "row_across_edge"])
    for i in range(k):
        if mode == "straddle":
            x = rng.choice([x0 - s / 2, x1 - s / 4, q(rng, x0, max(x0, x1))])
            y = rng.choice([y0 - s / 2, y1 - s / 2, q(rng, y0, max(y0, y1))])
            out.append(glyph(x, y, s * 0.5, s, letter(rng)))
        elif mode == "near":
            x = rng.choice([x0 - 3 * s - i * s, x1 + s + i * s])
            out.append(glyph(x, rng.choice([y0 - 2 * s, y1 + s, (y0 + y1) / 2]), s * 0.5, s, letter(rng)))
        elif mode == "far":
            big = float(rng.choice([2 ** 16, 2 ** 20, 10 ** 6, -(2 ** 20), -(10 ** 6)]))
            out.append(glyph(big + i * s * 0.5, rng.choice([big, 0.0, -big]), s * 0.5, s, letter(rng)))
        elif mode == "huge_glyph":
            hs = float(rng.choice([512, 2048, 4096]))
            out.append(glyph(q(rng, x0 - hs, x0 + 100), q(rng, y0 - hs, y0 + 100), hs * rng.choice([0.5, 1]), hs, letter(rng)))
        else:
            out.append(glyph(x0 - 2 * s + i * s * 0.5, (y0 + y1) / 2, s * 0.5, s, letter(rng)))
    return out


def blk_tiny(rng: random.Random, ox: float, oy: float, n: int) -> List[Any]:
    s = rng.choice([2.0 ** -6, 2.0 ** -10, 0.25, 1.0])
    k = min(n, rng.randint(2, 16))
    gap = s * rng.choice([0, 0.25, 1, 4])
    return [glyph(ox + i * (s + gap), oy, s, s, letter(rng)) for i in range(k)]


def blk_corner(rng: random.Random, ox: float, oy: float, n: int) -> List[Any]:
    """Glyphs that turn a corner in stream order: a horizontal run followed by glyphs stacked under (or over) its
    last glyph, or a vertical stack followed by a run beside its last glyph; also L, U and staircase paths."""
    s = rng.choice(SIZES)
    w = s * rng.choice([0.5, 1, 1])
    gap = s * rng.choice([0, 0, 0.125, 0.25, 0.5])
    vert = 1 if rng.random() < 0.3 else 0
    out: List[Any] = []
    x, y = ox, oy
    legs = rng.choice([2, 2, 2, 3, 4])
    horizontal = rng.random() < 0.6          # direction of the first leg
    for leg in range(legs):
        k = rng.randint(2, 5) if leg == 0 else rng.randint(1, 4)
        sign = rng.choice([1, 1, -1]) if horizontal else rng.choice([-1, -1, 1])
        for i in range(k):
            if leg > 0 or i > 0:
                if horizontal:
                    x += sign * (w + gap)
                else:
                    y += sign * (s + gap)
            out.append(glyph(x, y, w, s, letter(rng), vert))
        horizontal = not horizontal
    return out[:n]


POS_BLOCKS = [(blk_para, 6), (blk_grid, 3), (blk_vcol, 3), (blk_pile, 2), (blk_stairs, 1), (blk_degenerate, 2),
              (blk_blank, 2), (blk_tiny, 1), (blk_corner, 3)]


def gen_glyphs(rng: random.Random, bbox: List[float], n: int, fams: Optional[Dict[str, int]] = None) -> List[Any]:
    """About n glyphs from a random mixture of blocks inside (and around) bbox."""
    out: List[Any] = []
    (x0, y0, x1, y1) = bbox
    if x1 - x0 < 8 or y1 - y0 < 8:
        (x0, y0, x1, y1) = (x0, y0, x0 + 64, y0 + 64)
    names = [b for b, w in POS_BLOCKS for _ in range(w)]
    guard = 0
    while len(out) < n and guard < 200:
        guard += 1
        left = n - len(out)
        r = rng.random()
        if r < 0.08:
            blk = blk_scatter(rng, bbox, min(left, rng.choice([3, 10, 40, left])))
            name = "scatter"
        elif r < 0.14:
            blk = blk_offpage(rng, bbox, left)
            name = "offpage"
        else:
            f = rng.choice(names)
            ox = q(rng, x0, x0 + (x1 - x0) * 0.8)
            oy = q(rng, y0 + (y1 - y0) * 0.1, y1)
            blk = f(rng, ox, oy, left)
            name = f.__name__[4:]
        if rng.random() < 0.12 and blk:      # duplicates at identical positions
            m = rng.randint(1, 3)
            picks = [rng.choice(blk) for _ in range(min(len(blk), rng.randint(1, 4)))]
            for p in picks:
                at = blk.index(p) + 1 if rng.random() < 0.5 else len(blk)
                for _ in range(m):
                    blk.insert(at, list(p))
            name = name + "+dup"
            blk = blk[:left]
        order = rng.random()
        if order < 0.12:
            rng.shuffle(blk)
        elif order < 0.18:
            blk.reverse()
        out.extend(blk)
        if fams is not None:
            for part in name.split("+"):
                fams[part] = fams.get(part, 0) + 1
    if rng.random() < 0.1:
        rng.shuffle(out)
    return out[:n]


def gen_shapes(rng: random.Random, bbox: List[float], k: int) -> List[Any]:
    (x0, y0, x1, y1) = bbox
    if x1 <= x0 or y1 <= y0:
        (x0, y0, x1, y1) = (0, 0, 100, 100)
    out: List[Any] = []
    for _ in range(k):
        ax, ay = q(rng, x0 - 20, x1), q(rng, y0 - 20, y1)
        w, h = rng.choice([0, 0.5, 10, 100, 300.25]), rng.choice([0, 0.5, 10, 100, 300.25])
        kind = rng.choice(["r", "r", "l", "v", "i"])
        if kind in ("r", "i"):
            out.append([kind, ax, ay, ax + w, ay + h])
        elif kind == "l":
            out.append(["l", ax, ay, ax + w, ay + h * rng.choice([0, 1, -1])])
        else:
            pts: List[float] = []
            for _ in range(rng.randint(2, 6)):
                pts += [q(rng, x0, x1), q(rng, y0, y1)]
            out.append(["v", pts])
    return out


def gen_figure(rng: random.Random, bbox: List[float], n: int, depth: int, fams: Dict[str, int]) -> List[Any]:
    (x0, y0, x1, y1) = bbox
    if x1 - x0 < 16 or y1 - y0 < 16:
        (x0, y0, x1, y1) = (x0, y0, x0 + 128, y0 + 128)
    fx, fy = q(rng, x0, (x0 + x1) / 2), q(rng, y0, (y0 + y1) / 2)
    fw, fh = q(rng, 0, (x1 - x0) / 2), q(rng, 0, (y1 - y0) / 2)
    matrix = rng.choice([[1, 0, 0, 1, 0, 0], [1, 0, 0, 1, 0, 0], [2, 0, 0, 2, 0, 0], [1, 0, 0, 1, 16, -8], [0, 1, -1, 0, 300, 0],
                         [0.5, 0, 0, 0.5, 10, 10], [1, 0, 0, -1, 0, 500]])
    # glyph coordinates are device coordinates (the interpreter has already applied the CTM); the figure
    # box is whatever the form's BBox says, so glyphs may well lie outside of it
    inner = [fx, fy, fx + max(fw, 32), fy + max(fh, 32)] if rng.random() < 0.7 else bbox
    kids: List[Any] = gen_glyphs(rng, inner, n, fams)
    shapes = gen_shapes(rng, inner, rng.choice([0, 0, 1, 3]))
    for s in shapes:
        kids.insert(rng.randint(0, len(kids)), s)
    fams["figure"] = fams.get("figure", 0) + 1
    if depth < 3 and rng.random() < 0.35:
        sub = gen_figure(rng, inner, rng.choice([0, 1, 5, 20]), depth + 1, fams)
        kids.insert(rng.randint(0, len(kids)), sub)
        fams["nested_figure"] = fams.get("nested_figure", 0) + 1
    return ["f", [fx, fy, fw, fh], matrix, kids]


PAGE_BOXES = [[0, 0, 612, 792]] * 6 + [[0, 0, 595.25, 842], [0, 0, 200, 100], [0, 0, 50, 50], [-306, -396, 306, 396],
                                       [-0.5, -0.75, 611.5, 791.25], [100, 100, 400, 500], [0, 0, 2048, 2048], [0, 0, 0, 0],
                                       [0, 0, 1, 1], [-1000, -1000, -400, -200], [0, 0, 4096, 64]]


def gen_scene(rng: random.Random, n: int, la_family: str, dense_cap: int = 100, la: Optional[Dict[str, Any]] = None) -> Dict[str, Any]:
    """A whole page with about n glyphs (page level + figures).

    Hundreds of glyphs piled into a few grid cells make the hierarchical grouping cubic (every box
    lies "between" every pair): pages smaller than 300 x 400 and figures take at most dense_cap glyphs."""
    bbox = list(rng.choice(PAGE_BOXES))
    if (bbox[2] - bbox[0]) * (bbox[3] - bbox[1]) < 300 * 400:
        n = min(n, dense_cap)
    fams: Dict[str, int] = {}
    nfig = rng.choice([0, 0, 0, 1, 1, 2, 3]) if n > 0 or rng.random() < 0.5 else 0
    if n >= 150:    # big pages: keep the glyphs at page level most of the time
        nfig = rng.choice([0, 0, 1])
    in_fig = [0] * nfig
    top = n
    for i in range(nfig):
        k = rng.choice([0, 1, 2, n // 8, n // 4, n // 2])
        k = min(k, top, dense_cap)
        in_fig[i] = k
        top -= k
    items: List[Any] = gen_glyphs(rng, bbox, top, fams)
    for s in gen_shapes(rng, bbox, rng.choice([0, 0, 1, 2, 5]) if n < 150 else rng.choice([0, 1])):
        items.insert(rng.randint(0, len(items)), s)
    for k in in_fig:
        items.insert(rng.randint(0, len(items)), gen_figure(rng, bbox, k, 1, fams))
    if rng.random() < 0.15:     # a figure without any child (a form that painted nothing): the analysis must keep it
        for _ in range(rng.choice([1, 1, 2])):
            empty = ["f", [q(rng, 0, 100), q(rng, 0, 100), rng.choice([0, 10, 200]), rng.choice([0, 10, 200])], [1, 0, 0, 1, 0, 0], []]
            if rng.random() < 0.3:
                empty = ["f", [0, 0, 50, 50], [1, 0, 0, 1, 0, 0], [empty]]
            items.insert(rng.randint(0, len(items)), empty)
        fams["empty_figure"] = fams.get("empty_figure", 0) + 1
    return {"bbox": bbox, "rotate": rng.choice([0, 0, 0, 90]), "items": items, "la": la if la is not None else gen_la(rng, la_family),
            "la_family": la_family, "blocks": fams}


WHITES = [" ", " ", " ", "\xa0", "\t", "\u3000", "  ", "\n"]


def blk_blank_only(rng: random.Random, ox: float, oy: float, n: int) -> List[Any]:
    """Glyphs that can only form blank lines: runs of white-space glyphs (any size), runs of zero-height
    glyphs and lone zero-width glyphs (each a line of zero area whatever its text)."""
    out: List[Any] = []
    y = oy
    for _ in range(rng.randint(1, 4)):
        s = rng.choice(SIZES)
        mode = rng.choice(["white", "white", "white", "zero_height", "lone_zero_width"])
        x = ox + s * rng.choice([0, 0, 1, 2.5])
        k = 1 if mode == "lone_zero_width" else rng.randint(1, 8)
        for _ in range(k):
            w = s * rng.choice([0.25, 0.5, 0.5, 1])
            if mode == "white":
                out.append(glyph(x, y, w, s, rng.choice(WHITES)))
            elif mode == "zero_height":
                out.append(glyph(x, y, w, 0.0, letter(rng) if rng.random() < 0.7 else " "))
            else:
                out.append(glyph(x, y, 0.0, s * rng.choice([0, 1]), letter(rng)))
            x += w + s * rng.choice([0, 0, 0.25, 1, 4])
        y -= s * rng.choice([1, 1.25, 2, 5])
    return out[:n]


def _nest(rng: random.Random, bbox: List[float], depth: int, leaf_items: List[Any]) -> List[Any]:
    """leaf_items wrapped into `depth` figures; the intermediate figures hold no glyph of their own."""
    (x0, y0, x1, y1) = bbox
    if x1 - x0 < 16 or y1 - y0 < 16:
        (x0, y0, x1, y1) = (x0, y0, x0 + 128, y0 + 128)
    item: List[Any] = []
    kids = leaf_items
    for _ in range(depth):
        fx, fy = q(rng, x0, (x0 + x1) / 2), q(rng, y0, (y0 + y1) / 2)
        fw, fh = q(rng, 0, (x1 - x0) / 2), q(rng, 0, (y1 - y0) / 2)
        matrix = rng.choice([[1, 0, 0, 1, 0, 0], [1, 0, 0, 1, 0, 0], [2, 0, 0, 2, 0, 0], [0, 1, -1, 0, 300, 0], [0.5, 0, 0, 0.5, 10, 10]])
        item = ["f", [fx, fy, fw, fh], matrix, kids]
        kids = gen_shapes(rng, bbox, rng.choice([0, 0, 1, 2]))
        kids.insert(rng.randint(0, len(kids)), item)
    return item


def gen_special_scene(rng: random.Random, special: str, la_family: str, la: Dict[str, Any]) -> Dict[str, Any]:
    """Two families in which a container has no text line of its own to group:

    figures_only  the page holds figures (and shapes) only; the glyphs sit 1-3 figures deep, the intermediate
                  figures are glyph-less too; all_texts is set (9 in 10), so every level must be analysed;
    blank_only    every glyph of the page (and of its figures) is white space or has zero area, so that all text
                  lines are blank; sometimes a figure with ordinary text is added next to them."""
    bbox = list(rng.choice(PAGE_BOXES[:12]))
    fams: Dict[str, int] = {special: 1}
    items: List[Any] = gen_shapes(rng, bbox, rng.choice([0, 0, 1, 3]))
    (x0, y0, x1, y1) = bbox
    if x1 - x0 < 8 or y1 - y0 < 8:
        (x0, y0, x1, y1) = (x0, y0, x0 + 64, y0 + 64)

    def origin() -> Tuple[float, float]:
        return q(rng, x0, x0 + (x1 - x0) * 0.8), q(rng, y0 + (y1 - y0) * 0.1, y1)

    if special == "figures_only":
        la["all_texts"] = rng.random() < 0.9
        for _ in range(rng.randint(1, 3)):
            depth = rng.choice([1, 1, 2, 2, 3])
            r = rng.random()
            if r < 0.7:
                leaf = gen_glyphs(rng, bbox, rng.choice([1, 2, 5, 12, 30]), fams)
            elif r < 0.85:
                leaf = blk_blank_only(rng, *origin(), 20)
            else:
                leaf = blk_corner(rng, *origin(), 12)
            for sh in gen_shapes(rng, bbox, rng.choice([0, 0, 1])):
                leaf.insert(rng.randint(0, len(leaf)), sh)
            items.insert(rng.randint(0, len(items)), _nest(rng, bbox, depth, leaf))
            fams["figure_depth_%d" % depth] = fams.get("figure_depth_%d" % depth, 0) + 1
    elif special == "blank_only":
        for _ in range(rng.randint(1, 3)):
            for g in blk_blank_only(rng, *origin(), 30):
                items.insert(rng.randint(0, len(items)) if rng.random() < 0.1 else len(items), g)
        r = rng.random()
        if r < 0.5:
            la["all_texts"] = rng.random() < 0.85
            for _ in range(rng.randint(1, 2)):
                leaf = blk_blank_only(rng, *origin(), 20) if rng.random() < 0.75 else blk_para(rng, *origin(), 15)
                items.insert(rng.randint(0, len(items)), _nest(rng, bbox, rng.choice([1, 1, 2]), leaf))
    else:
        raise ValueError(special)
    return {"bbox": bbox, "rotate": 0, "items": items, "la": la, "la_family": la_family, "blocks": fams, "special": special}


# ----------------------------------------------------------------------------
# LAParams families
# ----------------------------------------------------------------------------
BOXES_FLOW = [None, -1, -0.5, 0, 0.5, 1]
LA_FAMILIES = ["default", "typical", "extreme", "zero", "huge", "flow_none", "flow_float", "vertical", "all_texts"]


def gen_la(rng: random.Random, fam: str) -> Dict[str, Any]:
    la: Dict[str, Any] = {"line_overlap": 0.5, "char_margin": 2.0, "line_margin": 0.5, "word_margin": 0.1,
                          "boxes_flow": rng.choice(BOXES_FLOW), "detect_vertical": rng.random() < 0.4,
                          "all_texts": rng.random() < 0.5}
    if fam == "default":
        la["boxes_flow"] = 0.5
        la["detect_vertical"] = False
        la["all_texts"] = False
    elif fam == "typical":
        la.update(line_overlap=rng.choice([0, 0.25, 0.5, 0.75, 1]), char_margin=rng.choice([0.5, 1, 2, 3, 5]),
                  line_margin=rng.choice([0.125, 0.25, 0.5, 1, 2]), word_margin=rng.choice([0, 0.0625, 0.1, 0.25, 0.5, 1]))
    elif fam == "extreme":
        ext = [0, 0.0, 2.0 ** -20, 1e-9, 1e6, 1, 100, 2.0 ** 20]
        la.update(line_overlap=rng.choice(ext), char_margin=rng.choice(ext), line_margin=rng.choice(ext),
                  word_margin=rng.choice(ext))
    elif fam == "zero":
        la.update(line_overlap=0, char_margin=0, line_margin=0, word_margin=0)
        k = rng.choice(["line_overlap", "char_margin", "line_margin", "word_margin", None])
        if k:
            la[k] = rng.choice([0.5, 2.0])
    elif fam == "huge":
        la.update(line_overlap=rng.choice([0.5, 0, 1e6]), char_margin=1e6, line_margin=rng.choice([1e6, 0.5, 50]),
                  word_margin=rng.choice([0.1, 1e6, 0]))
    elif fam == "flow_none":
        la["boxes_flow"] = None
        la.update(char_margin=rng.choice([1, 2, 4]), line_margin=rng.choice([0.25, 0.5, 1]))
    elif fam == "flow_float":
        la["boxes_flow"] = rng.choice([rng.randint(-64, 64) / 64, -1.0, 1.0, 0.0, -1, 0, 1, 0.999, -0.999])
    elif fam == "vertical":
        la["detect_vertical"] = True
        la.update(line_overlap=rng.choice([0.25, 0.5, 0.75]), char_margin=rng.choice([1, 2, 4]), line_margin=rng.choice([0.25, 0.5, 1]))
    elif fam == "all_texts":
        la["all_texts"] = True
        la["detect_vertical"] = rng.random() < 0.5
    else:
        raise ValueError(fam)
    return la


def make_la(la: Dict[str, Any]):
    from pdfminer.layout import LAParams

    return LAParams(line_overlap=la["line_overlap"], char_margin=la["char_margin"], line_margin=la["line_margin"],
                    word_margin=la["word_margin"], boxes_flow=la["boxes_flow"], detect_vertical=bool(la["detect_vertical"]),
                    all_texts=bool(la["all_texts"]))


# ----------------------------------------------------------------------------
# building real layout objects
# ----------------------------------------------------------------------------
class StubFont:
    """The three things LTChar.__init__ asks of a font."""

    def __init__(self, vertical: bool) -> None:
        self.fontname = "C08Stub-V" if vertical else "C08Stub-H"
        self._v = vertical

    def is_vertical(self) -> bool:
        return self._v

    def get_descent(self) -> float:
        return 0.0


_FONTS: Dict[bool, StubFont] = {}
_SHARED: Dict[str, Any] = {}


def build_glyph(item: List[Any]):
    from pdfminer.layout import LTChar
    from pdfminer.pdfcolor import PREDEFINED_COLORSPACE
    from pdfminer.pdfinterp import PDFGraphicState

    (_, x0, y0, w, h, text, vert) = item
    vert = bool(vert)
    font = _FONTS.get(vert)
    if font is None:
        font = _FONTS[vert] = StubFont(vert)
    if "gs" not in _SHARED:
        _SHARED["gs"] = PDFGraphicState()
        _SHARED["ncs"] = PREDEFINED_COLORSPACE["DeviceGray"]
    if vert:
        # unit font size: glyph space box (0, adv, 1, 0); the matrix scales x by the width
        ch = LTChar((w, 0, 0, 1, x0, y0), font, 1, 1, 0, text, h, (0, 1000), _SHARED["ncs"], _SHARED["gs"])  # type: ignore[arg-type]
    else:
        ch = LTChar((1, 0, 0, h, x0, y0), font, 1, 1, 0, text, w, 0, _SHARED["ncs"], _SHARED["gs"])  # type: ignore[arg-type]
    want = (x0, y0, x0 + w, y0 + h)
    if tuple(ch.bbox) != want:
        raise AssertionError("harness: glyph box %r built as %r" % (want, ch.bbox))
    return ch


def build_item(item: List[Any], counts: Dict[str, int]):
    from pdfminer.layout import LTCurve, LTFigure, LTImage, LTLine, LTRect
    from pdfminer.pdftypes import PDFStream

    k = item[0]
    counts[k] = counts.get(k, 0) + 1
    if k == "c":
        return build_glyph(item)
    if k == "r":
        return LTRect(1, (item[1], item[2], item[3], item[4]), stroke=True)
    if k == "l":
        return LTLine(0.5, (item[1], item[2]), (item[3], item[4]), stroke=True)
    if k == "v":
        pts = [(item[1][i], item[1][i + 1]) for i in range(0, len(item[1]), 2)]
        return LTCurve(1, pts, fill=True)
    if k == "i":
        return LTImage("Im%d" % counts[k], PDFStream({"W": 1, "H": 1, "BPC": 8}, b"\x00"), (item[1], item[2], item[3], item[4]))
    if k == "f":
        fig = LTFigure("Fm%d" % counts[k], tuple(item[1]), tuple(item[2]))  # type: ignore[arg-type]
        for sub in item[3]:
            fig.add(build_item(sub, counts))
        return fig
    raise ValueError("unknown scene item %r" % (k,))


def build_page(scene: Dict[str, Any]):
    from pdfminer.layout import LTPage

    page = LTPage(1, tuple(scene["bbox"]), scene.get("rotate", 0))  # type: ignore[arg-type]
    counts: Dict[str, int] = {}
    for it in scene["items"]:
        page.add(build_item(it, counts))
    return page, counts


def count_items(items: List[Any], acc: Optional[Dict[str, int]] = None, depth: int = 0) -> Dict[str, int]:
    acc = acc if acc is not None else {}
    for it in items:
        acc[it[0]] = acc.get(it[0], 0) + 1
        if it[0] == "f":
            acc["maxdepth"] = max(acc.get("maxdepth", 0), depth + 1)
            count_items(it[3], acc, depth + 1)
    return acc


# ----------------------------------------------------------------------------
# generated PDFs
# ----------------------------------------------------------------------------
def _pdfstr(rng: random.Random, k: int) -> bytes:
    s = bytearray()
    for _ in range(k):
        r = rng.random()
        if r < 0.15:
            s += b" "
        else:
            s.append(rng.choice(b"abcdefghijklmnopqrstuvwxyzABCDEFGHIJ0123456789.,"))
    return b"(" + bytes(s) + b")"


def _num(x: float) -> bytes:
    return (b"%d" % x) if float(x).is_integer() else repr(float(x)).encode()


def _text_block(rng: random.Random, fonts: List[str], vfont: Optional[str], x0: float, y0: float, w: float, h: float) -> bytes:
    out: List[bytes] = [b"BT"]
    kind = rng.choice(["para", "para", "columns", "rotated", "vertical", "tj_gaps", "rise", "mixed_sizes"])
    size = rng.choice([6, 8, 10, 12, 12, 18])
    f = rng.choice(fonts).encode()
    if kind == "vertical" and vfont is None:
        kind = "para"
    if kind == "para":
        out.append(b"/%s %s Tf %s TL 1 0 0 1 %s %s Tm" % (f, _num(size), _num(size * rng.choice([1, 1.25, 1.5, 2.5])), _num(x0), _num(y0 + h)))
        for _ in range(rng.randint(1, 7)):
            out.append(_pdfstr(rng, rng.randint(1, 30)) + b" Tj T*")
            if rng.random() < 0.15:
                out.append(b"T*")
    elif kind == "columns":
        for c in range(rng.randint(2, 3)):
            out.append(b"/%s %s Tf %s TL 1 0 0 1 %s %s Tm" % (f, _num(size), _num(size * 1.25), _num(x0 + c * w / 3), _num(y0 + h)))
            for _ in range(rng.randint(1, 6)):
                out.append(_pdfstr(rng, rng.randint(1, 10)) + b" Tj T*")
    elif kind == "rotated":
        m = rng.choice([b"0 1 -1 0", b"0 -1 1 0", b"-1 0 0 -1", b"1 0.5 -0.5 1", b"1 0 0.25 1", b"2 0 0 0.5"])
        out.append(b"/%s %s Tf %s TL %s %s %s Tm" % (f, _num(size), _num(size * 1.25), m, _num(x0 + w / 2), _num(y0 + h / 2)))
        for _ in range(rng.randint(1, 4)):
            out.append(_pdfstr(rng, rng.randint(1, 12)) + b" Tj T*")
    elif kind == "vertical":
        assert vfont is not None
        for c in range(rng.randint(1, 4)):
            out.append(b"/%s %s Tf 1 0 0 1 %s %s Tm" % (vfont.encode(), _num(size), _num(x0 + w - c * size * rng.choice([1, 1.5, 2])), _num(y0 + h)))
            k = rng.randint(1, 12)
            out.append(b"<" + b"".join(b"%04X" % rng.randint(1, 60) for _ in range(k)) + b"> Tj")
    elif kind == "tj_gaps":
        out.append(b"/%s %s Tf 1 0 0 1 %s %s Tm" % (f, _num(size), _num(x0), _num(y0 + h / 2)))
        arr = []
        for _ in range(rng.randint(2, 8)):
            arr.append(_pdfstr(rng, rng.randint(1, 5)))
            arr.append(_num(rng.choice([-1500, -300, -120, -50, 0, 40, 200, 900])))
        out.append(b"[" + b" ".join(arr) + b"] TJ")
        out.append(b"%s Tc %s Tw" % (_num(rng.choice([0, 0.5, 2, -0.5])), _num(rng.choice([0, 1, 4]))))
        out.append(b"0 %s Td " % _num(-size * 1.5) + _pdfstr(rng, 12) + b" Tj 0 Tc 0 Tw")
    elif kind == "rise":
        out.append(b"/%s %s Tf 1 0 0 1 %s %s Tm" % (f, _num(size), _num(x0), _num(y0 + h / 2)))
        for _ in range(rng.randint(2, 6)):
            out.append(b"%s Ts " % _num(rng.choice([0, 2, 4, -2, -3, size / 2, size])) + _pdfstr(rng, rng.randint(1, 4)) + b" Tj")
        out.append(b"0 Ts %s Tz " % _num(rng.choice([100, 50, 200])) + _pdfstr(rng, 5) + b" Tj 100 Tz")
    else:
        out.append(b"1 0 0 1 %s %s Tm" % (_num(x0), _num(y0 + h / 2)))
        for _ in range(rng.randint(2, 6)):
            out.append(b"/%s %s Tf " % (rng.choice(fonts).encode(), _num(rng.choice([4, 8, 12, 20, 0.5]))) + _pdfstr(rng, rng.randint(1, 6)) + b" Tj")
    out.append(b"ET")
    return b" ".join(out)


def _paths(rng: random.Random, x0: float, y0: float, w: float, h: float) -> bytes:
    out = []
    for _ in range(rng.randint(1, 4)):
        a, b = q(rng, x0, x0 + w), q(rng, y0, y0 + h)
        r = rng.random()
        if r < 0.4:
            out.append(b"%s %s %s %s re %s" % (_num(a), _num(b), _num(q(rng, 0, 80)), _num(q(rng, 0, 40)), rng.choice([b"S", b"f", b"B"])))
        elif r < 0.7:
            out.append(b"%s %s m %s %s l S" % (_num(a), _num(b), _num(a + q(rng, -50, 50)), _num(b + q(rng, -50, 50))))
        else:
            out.append(b"%s %s m %s %s %s %s %s %s c %s %s l f" % tuple(_num(v) for v in (a, b, a + 10, b + 20, a + 30, b - 10, a + 40, b, a + 50, b + 5)))
    return b" ".join(out)


_DO = re.compile(rb"/(\w+) Do\b|\bBI /W\b")


def figure_tree(content: bytes, xo: Dict[str, Any]) -> List[Any]:
    """What ISO 32000-1 8.8 / 8.10 make of the Do and BI operators of a generated content stream, as a tree of
    [name, children]: a form XObject is one figure per invocation (children: the invocations in its own content), an
    image XObject or inline image is a figure holding the image ("image"; inline images have no name: "<inline>").
    The generator writes "/" only in front of names and "BI /W" only for inline images, so a scan is exact."""
    out: List[Any] = []
    for m in _DO.finditer(content):
        if m.group(1) is None:
            out.append(["<inline>", "image"])
            continue
        name = m.group(1).decode()
        spec = xo[name]
        out.append([name, "image"] if spec == "image" else [name, figure_tree(spec["content"], spec["xo"])])
    return out


def count_empty(tree: Any) -> int:
    return sum((1 if kids == [] else 0) + (count_empty(kids) if isinstance(kids, list) else 0) for _name, kids in tree)


def gen_pdf(rng: random.Random) -> Dict[str, Any]:
    """-> {"pdf": bytes, "la": {...}, "features": [...]}"""
    doc = Doc()
    feats: set = set()
    widths = [rng.choice([250, 500, 500, 600, 750, 1000, 0]) for _ in range(256)]
    widths[32] = rng.choice([250, 500, 0])
    f1 = doc.add({"Type": N("Font"), "Subtype": N("Type1"), "BaseFont": N(rng.choice(["Helvetica", "Times-Roman", "Courier"]))})
    f2 = doc.add(font_widths("C08W", 0, widths, descent=rng.choice([-200, -250, 0]), ascent=rng.choice([800, 900, 1000])))
    fdv = doc.add({"Type": N("FontDescriptor"), "FontName": N("C08V"), "Flags": 4, "FontBBox": [0, -200, 1000, 800],
                   "ItalicAngle": 0, "Ascent": 800, "Descent": -200, "CapHeight": 700, "StemV": 80})
    cidv = doc.add({"Type": N("Font"), "Subtype": N("CIDFontType0"), "BaseFont": N("C08V"),
                    "CIDSystemInfo": {"Registry": b"Adobe", "Ordering": b"Japan1", "Supplement": 2},
                    "FontDescriptor": fdv, "DW": 1000, "DW2": [880, -1000]})
    f3 = doc.add({"Type": N("Font"), "Subtype": N("Type0"), "BaseFont": N("C08V"), "Encoding": N("Identity-V"),
                  "DescendantFonts": [cidv]})
    fontres = {"F1": f1, "F2": f2, "F3": f3}
    img = doc.add(Stream({"Type": N("XObject"), "Subtype": N("Image"), "Width": 1, "Height": 1, "ColorSpace": N("DeviceGray"),
                          "BitsPerComponent": 8}, b"\x7f"))

    mode = rng.choice(["mixed"] * 6 + ["forms_only", "blank_only"])

    def blank_block(x0: float, y0: float) -> bytes:
        size = rng.choice([8, 10, 12, 18])
        out = [b"BT /%s %s Tf %s TL 1 0 0 1 %s %s Tm" % (rng.choice([b"F1", b"F2"]), _num(size), _num(size * 1.25), _num(x0), _num(y0))]
        for _ in range(rng.randint(1, 4)):
            out.append(b"(" + b" " * rng.randint(1, 6) + b") Tj T*")
        out.append(b"ET")
        return b" ".join(out)

    def form(level: int) -> Any:
        parts = []
        xo: Dict[str, Any] = {"Im1": img}
        deeper = level < 3 and rng.random() < (0.6 if mode == "forms_only" else 0.4)
        if mode == "forms_only":
            nown = 0 if deeper else rng.randint(1, 3)        # intermediate forms paint no text themselves
        else:
            nown = rng.randint(0, 3)
        for _ in range(nown):
            if mode == "blank_only":
                parts.append(blank_block(q(rng, 0, 200), q(rng, 0, 200)))
                continue
            parts.append(_text_block(rng, ["F1", "F2"], "F3", q(rng, 0, 200), q(rng, 0, 200), 200, 100))
        if rng.random() < 0.5:
            parts.append(_paths(rng, 0, 0, 200, 200))
        if rng.random() < 0.4:
            parts.append(b"q 40 0 0 30 %s %s cm /Im1 Do Q" % (_num(q(rng, 0, 100)), _num(q(rng, 0, 100))))
            feats.add("image_in_form")
        sub: Dict[str, Any] = {"Im1": "image"}
        if deeper:
            (xo["Fn"], sub["Fn"]) = form(level + 1)
            parts.append(b"q 1 0 0 1 %s %s cm /Fn Do Q" % (_num(q(rng, 0, 50)), _num(q(rng, 0, 50))))
            feats.add("nested_form_%d" % (level + 1))
        if rng.random() < 0.3:
            (xo["Fe"], sub["Fe"]) = empty_form(level)
            parts.append(b"q 1 0 0 1 7 9 cm /Fe Do Q")
        rng.shuffle(parts)
        d = {"Type": N("XObject"), "Subtype": N("Form"), "BBox": [0, 0, rng.choice([200, 300, 50]), rng.choice([200, 300, 50])],
             "Resources": {"Font": fontres, "XObject": xo}}
        if rng.random() < 0.5:
            d["Matrix"] = rng.choice([[1, 0, 0, 1, 0, 0], [0.5, 0, 0, 0.5, 0, 0], [0, 1, -1, 0, 200, 0], [2, 0, 0, 2, -10, -10]])
        content = b"\n".join(parts)
        return doc.add(Stream(d, content)), {"content": content, "xo": sub}

    def empty_form(level: int) -> Any:
        """A form whose content paints nothing: empty, state changes only, or only the Do of another such form."""
        feats.add("empty_form")
        xo: Dict[str, Any] = {}
        sub: Dict[str, Any] = {}
        content = rng.choice([b"", b"", b"q Q", b"0.5 g 2 w 1 0 0 1 3 3 cm", b"q 1 0 0 1 5 5 cm Q", b"BT /F1 12 Tf 10 10 Td ET", b"10 10 m 20 20 l n"])
        if level < 3 and rng.random() < 0.3:
            (xo["Fe"], sub["Fe"]) = empty_form(level + 1)
            content = rng.choice([b"/Fe Do", b"q /Fe Do Q /Fe Do"])
            feats.add("empty_form_nested")
        d = {"Type": N("XObject"), "Subtype": N("Form"), "BBox": [0, 0, rng.choice([100, 0, 50]), rng.choice([100, 50])],
             "Resources": {"Font": fontres, "XObject": xo}}
        return doc.add(Stream(d, content)), {"content": content, "xo": sub}

    pages = []
    figtrees: List[Any] = []
    for _ in range(rng.choice([1, 1, 1, 2, 3])):
        parts = []
        xo = {"Im1": img}
        nblocks = 0 if mode == "forms_only" else rng.choice([1, 2, 3]) if mode == "blank_only" else rng.choice([0, 1, 2, 3, 5, 8])
        for _ in range(nblocks):
            if mode == "blank_only":
                parts.append(blank_block(q(rng, 20, 400), q(rng, 20, 650)))
                continue
            parts.append(_text_block(rng, ["F1", "F2"], "F3", q(rng, 20, 400), q(rng, 20, 650), rng.choice([150, 300]), rng.choice([60, 120])))
        if rng.random() < 0.5:
            parts.append(_paths(rng, 20, 20, 500, 700))
            feats.add("paths")
        if rng.random() < 0.35:
            parts.append(b"q 100 0 0 80 %s %s cm /Im1 Do Q" % (_num(q(rng, 0, 400)), _num(q(rng, 0, 600))))
            feats.add("image")
        if rng.random() < 0.2:
            parts.append(b"q 20 0 0 20 300 300 cm BI /W 1 /H 1 /CS /G /BPC 8 ID \x55 EI Q")
            feats.add("inline_image")
        sub: Dict[str, Any] = {"Im1": "image"}
        for k in range(rng.choice([1, 1, 2]) if mode == "forms_only" else rng.choice([0, 0, 1, 1, 2])):
            (xo["Fm%d" % k], sub["Fm%d" % k]) = form(1)
            parts.append(b"q 1 0 0 1 %s %s cm /Fm%d Do Q" % (_num(q(rng, 0, 300)), _num(q(rng, 0, 500)), k))
            feats.add("form")
        if rng.random() < 0.4:
            (xo["Fe"], sub["Fe"]) = empty_form(1)
            parts.append(b"q 1 0 0 1 %s %s cm /Fe Do Q" % (_num(q(rng, 0, 300)), _num(q(rng, 0, 500))))
        rng.shuffle(parts)
        figtrees.append(figure_tree(b"\n".join(parts), sub))
        mb = rng.choice([[0, 0, 612, 792], [0, 0, 612, 792], [0, 0, 300, 400], [-100, -100, 500, 700], [50, 50, 562, 742]])
        extra: Dict[str, Any] = {}
        if rng.random() < 0.2:
            extra["Rotate"] = rng.choice([90, 180, 270])
            feats.add("rotate")
        pages.append({"content": b"\n".join(parts), "resources": {"Font": fontres, "XObject": xo}, "mediabox": mb, "extra": extra})
    from vf.gen.pdfw import page_doc

    page_doc(pages, doc)
    fam = rng.choice(LA_FAMILIES)
    la = gen_la(rng, fam)
    if mode != "mixed" and rng.random() < 0.8:
        la["all_texts"] = True
    return {"pdf": doc.build(), "la": la, "la_family": fam, "features": sorted(feats), "npages": len(pages), "mode": mode,
            "figtrees": figtrees}
