"""C09 workload: glyph arrangements on an exact binary grid.

A case is a JSON-able dict

    {"fam": str, "page": [x0, y0, x1, y1], "glyphs": [[x0, y0, w, h], ...],
     "la": {"lo","cm","lm","wm","bf","dv"}, "via": "direct" | "pdf"}

Coordinates are integers in units of 2**-Q of a "unit" (U = 2**Q grid steps);
the float coordinate handed to pdfminer at scale k is ldexp(n, k - Q), exact.
All glyph sizes are multiples of 64 steps and the LAParams values have at most
4 fractional bits, so every documented threshold (line_overlap x min height,
char_margin x max width, word_margin x size, line_margin x height) falls on the
grid and "one dyadic step below / on / above" is +-1 grid step.

Glyph width/height ratios are restricted to {1/2, 1, 3/2, 2} so that the same
arrangement can be written as a PDF with a /Widths font (500/1000/1500/2000).
"""
from __future__ import annotations

import math
import random
from fractions import Fraction
from typing import Any, Dict, List, Optional, Sequence, Tuple

Q = 10
U = 1 << Q

LO = [0.0, 0.125, 0.25, 0.375, 0.5, 0.75, 0.875]
CM = [0.25, 0.5, 1.0, 1.5, 2.0, 4.0]
WM = [0.0625, 0.125, 0.25, 0.5, 1.0, 2.0]
LM = [0.125, 0.25, 0.5, 1.0, 2.0]
BF: List[Optional[float]] = [-1.0, -0.5, 0.0, 0.25, 0.5, 1.0, None]
SIZES = [256, 384, 512, 768, 1024]
RATIOS = [Fraction(1, 2), Fraction(1), Fraction(3, 2), Fraction(2)]

CH_SQUARE = "ABCDEFGHIJKLMNOPQRSTUVWXYZ"
CH_HALF = "abcdefghijklmnopqrstuvwxyz"
CH_WIDE = "0123456789"
CH_15 = "!#$%&*+,-./:;<=>?@"


def glyph_text(i: int, w: int, h: int) -> str:
    r = Fraction(w, h)
    if r == 1:
        s = CH_SQUARE
    elif r == Fraction(1, 2):
        s = CH_HALF
    elif r == 2:
        s = CH_WIDE
    elif r == Fraction(3, 2):
        s = CH_15
    else:
        s = CH_SQUARE  # direct route only
    return s[i % len(s)]


def la_dict(lo=0.5, cm=2.0, lm=0.5, wm=0.1, bf: Optional[float] = 0.5, dv=False) -> Dict[str, Any]:
    return {"lo": lo, "cm": cm, "lm": lm, "wm": wm, "bf": bf, "dv": dv}


def rand_la(rng: random.Random, dv: bool = False, default_p: float = 0.1, **fixed: Any) -> Dict[str, Any]:
    if rng.random() < default_p:
        la = la_dict(dv=dv)
    else:
        la = la_dict(rng.choice(LO), rng.choice(CM), rng.choice(LM), rng.choice(WM), rng.choice(BF), dv)
    la.update(fixed)
    return la


def _thr(param: float, size: int) -> Tuple[int, bool]:
    """-> (floor(param*size), exact?)"""
    f = Fraction(param) * size
    fl = f.numerator // f.denominator
    return fl, f.denominator == 1


def around(rng: random.Random, param: float, size: int, off: Optional[int] = None) -> int:
    """A value one grid step below, on, or above param*size."""
    fl, exact = _thr(param, size)
    if off is None:
        off = rng.choice([-1, 0, 1])
    if exact:
        return fl + off
    return fl + (1 if off > 0 else 0)  # not on the grid: nearest below / above


def finish(fam: str, glyphs: List[List[int]], la: Dict[str, Any], rng: Optional[random.Random], via: str = "direct",
           origin: str = "rand") -> Dict[str, Any]:
    """Place the arrangement on a page with >= 1 unit of margin."""
    x0 = min(g[0] for g in glyphs)
    y0 = min(g[1] for g in glyphs)
    x1 = max(g[0] + g[2] for g in glyphs)
    y1 = max(g[1] + g[3] for g in glyphs)
    mx = U + (rng.randrange(0, 4) * 256 if rng else 0)
    my = U + (rng.randrange(0, 4) * 256 if rng else 0)
    # move the arrangement so that its lower-left corner is at (mx, my), page origin at (0, 0)
    dx, dy = mx - x0, my - y0
    page = [0, 0, (x1 - x0) + 2 * mx, (y1 - y0) + 2 * my]
    if via == "direct" and rng is not None and origin == "rand" and rng.random() < 0.25:
        # a page whose origin is not (0, 0): negative or positive MediaBox corner
        ox = rng.choice([-1, 1]) * rng.randrange(1, 6 * U)
        oy = rng.choice([-1, 1]) * rng.randrange(1, 6 * U)
        dx += ox
        dy += oy
        page = [page[0] + ox, page[1] + oy, page[2] + ox, page[3] + oy]
    gl = [[g[0] + dx, g[1] + dy, g[2], g[3]] for g in glyphs]
    return {"fam": fam, "page": page, "glyphs": gl, "la": la, "via": via}


def extent(case: Dict[str, Any]) -> int:
    p = case["page"]
    return max(p[2] - p[0], p[3] - p[1])


def rot_to_vertical(glyphs: List[List[int]]) -> List[List[int]]:
    """Map a left-to-right arrangement to a top-to-bottom one: (x', y') -> (x, y) = (y', -x')."""
    out = []
    for (x0, y0, w, h) in glyphs:
        out.append([y0, -(x0 + w), h, w])
    return out


# --------------------------------------------------------------------------
# shapes
# --------------------------------------------------------------------------
def rand_shape(rng: random.Random, sizes: Sequence[int] = SIZES, square_p: float = 0.7,
               ratios: Sequence[Fraction] = RATIOS) -> Tuple[int, int]:
    h = rng.choice(list(sizes))
    if rng.random() < square_p:
        return h, h
    r = rng.choice(list(ratios))
    w = int(h * r)
    return w, h


# --------------------------------------------------------------------------
# deterministic enumeration of pairs around each character-level threshold
# --------------------------------------------------------------------------
def enum_pairs(which: str) -> List[Dict[str, Any]]:
    out = []
    if which == "overlap":
        for h0 in SIZES:
            for h1 in SIZES:
                for lo in LO:
                    for off in (-1, 0, 1):
                        for up in (False, True):
                            v = around(None, lo, min(h0, h1), off)  # type: ignore[arg-type]
                            if v < 0 or v > min(h0, h1):
                                continue
                            y1 = (h0 - v) if up else (v - h1)
                            g = [[0, 0, h0, h0], [h0 + 16, y1, h1, h1]]
                            out.append(finish("pair:overlap", g, la_dict(lo, 2.0, 0.5, 0.25, 0.5), None))
    elif which == "char_margin":
        for w0 in SIZES:
            for w1 in SIZES:
                for cm in CM:
                    for off in (-1, 0, 1):
                        for rtl in (False, True):
                            gap = around(None, cm, max(w0, w1), off)  # type: ignore[arg-type]
                            x1 = (-gap - w1) if rtl else (w0 + gap)
                            g = [[0, 0, w0, w0], [x1, 0, w1, w1]]
                            out.append(finish("pair:char_margin", g, la_dict(0.5, cm, 0.5, 0.0625, 0.5), None))
    elif which == "word_margin":
        for (w0, h0) in [(256, 256), (512, 512), (1024, 1024), (512, 256), (384, 768)]:
            for h1 in SIZES:
                for r in RATIOS:
                    w1 = int(h1 * r)
                    for wm in WM + [0.1]:
                        for off in (-1, 0, 1):
                            for basis in ("max", "w"):
                                b = max(w1, h1) if basis == "max" else w1
                                if basis == "w" and w1 >= h1:
                                    continue
                                gap = around(None, wm, b, off)  # type: ignore[arg-type]
                                cm = 4.0
                                g = [[0, 0, w0, h0], [w0 + gap, 0, w1, h1]]
                                out.append(finish("pair:word_margin", g, la_dict(0.25, cm, 0.5, wm, 0.5), None))
    return out


# --------------------------------------------------------------------------
# rows of consecutive glyphs (lines and spaces)
# --------------------------------------------------------------------------
def gen_row_glyphs(rng: random.Random, la: Dict[str, Any], n: int, sizes: Sequence[int] = SIZES,
                   rtl_p: float = 0.08, neg_p: float = 0.1, ratios: Sequence[Fraction] = RATIOS) -> List[List[int]]:
    lo, cm, wm = la["lo"], la["cm"], la["wm"]
    w, h = rand_shape(rng, sizes, ratios=ratios)
    gl = [[0, 0, w, h]]
    for _ in range(n - 1):
        px0, py0, pw, ph = gl[-1]
        w, h = rand_shape(rng, sizes, ratios=ratios) if rng.random() < 0.6 else (pw, ph)
        minh, maxw = min(h, ph), max(w, pw)
        # vertical placement
        m = rng.random()
        if m < 0.35:
            y0 = py0
        elif m < 0.65:
            v = around(rng, lo, minh)
            v = max(0, min(minh, v))
            y0 = (py0 + ph - v) if rng.random() < 0.5 else (py0 + v - h)
        elif m < 0.8:
            y0 = py0 + rng.randrange(-h, ph + 1)
        elif m < 0.9:
            y0 = py0 + (rng.randrange(0, abs(ph - h) + 1) if ph >= h else -rng.randrange(0, h - ph + 1))  # nested
        else:
            y0 = py0 + ph + rng.randrange(0, 64) if rng.random() < 0.5 else py0 - h - rng.randrange(0, 64)
        # horizontal gap
        m = rng.random()
        if m < 0.2:
            gap = 0
        elif m < 0.3:
            gap = rng.randrange(0, max(1, int(cm * maxw) // 2 + 1))
        elif m < 0.55:
            gap = around(rng, cm, maxw)
        elif m < 0.8:
            gap = around(rng, wm, max(w, h) if rng.random() < 0.7 else w)
        elif m < 0.8 + neg_p:
            gap = -rng.randrange(1, min(w, pw) + 1)
        else:
            gap = int(cm * maxw) + rng.randrange(1, U)
        if rng.random() < rtl_p and gap >= 0:
            x0 = px0 - gap - w
        else:
            x0 = px0 + pw + gap
        gl.append([x0, y0, w, h])
    return gl


def gen_row(rng: random.Random, via: str = "direct") -> Dict[str, Any]:
    dv = rng.random() < 0.2
    la = rand_la(rng, dv=dv)
    n = rng.randint(2, 8)
    sizes = SIZES if la["cm"] <= 2 else SIZES[:3]
    gl = gen_row_glyphs(rng, la, n, sizes, neg_p=0.02 if dv else 0.1)
    return finish("row_dv" if dv else "row", gl, la, rng, via)


def gen_multirow(rng: random.Random, via: str = "direct") -> Dict[str, Any]:
    """Several rows one after another in the content (line breaks between runs)."""
    la = rand_la(rng)
    rows = rng.randint(2, 4)
    gl: List[List[int]] = []
    y = 0
    for _ in range(rows):
        r = gen_row_glyphs(rng, la, rng.randint(1, 5), SIZES[:3])
        top = max(g[1] + g[3] for g in r)
        x_shift = rng.randrange(-2 * U, 2 * U)
        r = [[g[0] + x_shift, g[1] - top + y, g[2], g[3]] for g in r]
        gl += r
        y = min(g[1] for g in r) - rng.choice([0, 1, 32, 64, 256, 512])
    return finish("multirow", gl, la, rng, via)


def gen_vrow(rng: random.Random, via: str = "direct") -> Dict[str, Any]:
    la = rand_la(rng, dv=True)
    n = rng.randint(2, 8)
    sizes = SIZES if la["cm"] <= 2 else SIZES[:3]
    gl = rot_to_vertical(gen_row_glyphs(rng, la, n, sizes, rtl_p=0.05, neg_p=0.0,
                                       ratios=[Fraction(1, 2), Fraction(1), Fraction(2)]))
    return finish("vrow", gl, la, rng, via)


# --------------------------------------------------------------------------
# stacks of lines (neighbour relation: gap, same height, alignment, overlap)
# --------------------------------------------------------------------------
def make_line(x0: int, y0: int, h: int, n: int, gap: int = 0) -> List[List[int]]:
    return [[x0 + i * (h + gap), y0, h, h] for i in range(n)]


def line_width(h: int, n: int, gap: int = 0) -> int:
    return n * h + (n - 1) * gap


def gen_stack(rng: random.Random, via: str = "direct", vertical: bool = False) -> Dict[str, Any]:
    lm = rng.choice(LM + [0.5])
    la = rand_la(rng, dv=vertical, default_p=0.05, lm=lm, cm=rng.choice([1.0, 2.0]), lo=rng.choice([0.25, 0.5]))
    L = rng.randint(2, 6)
    sizes = [256, 384, 512]
    h = rng.choice(sizes)
    n = rng.randint(2, 7)
    lines: List[Tuple[int, int, int, int]] = [(0, 0, h, n)]  # x0, y0, h, n
    for _ in range(L - 1):
        px0, py0, ph, pn = lines[-1]
        pw = line_width(ph, pn)
        target = rng.choice(["gap", "gap", "height", "left", "right", "centre", "hoverlap", "none", "unaligned"])
        # height
        if target == "height":
            # |h2 - ph| around the tolerance taken from the smaller / from the larger of the two heights
            f = Fraction(lm)
            t = f * ph
            xs = [int(t) - 1, int(t), int(t) + 1]
            if f < 1:
                up = int(t / (1 - f))
                xs += [up, up + 1]
            dn = int(t / (1 + f))
            xs += [-dn, -dn - 1, -int(t), -int(t) - 1, -int(t) + 1]
            x = rng.choice([v for v in xs if v != 0 and ph + v >= 96] or [64])
            h2 = ph + x
        elif rng.random() < 0.75:
            h2 = ph
        else:
            h2 = rng.choice(sizes)
        tol = int(Fraction(lm) * rng.choice([ph, h2]))
        # vertical gap
        if target == "gap":
            gap = max(around(rng, lm, rng.choice([ph, h2])), -h2 // 2)
        elif rng.random() < 0.8:
            gap = rng.randrange(0, max(1, int(Fraction(lm) * min(ph, h2))))
        else:
            gap = rng.choice([-h2 // 4, int(Fraction(lm) * max(ph, h2)) + rng.randrange(1, 256)])
        y2 = py0 - gap - h2
        # width and horizontal position
        n2 = rng.randint(2, 7)
        w2 = line_width(h2, n2)
        off = rng.choice([tol - 1, tol, tol + 1, 0, 0, -(tol - 1), -tol, -(tol + 1), rng.randrange(-U, U)])
        if target == "left":
            x2 = px0 + off
        elif target == "right":
            x2 = px0 + pw - w2 + off
        elif target == "centre":
            x2 = px0 + (pw - w2) // 2 + off
        elif target == "hoverlap":
            x2 = rng.choice([px0 + pw, px0 + pw + 1, px0 + pw - 1, px0 - w2, px0 - w2 - 1, px0 - w2 + 1])
        elif target == "unaligned":
            x2 = px0 + rng.choice([-1, 1]) * (tol + rng.randrange(1, 256))
        else:
            x2 = px0 + rng.choice([0, 0, 0, pw - w2, (pw - w2) // 2])
        lines.append((x2, y2, h2, n2))
    order = list(range(L))
    m = rng.random()
    if m < 0.3:
        order.reverse()
    elif m < 0.6:
        rng.shuffle(order)
    gl: List[List[int]] = []
    for i in order:
        x0, y0, hh, nn = lines[i]
        gl += make_line(x0, y0, hh, nn)
    if vertical:
        gl = rot_to_vertical(gl)
    return finish("vstack" if vertical else "stack", gl, la, rng, via)


# --------------------------------------------------------------------------
# columns of paragraphs (box membership and box order)
# --------------------------------------------------------------------------
def _column(rng: random.Random, x0: int, top: int, h: int, m: int, slots: List[bool], g_in: int,
            ragged: str) -> List[List[List[int]]]:
    """-> list of lines (each a list of glyphs), top to bottom; slots[i] False = empty line slot."""
    pitch = h + g_in
    out = []
    new_par = True
    for i, occ in enumerate(slots):
        if not occ:
            new_par = True
            continue
        n = m if new_par else rng.randint(2, m)
        new_par = False
        y0 = top - h - i * pitch
        if ragged == "left":
            lx = x0
        elif ragged == "right":
            lx = x0 + (m - n) * h
        else:
            lx = x0 + ((m - n) * h) // 2
        out.append(make_line(lx, y0, h, n))
    return out


def _slots(rng: random.Random, total: int, breaks: int) -> List[bool]:
    s = [True] * total
    cand = list(range(1, total - 1))
    rng.shuffle(cand)
    placed = 0
    for c in cand:
        if placed >= breaks:
            break
        if s[c - 1] and s[c + 1]:
            s[c] = False
            placed += 1
    return s


def gen_columns(rng: random.Random, ncol: int, via: str = "direct") -> Dict[str, Any]:
    lm = rng.choice([0.25, 0.5, 1.0, 2.0])
    cm = rng.choice([1.0, 2.0])
    bf = rng.choice(BF)
    la = la_dict(rng.choice([0.25, 0.5]), cm, lm, rng.choice([0.0625, 0.125, 0.1]), bf, False)
    h = rng.choice([256, 384])
    m = rng.randint(3, 6)
    thr = Fraction(lm) * h
    # inside a paragraph the gap g_in is < thr; between paragraphs (one empty slot) it is h + 2*g_in >= thr
    lo_g = max(0, math.ceil((thr - h) / 2))
    hi_g = min(math.ceil(thr) - 1, lo_g + h)
    if hi_g < lo_g:
        hi_g = lo_g
    g_in = rng.choice([lo_g, hi_g, rng.randint(lo_g, hi_g)])
    total = rng.randint(3, 9)
    ragged = rng.choice(["left", "left", "right", "centre"])
    W = m * h
    cols = []
    if ncol == 1:
        cols.append(_column(rng, 0, 0, h, m, _slots(rng, total, rng.randint(1, 3)), g_in, ragged))
    else:
        tall = rng.random() < 0.7
        s1 = _slots(rng, total, rng.randint(0, 2))
        s2 = _slots(rng, total, rng.randint(0, 2))
        # gutter: at least char_margin x size (so that a row-wise content order does not join across), and
        # usually large enough that the documented closeness merges inside the columns first
        gaps = h + 2 * g_in
        need = Fraction(W * gaps, h) if (False in s1 or False in s2) else 0
        G = max(int(Fraction(cm) * h), 64)
        if tall:
            G = max(G, int(need) + 1)
        G += rng.choice([0, 1, 64, 256])
        cols.append(_column(rng, 0, 0, h, m, s1, g_in, ragged))
        cols.append(_column(rng, W + G, 0, h, m, s2, g_in, ragged))
    mode = rng.choice(["reading", "reading", "rows", "reverse", "shuffle"])
    lines: List[List[List[int]]] = []
    if mode == "rows" and ncol == 2:
        allp = [(ln[0][1], ci, ln) for ci, c in enumerate(cols) for ln in c]
        allp.sort(key=lambda t: (-t[0], t[1]))
        lines = [t[2] for t in allp]
    else:
        for c in cols:
            lines += c
        if mode == "reverse":
            lines.reverse()
        elif mode == "shuffle":
            rng.shuffle(lines)
    gl = [g for ln in lines for g in ln]
    return finish("col%d" % ncol, gl, la, rng, via)


# --------------------------------------------------------------------------
# lines with equal tops inside one box (over-printing, side-by-side under a heading)
# --------------------------------------------------------------------------
def gen_overprint(rng: random.Random, via: str = "direct") -> Dict[str, Any]:
    h = rng.choice([256, 512])
    lm = rng.choice([1.0, 2.0])
    la = la_dict(0.5, rng.choice([0.5, 1.0]), lm, 0.125, rng.choice(BF), False)
    tol = int(lm * h)
    kind = rng.choice(["bold", "bold", "heading"])
    lines = []
    if kind == "bold":
        n = rng.randint(3, 12)
        k = rng.randint(2, 4)
        offs = [0] + [rng.randrange(1, tol) for _ in range(k - 1)]
        rng.shuffle(offs)
        for o in offs:
            lines.append(make_line(o, 0, h, n))
        if rng.random() < 0.5:
            lines.append(make_line(rng.choice(offs), -h - rng.randrange(0, max(1, tol)), h, rng.randint(2, n)))
    else:
        n = rng.randint(6, 14)
        nl = rng.randint(2, n - 3)
        nr = rng.randint(2, n - nl - 1)
        g = rng.randrange(0, max(1, tol))
        head = make_line(0, 0, h, n)
        left = make_line(0, -h - g, h, nl)
        right = make_line((n - nr) * h, -h - g, h, nr)
        lines = [head, left, right]
        rng.shuffle(lines)
    gl = [g for ln in lines for g in ln]
    return finish("overprint", gl, la, rng, via)


# --------------------------------------------------------------------------
# tables: many equally spaced, equally sized boxes (equal distances between many pairs of boxes)
# --------------------------------------------------------------------------
def gen_grid(rng: random.Random, via: str = "direct") -> Dict[str, Any]:
    h = rng.choice([256, 384])
    lm = rng.choice([0.25, 0.5])
    la = la_dict(0.5, 1.0, lm, 0.125, rng.choice(BF), False)
    rows, cols = rng.randint(2, 4), rng.randint(2, 4)
    n = rng.randint(1, 3)
    cw = n * h + h + rng.choice([0, 64, 256])  # cell pitch: at least one glyph width (= char_margin) apart
    rh = h + int(lm * h) + rng.choice([0, 1, 64, 256])  # rows at least line_margin x height apart
    cells = []
    for r in range(rows):
        for c in range(cols):
            if rng.random() < 0.1:
                continue
            cells.append(make_line(c * cw, -r * rh, h, n if rng.random() < 0.8 else rng.randint(1, n)))
    if not cells:
        cells.append(make_line(0, 0, h, n))
    m = rng.random()
    if m < 0.3:
        rng.shuffle(cells)
    elif m < 0.5:
        cells.reverse()
    gl = [g for ln in cells for g in ln]
    return finish("grid", gl, la, rng, via)


# --------------------------------------------------------------------------
# anything goes (line/space rule still decides every pair; boxes where decided)
# --------------------------------------------------------------------------
def gen_soup(rng: random.Random, via: str = "direct") -> Dict[str, Any]:
    la = rand_la(rng, dv=rng.random() < 0.15)
    n = rng.randint(2, 14)
    span = rng.choice([2 * U, 4 * U, 6 * U])
    gl = []
    for _ in range(n):
        w, h = rand_shape(rng)
        if gl and rng.random() < 0.5:
            p = gl[-1]
            x0 = p[0] + p[2] + rng.choice([0, 0, 16, 64, -32, 256])
            y0 = p[1] + rng.choice([0, 0, 0, 64, -64, 128])
        else:
            x0 = rng.randrange(0, span) // 16 * 16
            y0 = rng.randrange(0, span) // 16 * 16
        gl.append([x0, y0, w, h])
    return finish("soup", gl, la, rng, via)


# --------------------------------------------------------------------------
# a tall box on the left, a heading and a wide note (and sometimes a middle box) on the right
# --------------------------------------------------------------------------
def gen_col3(rng: random.Random, via: str = "direct") -> Dict[str, Any]:
    import itertools

    h = rng.choice([256, 384])
    lm = rng.choice([0.25, 0.5, 1.0])
    cm = rng.choice([0.5, 1.0, 2.0])
    la = la_dict(rng.choice([0.25, 0.5]), cm, lm, rng.choice([0.0625, 0.125, 0.1]), rng.choice(BF), False)
    thr = Fraction(lm) * h
    g_in = rng.randrange(0, max(1, math.ceil(thr)))  # inside a box: closer than line_margin x height
    pitch = h + g_in
    n = rng.randint(4, 9)  # lines of the left box
    m1 = rng.randint(2, 5)  # its width in glyphs
    H = n * h + (n - 1) * g_in
    G = max(int(Fraction(cm) * h), 64) + rng.choice([0, 0, 64, 256])
    x_r = m1 * h + G
    left = [make_line(0, H - h - i * pitch, h, m1 if i in (0, n - 1) else rng.randint(2, m1)) for i in range(n)]
    ny, nz = rng.randint(1, 3), rng.randint(3, 12)
    zl = rng.choice([1, 1, 2]) if n >= 5 else 1
    head = [make_line(x_r, H - h, h, ny)]
    note = [make_line(x_r, (zl - 1 - i) * pitch, h, nz if i == 0 else rng.randint(2, nz)) for i in range(zl)]
    blocks = [left, head, note]
    if n >= 7 and rng.random() < 0.25:
        # a middle box on the right, separated by at least one empty slot from heading and note
        slot = rng.randint(2, n - zl - 2)
        blocks.append([make_line(x_r, H - h - slot * pitch, h, rng.randint(2, 6))])
        if h + 2 * g_in < thr:  # an empty slot would not separate the boxes: leave the middle box out
            blocks.pop()
    perms = list(itertools.permutations(range(len(blocks))))
    order = rng.choice(perms)
    gl = [g for bi in order for ln in blocks[bi] for g in ln]
    return finish("col3", gl, la, rng, via)


GENERATORS = {
    "col3": gen_col3,
    "row": gen_row,
    "multirow": gen_multirow,
    "vrow": gen_vrow,
    "stack": gen_stack,
    "vstack": lambda rng, via="direct": gen_stack(rng, via, vertical=True),
    "col1": lambda rng, via="direct": gen_columns(rng, 1, via),
    "col2": lambda rng, via="direct": gen_columns(rng, 2, via),
    "overprint": gen_overprint,
    "grid": gen_grid,
    "soup": gen_soup,
}
