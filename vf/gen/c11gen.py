"""Document generator for C11 (converters): pages whose text, font names and XObject
(figure) names carry XML-special, non-BMP, control and very long strings; nested form
XObjects, image XObjects, inline images, rect/line/curve paths, several pages.

Everything is derived from one ``random.Random(seed_str)``.  The generator knows nothing
about pdfminer; the features it put into a document are returned as ``feat`` (coverage
counters and the sub-family of the case).
"""
from __future__ import annotations

import random
from typing import Any, Dict, List, Optional, Tuple

from vf.gen.pdfw import Doc, HexStr, N, Name, Ref, Stream, font_type1, font_widths, ser

# --------------------------------------------------------------------------
# character pools
# --------------------------------------------------------------------------
ASCII = list("abcdefghijklmnopqrstuvwxyzABCXYZ0123456789.,;:!?-_()[]{}/\\*+=#%@~^|`$")
XMLSPECIAL = ["<", ">", "&", '"', "'", "&amp;", "&lt;", "]]>", "<!--", "-->", "<?", "?>", "&#60;", "</text>",
              "<![CDATA[", '"/>', "&x", "<a b='c'>"]
LATIN1 = list("\xe9\xe8\xfc\xf6\xe4\xdf\xf1\xe7\xc5\xd8\xe6\xa3\xa5\xa9\xae\xb0\xb1\xb5\xb6\xb7\xbf\xd7\xf7\xa0\xad")
CP1252 = list("\u20ac\u201a\u0192\u201e\u2026\u2020\u2021\u02c6\u2030\u0160\u2039\u0152\u017d\u2018\u2019\u201c\u201d\u2022\u2013\u2014\u02dc\u2122\u0161\u203a\u0153\u017e\u0178")
SJIS = list("\u3042\u3044\u3046\u3048\u304a\u30ab\u30ad\u30af\u30b1\u30b3\u6f22\u5b57\u65e5\u672c\u8a9e\u3001\u3002\u300c\u300d\uff71\uff72\uff73\u3000\xd7")
BMP = list("\u03b1\u03b2\u03b3\u03a9\u0416\u044f\u05d0\u05d1\u0639\u0631\u0628\u4e2d\u6587\ud55c\uae00\u0e44\u0e17\u0301\u200b\u200e\u2028\u2029\ufeff\ufffd\u2260\u221e\ufb01\ufdfa\uffe5")
# pools for the escape-sequence codecs (iso2022_jp, iso2022_kr, hz): small, so that the same character recurs
# after ASCII and after another character of the pool, i.e. in different shift states
JIS = list("\u3042\u3044\u3046\u30ab\u30ad\u6f22\u5b57\u65e5\u672c\u3001\u3002")
KR = list("\ud55c\uae00\uac00\ub098\ub2e4\uc11c\uc6b8")
ZH = list("\u4e2d\u6587\u6c49\u5b57\u4f60\u597d\u3002\uff0c")
NONBMP = ["\U0001F600", "\U0001D4B3", "\U00020000", "\U0010FFFD", "\U0001F1E9\U0001F1EA", "\U0001F468\u200d\U0001F469", "\U00010348"]
CTRL = [chr(c) for c in list(range(0, 9)) + [0x0B, 0x0C] + list(range(0x0E, 0x20))]   # not XML 1.0 Chars
WS = ["\t", "\n", "\r", "\r\n"]
C1 = ["\x7f", "\x80", "\x85", "\x9f"]
NONCHAR = ["\ufffe", "\uffff"]

PROFILES = ["ascii", "latin1", "cp1252", "sjis", "any", "jis", "kr", "zh"]
PROFILE_POOLS = {
    "ascii": [],
    "latin1": [LATIN1],
    "cp1252": [LATIN1, CP1252],
    "sjis": [SJIS],
    "jis": [JIS, JIS, JIS],
    "kr": [KR, KR, KR],
    "zh": [ZH, ZH, ZH],
    "any": [LATIN1, CP1252, SJIS, BMP, NONBMP, NONBMP],
}

STD14 = ["Helvetica", "Times-Bold", "Courier", "Helvetica-Oblique"]
NAME_WORDS = ["Arial", "ABCDEF+Times", "Bold", "Italic", "MT", "PS", "Fm", "Im", "X", "obj", "Sans-Serif", "0", "font name"]


def tounicode_cmap(mapping: Dict[int, str], nbytes: int, rng: random.Random) -> bytes:
    """A ToUnicode CMap (ISO 32000-1 9.10.3) for code -> UTF-16BE string."""
    def code(c: int) -> bytes:
        return b"<" + (b"%0*X" % (2 * nbytes, c)) + b">"

    def val(s: str) -> bytes:
        return b"<" + s.encode("utf-16-be").hex().upper().encode() + b">"

    out = [b"/CIDInit /ProcSet findresource begin", b"12 dict begin", b"begincmap",
           b"/CIDSystemInfo << /Registry (Adobe) /Ordering (UCS) /Supplement 0 >> def",
           b"/CMapName /Adobe-Identity-UCS def", b"/CMapType 2 def", b"1 begincodespacerange",
           code(0) + b" " + code(256 ** nbytes - 1), b"endcodespacerange"]
    items = sorted(mapping.items())
    chars: List[Tuple[int, str]] = []
    ranges: List[bytes] = []
    i = 0
    while i < len(items):
        c, s = items[i]
        # array-form bfrange for runs of consecutive codes (sometimes)
        j = i
        while j + 1 < len(items) and items[j + 1][0] == items[j][0] + 1 and (items[j + 1][0] & 0xFF) != 0:
            j += 1
        if j > i and rng.random() < 0.3:
            k = min(j, i + rng.randint(1, 5))
            ranges.append(code(c) + b" " + code(items[k][0]) + b" [" + b" ".join(val(items[t][1]) for t in range(i, k + 1)) + b"]")
            i = k + 1
            continue
        chars.append((c, s))
        i += 1
    for b0 in range(0, len(chars), 100):
        blk = chars[b0:b0 + 100]
        out.append(b"%d beginbfchar" % len(blk))
        out.extend(code(c) + b" " + val(s) for c, s in blk)
        out.append(b"endbfchar")
    for b0 in range(0, len(ranges), 100):
        blk2 = ranges[b0:b0 + 100]
        out.append(b"%d beginbfrange" % len(blk2))
        out.extend(blk2)
        out.append(b"endbfrange")
    out += [b"endcmap", b"CMapName currentdict /CMap defineresource pop", b"end", b"end"]
    return b"\n".join(out) + b"\n"


class FontInfo:
    def __init__(self, obj: Any, nbytes: int, codes: List[int], special_codes: List[int]) -> None:
        self.obj = obj
        self.nbytes = nbytes
        self.codes = codes                  # codes the generator draws text from
        self.special_codes = special_codes  # codes whose ToUnicode value comes from a special pool


class DocGen:
    def __init__(self, seed_str: str, tier: str, force: Optional[Dict[str, Any]] = None) -> None:
        self.rng = random.Random(seed_str)
        self.tier = tier
        self.doc = Doc()
        self.feat: Dict[str, Any] = {}
        rng = self.rng
        f = force or {}
        self.profile = f.get("profile") or rng.choice(PROFILES)
        # independent feature switches (each also recorded in feat)
        self.ctrl_text = f.get("ctrl_text", rng.random() < 0.3)
        self.ctrl_font = f.get("ctrl_font", rng.random() < 0.12)
        self.ctrl_fig = f.get("ctrl_fig", rng.random() < 0.12)
        self.nonchar = f.get("nonchar", rng.random() < 0.06)
        self.special_names = f.get("special_names", rng.random() < 0.75)
        self.ws_names = f.get("ws_names", rng.random() < 0.15)
        self.long_names = f.get("long_names", rng.random() < 0.08)
        self.bad_utf8_names = f.get("bad_utf8_names", rng.random() < 0.06)
        self.inline_images = f.get("inline_images", rng.random() < 0.2)
        self.nfig = 0
        self.nimg = 0
        self.maxdepth = 0
        self.npath = {"rect": 0, "line": 0, "curve": 0}
        self._uid = 0

    # ---------------------------------------------------------------- strings
    def special_string(self, allow_ctrl: bool, allow_ws: bool, allow_nonchar: bool) -> str:
        """A ToUnicode target / name fragment from the non-plain pools allowed by the profile."""
        rng = self.rng
        pools: List[List[str]] = [XMLSPECIAL, XMLSPECIAL] + PROFILE_POOLS[self.profile]
        if self.profile in ("latin1", "any"):
            pools.append(C1)
        if allow_ctrl:
            pools += [CTRL, CTRL]
        if allow_ws:
            pools.append(WS)
        if allow_nonchar:
            pools += [NONCHAR, NONCHAR]
        s = rng.choice(rng.choice(pools))
        if rng.random() < 0.2:   # multi-character targets
            s += rng.choice(rng.choice(pools)) if rng.random() < 0.5 else rng.choice(ASCII)
        return s

    def gen_name(self, kind: str) -> bytes:
        """Raw bytes of a /Name (font name or XObject resource name); UTF-8 for non-ASCII."""
        rng = self.rng
        self._uid += 1
        ctrl = self.ctrl_font if kind == "font" else self.ctrl_fig
        if not self.special_names and not ctrl:
            return ("%s%d" % (rng.choice(NAME_WORDS), self._uid)).encode()
        parts: List[str] = []
        for _ in range(rng.randint(1, 4)):
            r = rng.random()
            if r < 0.35:
                parts.append(rng.choice(NAME_WORDS))
            else:
                parts.append(self.special_string(allow_ctrl=ctrl and rng.random() < 0.6, allow_ws=self.ws_names, allow_nonchar=False))
        if ctrl and not any(c in CTRL for p in parts for c in p):
            parts.insert(rng.randint(0, len(parts)), rng.choice(CTRL))
        if self.long_names and rng.random() < 0.6:
            unit = "".join(parts) or "x"
            parts = [unit * (rng.randint(1500, 6000) // len(unit) + 1)]
            self.feat["long_name"] = max(self.feat.get("long_name", 0), len(parts[0]))
        if rng.random() < 0.03:
            parts = []       # the empty name
        b = "".join(parts).encode("utf-8")
        if self.bad_utf8_names and rng.random() < 0.5:
            b += rng.choice([b"\xff", b"\xc3", b"\xe9t\xe9"])      # not UTF-8: pdfminer falls back to another spelling
            self.feat["bad_utf8_name"] = 1
        # uniqueness inside one resource dictionary
        b += ("%d" % self._uid).encode()
        return b

    # ---------------------------------------------------------------- fonts
    def make_font(self) -> FontInfo:
        rng = self.rng
        doc = self.doc
        kind = rng.choice(["simple", "simple", "simple", "simple_plain", "std14", "nodesc", "cid", "cid"])
        if kind == "std14":
            self.feat["font_std14"] = 1
            codes = [c for c in range(32, 127)]
            return FontInfo(font_type1(rng.choice(STD14), Encoding=N("WinAnsiEncoding")), 1, codes, [c for c in b"<>&\"'"])
        if kind == "nodesc":
            self.feat["font_nodesc"] = 1
            d = {"Type": N("Font"), "Subtype": N("TrueType"), "BaseFont": Name(self.gen_name("font")), "FirstChar": 32, "LastChar": 126,
                 "Widths": [500] * 95, "Encoding": N("WinAnsiEncoding")}
            return FontInfo(d, 1, list(range(32, 127)), [c for c in b"<>&\"'"])
        fontname = self.gen_name("font")
        basefont = fontname if rng.random() < 0.7 else self.gen_name("font")
        ascii_codes = [c for c in range(32, 127)]
        if kind == "simple_plain":
            widths = [rng.choice([500, 600, 278, 722]) for _ in range(224)]
            d = font_widths(name="x", first=32, widths=widths, subtype=rng.choice(["TrueType", "Type1"]), encoding=N("WinAnsiEncoding"),
                            missing=rng.choice([0, 500]))
            d["BaseFont"] = Name(basefont)
            d["FontDescriptor"]["FontName"] = Name(fontname)
            codes = ascii_codes + [0x81, 0x8D] * 2       # 0x81/0x8D are undefined in WinAnsi: "(cid:129)"
            self.feat["undefined_codes"] = 1
            return FontInfo(d, 1, codes, [c for c in b"<>&\"'"] + [0x81])
        # ToUnicode targets
        nspecial = rng.randint(4, 18)
        mapping: Dict[int, str] = {}
        if kind == "simple":
            special = rng.sample(range(65, 91), min(nspecial, 26)) + rng.sample(range(128, 256), 4)
            for c in special:
                mapping[c] = self.special_string(self.ctrl_text, True, self.nonchar)
            if rng.random() < 0.5:       # plain entries too (exercise bfrange)
                for c in range(97, 97 + rng.randint(2, 12)):
                    mapping[c] = chr(c).upper()
            tu = doc.add(Stream({}, tounicode_cmap(mapping, 1, rng)))
            widths = [rng.choice([500, 600, 278, 722, 1000]) for _ in range(224)]
            d = font_widths(name="x", first=32, widths=widths, subtype=rng.choice(["TrueType", "Type1"]), encoding=N("WinAnsiEncoding"),
                            missing=500, ToUnicode=tu)
            d["BaseFont"] = Name(basefont)
            d["FontDescriptor"]["FontName"] = Name(fontname)
            if rng.random() < 0.3:
                d["FontDescriptor"] = doc.add(d["FontDescriptor"])
            codes = ascii_codes + special * 3
            return FontInfo(d, 1, codes, special)
        # Type0 / Identity-H|V with a two-byte ToUnicode
        vertical = rng.random() < 0.3
        if vertical:
            self.feat["font_vertical"] = 1
        self.feat["font_cid"] = 1
        plain = list(range(0x20, 0x7F))
        special = rng.sample(range(0x100, 0x3000), nspecial)
        for c in plain:
            mapping[c] = chr(c)
        for c in special:
            mapping[c] = self.special_string(self.ctrl_text, True, self.nonchar)
        undefined = [0x4001] if rng.random() < 0.3 else []      # no ToUnicode entry: "(cid:16385)"
        if undefined:
            self.feat["undefined_codes"] = 1
        tu = doc.add(Stream({}, tounicode_cmap(mapping, 2, rng)))
        fd = {"Type": N("FontDescriptor"), "FontName": Name(fontname), "Flags": 4, "FontBBox": [0, -200, 1000, 800], "ItalicAngle": 0,
              "Ascent": 800, "Descent": -200, "CapHeight": 700, "StemV": 80}
        desc = doc.add({"Type": N("Font"), "Subtype": N("CIDFontType2"), "BaseFont": Name(basefont),
                        "CIDSystemInfo": {"Registry": b"Adobe", "Ordering": b"Identity", "Supplement": 0},
                        "FontDescriptor": doc.add(fd), "DW": rng.choice([1000, 500]), "CIDToGIDMap": N("Identity")})
        d = {"Type": N("Font"), "Subtype": N("Type0"), "BaseFont": Name(basefont), "Encoding": N("Identity-V" if vertical else "Identity-H"),
             "DescendantFonts": [desc], "ToUnicode": tu}
        return FontInfo(d, 2, plain + special * 4 + undefined, special)

    # ---------------------------------------------------------------- content
    def text_string(self, font: FontInfo, n: int, want_special: bool) -> bytes:
        rng = self.rng
        codes = []
        for _ in range(n):
            if want_special and font.special_codes and rng.random() < 0.35:
                codes.append(rng.choice(font.special_codes))
            elif rng.random() < 0.12:
                codes.append(0x20)
            else:
                codes.append(rng.choice(font.codes))
        raw = b"".join(c.to_bytes(font.nbytes, "big") for c in codes)
        return ser(HexStr(raw)) if (font.nbytes == 2 or rng.random() < 0.3) else ser(raw)

    def num(self, x: float) -> bytes:
        return ser(float(x)) if x != int(x) else b"%d" % int(x)

    def colour_op(self) -> bytes:
        rng = self.rng
        r = rng.random()
        if r < 0.3:
            return self.num(rng.choice([0, 0.5, 1, 0.25])) + b" g"
        if r < 0.6:
            return b" ".join(self.num(rng.choice([0, 1, 0.5])) for _ in range(3)) + b" rg"
        if r < 0.8:
            return b" ".join(self.num(rng.choice([0, 1, 0.25])) for _ in range(4)) + b" k"
        return b"/DeviceRGB cs " + b" ".join(self.num(rng.choice([0, 1, 0.75])) for _ in range(3)) + b" sc"

    def block_paragraph(self, fonts: Dict[str, FontInfo], W: float, H: float) -> bytes:
        rng = self.rng
        fn = rng.choice(sorted(fonts))
        font = fonts[fn]
        size = rng.choice([8, 10, 12, 12, 14, 18, 24, 9.5])
        x = rng.randint(10, int(W * 0.6))
        y = rng.randint(int(H * 0.15), int(H * 0.95))
        lead = size * rng.choice([1.0, 1.2, 1.2, 1.5, 3.0])
        out = [b"BT", ser(Name(fn)) + b" " + self.num(size) + b" Tf"]
        if rng.random() < 0.4:
            out.append(self.colour_op())
        if rng.random() < 0.15:
            out.append(self.num(rng.choice([1, 3, 8])) + b" Tc")
        out.append(self.num(lead) + b" TL")
        out.append(b"%d %d Td" % (x, y))
        for li in range(rng.randint(1, 4)):
            if li:
                out.append(b"T*" if rng.random() < 0.7 else b"0 " + self.num(-lead * rng.choice([1, 2.5])) + b" Td")
            nw = rng.randint(1, 3)
            if rng.random() < 0.5:
                for wi in range(nw):
                    out.append(self.text_string(font, rng.randint(1, 7), True) + b" Tj")
                    if wi < nw - 1 and rng.random() < 0.5:
                        out.append(self.num(size * rng.choice([0.5, 2, 6])) + b" 0 Td")
            else:
                arr = []
                for wi in range(nw):
                    arr.append(self.text_string(font, rng.randint(1, 6), True))
                    if wi < nw - 1:
                        arr.append(b"%d" % rng.choice([-50, -300, -1500, 200]))
                out.append(b"[" + b" ".join(arr) + b"] TJ")
        out.append(b"ET")
        return b"\n".join(out)

    def block_stack(self, fonts: Dict[str, FontInfo], W: float, H: float) -> bytes:
        """Single glyphs placed one under another (vertical lines under detect_vertical) or along a rotated baseline."""
        rng = self.rng
        fn = rng.choice(sorted(fonts))
        font = fonts[fn]
        size = rng.choice([10, 12, 16])
        x = rng.randint(20, int(W * 0.8))
        y = rng.randint(int(H * 0.4), int(H * 0.9))
        out = [b"BT", ser(Name(fn)) + b" " + self.num(size) + b" Tf"]
        if rng.random() < 0.5:
            for i in range(rng.randint(2, 6)):
                out.append(b"1 0 0 1 %d %d Tm" % (x, y - i * size))
                out.append(self.text_string(font, 1, True) + b" Tj")
        else:
            a, b, c, d = rng.choice([(0, 1, -1, 0), (0, -1, 1, 0), (-1, 0, 0, -1), (1, 1, -1, 1)])
            out.append(b"%d %d %d %d %d %d Tm" % (a, b, c, d, x, y))
            out.append(self.text_string(font, rng.randint(2, 6), True) + b" Tj")
        out.append(b"ET")
        return b"\n".join(out)

    def block_path(self, W: float, H: float) -> bytes:
        rng = self.rng
        out = []
        if rng.random() < 0.6:
            out.append(self.num(rng.choice([0, 1, 2, 5, 0.5, 1.5, 2.75])) + b" w")
        if rng.random() < 0.3:
            out.append(self.colour_op())
        x, y = rng.randint(0, int(W) - 50), rng.randint(0, int(H) - 50)
        w, h = rng.randint(1, 200), rng.randint(1, 200)
        kind = rng.choice(["rect", "rect", "line", "line", "curve", "poly", "multi", "rotrect"])
        paint = rng.choice([b"S", b"f", b"B", b"s", b"f*", b"b"])
        if kind == "rect":
            out.append(b"%d %d %d %d re %s" % (x, y, w, h, paint))
            self.npath["rect"] += 1
        elif kind == "line":
            out.append(b"%d %d m %d %d l %s" % (x, y, x + w, y + rng.choice([0, h]), rng.choice([b"S", b"s"])))
            self.npath["line"] += 1
        elif kind == "curve":
            out.append(b"%d %d m %d %d %d %d %d %d c %s" % (x, y, x + w, y, x + w, y + h, x, y + h, paint))
            self.npath["curve"] += 1
        elif kind == "poly":
            out.append(b"%d %d m %d %d l %d %d l h %s" % (x, y, x + w, y, x + w // 2, y + h, paint))
            self.npath["curve"] += 1
        elif kind == "multi":
            out.append(b"%d %d m %d %d l %d %d %d %d re %d %d m %d %d %d %d v %s" % (
                x, y, x + w, y + h, x, y, w, h, x, y, x + 5, y + 9, x + w, y + 3, paint))
            self.npath["line"] += 1
            self.npath["rect"] += 1
            self.npath["curve"] += 1
        else:
            out.append(b"q 0.8 0.6 -0.6 0.8 %d %d cm 0 0 %d %d re %s Q" % (x, y, w, h, paint))
            self.npath["curve"] += 1
        return b"\n".join(out)

    def block_inline_image(self, W: float, H: float) -> bytes:
        rng = self.rng
        self.nimg += 1
        self.feat["inline_image"] = self.feat.get("inline_image", 0) + 1
        x, y = rng.randint(0, int(W) - 40), rng.randint(0, int(H) - 40)
        data = bytes(rng.choice(b"AZaz09") for _ in range(4))
        return b"q %d 0 0 %d %d %d cm BI /W 2 /H 2 /CS /G /BPC 8 ID %s EI Q" % (rng.randint(5, 40), rng.randint(5, 40), x, y, data)

    def make_image(self) -> Ref:
        rng = self.rng
        w, h = rng.choice([(1, 1), (2, 2), (3, 1)])
        cs, n = rng.choice([("DeviceGray", 1), ("DeviceRGB", 3)])
        data = bytes(rng.randrange(256) for _ in range(w * h * n))
        return self.doc.add(Stream({"Type": N("XObject"), "Subtype": N("Image"), "Width": w, "Height": h, "ColorSpace": N(cs),
                                    "BitsPerComponent": 8}, data))

    def make_scope(self, depth: int, W: float, H: float) -> Tuple[Dict[str, Any], bytes]:
        """Resources and content of the page (depth 0) or of a form XObject."""
        rng = self.rng
        self.maxdepth = max(self.maxdepth, depth)
        fonts: Dict[str, FontInfo] = {}
        for i in range(rng.choice([1, 1, 2, 3]) if depth == 0 else rng.choice([1, 1, 2])):
            fonts["F%d" % (i + 1)] = self.make_font()
        xobjs: Dict[bytes, Ref] = {}
        blocks: List[bytes] = []
        nblocks = rng.randint(2, 7) if depth == 0 else rng.randint(1, 4)
        for _ in range(nblocks):
            r = rng.random()
            if r < 0.42:
                blocks.append(self.block_paragraph(fonts, W, H))
            elif r < 0.52:
                blocks.append(self.block_stack(fonts, W, H))
            elif r < 0.70:
                blocks.append(self.block_path(W, H))
            elif r < 0.84 and depth < 3:
                name = self.gen_name("fig")
                fw, fh = rng.randint(60, 300), rng.randint(60, 300)
                res, content = self.make_scope(depth + 1, fw, fh)
                d: Dict[str, Any] = {"Type": N("XObject"), "Subtype": N("Form"), "BBox": [0, 0, fw, fh], "Resources": res}
                if rng.random() < 0.4:
                    d["Matrix"] = rng.choice([[1, 0, 0, 1, 10, 10], [0.5, 0, 0, 0.5, 0, 0], [0, 1, -1, 0, fh, 0], [2, 0, 0, 2, -5, 3]])
                xobjs[name] = self.doc.add(Stream(d, content))
                self.nfig += 1
                m = rng.choice([(1, 0, 0, 1), (1, 0, 0, 1), (0.5, 0, 0, 0.5), (0, 1, -1, 0), (1.25, 0, 0, 0.75)])
                blocks.append(b"q %s %s %s %s %d %d cm %s Do Q" % (self.num(m[0]), self.num(m[1]), self.num(m[2]), self.num(m[3]),
                                                                  rng.randint(0, int(W * 0.6)), rng.randint(0, int(H * 0.6)), ser(Name(name))))
                if rng.random() < 0.15:      # the same form shown twice
                    blocks.append(b"q 1 0 0 1 %d %d cm %s Do Q" % (rng.randint(0, 50), rng.randint(0, 50), ser(Name(name))))
                    self.nfig += 1
            elif r < 0.94:
                name = self.gen_name("fig")
                xobjs[name] = self.make_image()
                self.nimg += 1
                self.nfig += 1
                blocks.append(b"q %s 0 0 %s %d %d cm %s Do Q" % (self.num(rng.choice([10, 33.3, 100, 0.4])), self.num(rng.choice([10, 47.5, 80])),
                                                                rng.randint(0, int(W * 0.8)), rng.randint(0, int(H * 0.8)), ser(Name(name))))
            elif self.inline_images:
                blocks.append(self.block_inline_image(W, H))
                self.nfig += 1
            else:
                blocks.append(self.block_paragraph(fonts, W, H))
        res: Dict[Any, Any] = {"Font": {k: (self.doc.add(v.obj) if rng.random() < 0.5 else v.obj) for k, v in fonts.items()}}
        if xobjs:
            res["XObject"] = {Name(k): v for k, v in xobjs.items()}
        return res, b"\n".join(blocks) + b"\n"

    def build(self) -> Dict[str, Any]:
        rng = self.rng
        doc = self.doc
        npages = rng.choice([1, 1, 1, 2, 3])
        cat = doc.alloc()
        pages_ref = doc.alloc()
        kids = []
        contents = []
        for _ in range(npages):
            W, H = rng.choice([(612, 792), (612, 792), (300, 400), (842, 595)])
            if rng.random() < 0.08:
                # a page that shows only blanks (and perhaps a path): it is analysed, but no text box comes out of it
                res = {"Font": {"F1": font_type1("Helvetica", Encoding=N("WinAnsiEncoding"))}}
                content = b"BT /F1 12 Tf %d %d Td (   ) Tj 0 -30 Td ( ) Tj ET\n" % (rng.randint(20, 200), rng.randint(100, 300))
                if rng.random() < 0.5:
                    content += self.block_path(W, H) + b"\n"
                self.feat["blank_page"] = self.feat.get("blank_page", 0) + 1
            else:
                res, content = self.make_scope(0, W, H)
            contents.append(content)
            pd: Dict[str, Any] = {"Type": N("Page"), "Parent": pages_ref, "MediaBox": rng.choice([[0, 0, W, H], [0, 0, W, H], [10, 20, W + 10, H + 20]]),
                                  "Resources": res, "Contents": doc.add(Stream({}, content))}
            if rng.random() < 0.3:
                pd["Rotate"] = rng.choice([90, 180, 270])
                self.feat["rotated_page"] = 1
            kids.append(doc.add(pd))
        doc.set(pages_ref, {"Type": N("Pages"), "Kids": kids, "Count": len(kids)})
        doc.set(cat, {"Type": N("Catalog"), "Pages": pages_ref})
        doc.trailer["Root"] = cat
        pdf = doc.build(xref=rng.choice(["table", "table", "stream"]))
        feat = self.feat
        feat.update({"profile": self.profile, "npages": npages, "figures": self.nfig, "images": self.nimg, "max_depth": self.maxdepth,
                     "rects": self.npath["rect"], "lines": self.npath["line"], "curves": self.npath["curve"],
                     "ctrl_text": int(self.ctrl_text), "ctrl_font": int(self.ctrl_font), "ctrl_fig": int(self.ctrl_fig),
                     "nonchar": int(self.nonchar), "special_names": int(self.special_names), "ws_names": int(self.ws_names)})
        return {"pdf": pdf, "feat": feat, "content": b"\x00".join(contents)}


def gen_laparams(rng: random.Random) -> Optional[Dict[str, Any]]:
    """A dict of LAParams keyword arguments (never None here; None is a separate configuration)."""
    if rng.random() < 0.3:
        return {}
    return {
        "line_overlap": rng.choice([0.3, 0.5, 0.7]),
        "char_margin": rng.choice([0.5, 2.0, 2.0, 5.0]),
        "line_margin": rng.choice([0.1, 0.5, 0.5, 1.0]),
        "word_margin": rng.choice([0.0, 0.1, 0.1, 0.3]),
        "boxes_flow": rng.choice([None, -1.0, -0.5, 0.0, 0.5, 0.5, 1.0]),
        "detect_vertical": rng.random() < 0.5,
        "all_texts": rng.random() < 0.5,
    }


def gen_case(seed_str: str, tier: str, force: Optional[Dict[str, Any]] = None) -> Dict[str, Any]:
    g = DocGen(seed_str, tier, force)
    case = g.build()
    rng = g.rng
    case["laparams"] = gen_laparams(rng)
    case["seed_str"] = seed_str
    # page selection passed through the high-level functions (plumbing)
    sel: Dict[str, Any] = {}
    if case["feat"]["npages"] > 1 and rng.random() < 0.4:
        if rng.random() < 0.5:
            sel["page_numbers"] = sorted(rng.sample(range(case["feat"]["npages"]), rng.randint(1, case["feat"]["npages"] - 1)))
        else:
            sel["maxpages"] = rng.randint(1, case["feat"]["npages"] - 1)
    case["sel"] = sel
    case["rng"] = rng
    return case
