"""Generators for C17: text strings, name/number trees of any shape, page-label
dictionaries, outline forests and named destinations inside complete documents.

Everything written here is conformant to ISO 32000-1 for the clause under test
(7.9.2.2, 7.9.6, 7.9.7, 12.3.2.3, 12.3.3, 12.4.2); vf.ref.c17ref validates the
trees and outlines that were built (a failed validation is a harness bug).
"""
from __future__ import annotations

import random
from typing import Any, Dict, List, Optional, Tuple

from vf.gen.pdfw import Doc, HexStr, N, Real, Ref, page_doc
from vf.ref import c17ref as R

# --------------------------------------------------------------------------
# text strings
# --------------------------------------------------------------------------
_SPECIAL = [c for c in R.PDFDOC_CODES if c < 0x20 or 0x80 <= c <= 0xA0]
_LATIN1 = [c for c in R.PDFDOC_CODES if c > 0xA0]
_ASCII = [c for c in R.PDFDOC_CODES if 0x20 <= c < 0x7F]
_BMP_BLOCKS = [(0x00A1, 0x024F), (0x0370, 0x03FF), (0x0400, 0x04FF), (0x05D0, 0x05EA), (0x0620, 0x064A),
               (0x0900, 0x097F), (0x2000, 0x206F), (0x20A0, 0x20BF), (0x2190, 0x21FF), (0x3040, 0x30FF),
               (0x4E00, 0x9FFF), (0xAC00, 0xD7A3), (0xE000, 0xF8FF), (0xFB00, 0xFB06), (0xFF01, 0xFF5E)]
_ASTRAL_BLOCKS = [(0x10000, 0x1007F), (0x1D400, 0x1D7FF), (0x1F300, 0x1F64F), (0x20000, 0x2A6DF), (0x10FF00, 0x10FFFD)]
TEXT_KINDS = ["ascii", "pdfdoc", "pdfdoc_special", "utf16_ascii", "utf16_bmp", "utf16_astral", "empty", "utf16_empty"]


def _bad_pdfdoc_start(b: bytes) -> bool:
    # FE FF is the UTF-16 mark; EF BB BF is read as a UTF-8 mark by later editions of the standard
    return b[:2] == b"\xfe\xff" or b[:3] == b"\xef\xbb\xbf"


def gen_text(rng: random.Random, kind: Optional[str] = None, maxlen: int = 12) -> Tuple[bytes, str, str]:
    """-> (string bytes as stored in the file, the text it denotes, kind)."""
    if kind is None:
        kind = rng.choice(["ascii", "ascii", "pdfdoc", "pdfdoc_special", "utf16_ascii", "utf16_bmp", "utf16_bmp",
                           "utf16_astral", "empty", "utf16_empty"])
    n = rng.randint(1, maxlen)
    if kind == "empty":
        return b"", "", kind
    if kind == "utf16_empty":
        return b"\xfe\xff", "", kind
    if kind in ("ascii", "pdfdoc", "pdfdoc_special"):
        while True:
            if kind == "ascii":
                codes = [rng.choice(_ASCII) for _ in range(n)]
            elif kind == "pdfdoc":
                codes = [rng.choice(R.PDFDOC_CODES) for _ in range(n)]
            else:
                codes = [rng.choice(_SPECIAL) if rng.random() < 0.7 else rng.choice(_LATIN1 + _ASCII) for _ in range(n)]
            b = bytes(codes)
            if not _bad_pdfdoc_start(b):
                break
        return b, "".join(R.PDFDOC[c] for c in codes), kind
    cps: List[int] = []
    for _ in range(n):
        if kind == "utf16_ascii":
            cps.append(rng.choice(_ASCII))
        elif kind == "utf16_astral" and rng.random() < 0.6:
            lo, hi = rng.choice(_ASTRAL_BLOCKS)
            cps.append(rng.randint(lo, hi))
        else:
            r = rng.random()
            if r < 0.15:
                cps.append(rng.choice(_ASCII))
            elif r < 0.2:
                cps.append(rng.choice([0x0000, 0x0001, 0x0009, 0x000A, 0x00FF, 0x0100, 0xD7FF, 0xE000, 0xFEFF, 0xFFFD]))
            else:
                lo, hi = rng.choice(_BMP_BLOCKS)
                cps.append(rng.randint(lo, hi))
    # 7.9.2.2: U+001B introduces a language escape in a Unicode text string; never generated
    cps = [c for c in cps if c != 0x1B and not 0xD800 <= c <= 0xDFFF]
    text = "".join(chr(c) for c in cps)
    return b"\xfe\xff" + text.encode("utf-16-be"), text, kind


def pdf_string(rng: random.Random, b: bytes) -> Any:
    return HexStr(b) if rng.random() < 0.3 else bytes(b)


# --------------------------------------------------------------------------
# trees (7.9.6 / 7.9.7)
# --------------------------------------------------------------------------
def build_tree(rng: random.Random, doc: Doc, items: List[Tuple[Any, Any]], leafkey: str, shape: Dict[str, Any],
               feats: Dict[str, int]) -> Dict[str, Any]:
    """items: (key, value) sorted strictly ascending by key.  -> the root node (a direct dictionary).

    shape: maxdepth (levels incl. root), p_leaf, leafcap, maxfan, mode in
    {"random","degenerate_right","degenerate_left","single_kid_chain","balanced"}, shuffle_kids, p_indirect_array."""
    maxfan = shape.get("maxfan", 6)
    leafcap = shape.get("leafcap", 8)
    p_leaf = shape.get("p_leaf", 0.4)
    mode = shape.get("mode", "random")
    p_ind = shape.get("p_indirect_array", 0.1)
    shuffle = shape.get("shuffle_kids", False)
    kids_direct = shape.get("kids_direct", "none")        # "none" | "all" | "mixed"
    lim_elems = shape.get("limit_elems_indirect", "none")  # "none" | "both" | "some"
    key_ind = shape.get("leaf_keys_indirect", 0.0)         # share of the string keys of a leaf written as references
    leaf_of: Dict[Any, int] = {}
    leaf_counter = [0]

    def maybe_indirect(arr: List[Any], what: str) -> Any:
        if rng.random() < p_ind:
            feats["indirect_%s_array" % what] = feats.get("indirect_%s_array" % what, 0) + 1
            return doc.add(arr)
        return arr

    def chunks_of(its: List[Tuple[Any, Any]], depth_left: int) -> List[Tuple[List[Tuple[Any, Any]], bool]]:
        """-> [(chunk, force_leaf)]"""
        n = len(its)
        if mode == "single_kid_chain":
            return [(its, False)]
        if mode == "degenerate_right":
            if n == 1:
                return [(its, True)]
            c = rng.randint(1, min(3, n - 1))
            return [(its[:c], True), (its[c:], False)]
        if mode == "degenerate_left":
            if n == 1:
                return [(its, True)]
            c = rng.randint(1, min(3, n - 1))
            return [(its[:n - c], False), (its[n - c:], True)]
        if mode == "balanced":
            k = min(maxfan, n)
        else:
            k = rng.randint(1, min(maxfan, n))
        cuts = sorted(rng.sample(range(1, n), k - 1)) if k > 1 else []
        out, prev = [], 0
        for c in cuts + [n]:
            out.append((its[prev:c], False))
            prev = c
        return out

    def node(its: List[Tuple[Any, Any]], depth_left: int, is_root: bool, force_leaf: bool = False) -> Dict[str, Any]:
        n = len(its)
        if force_leaf or n == 0 or depth_left <= 1:
            leaf = True
        elif mode in ("degenerate_right", "degenerate_left", "single_kid_chain"):
            leaf = False
        elif mode == "balanced":
            leaf = n <= leafcap
        else:
            leaf = n <= leafcap and rng.random() < p_leaf
        entries: List[Tuple[str, Any]] = []
        if leaf:
            arr: List[Any] = []
            lid = leaf_counter[0]
            leaf_counter[0] += 1
            for k, v in its:
                ks = pdf_string(rng, k) if isinstance(k, bytes) else k
                if key_ind and isinstance(k, bytes) and rng.random() < key_ind:
                    ks = doc.add(ks)                      # the key string is an indirect object
                    feats["leaf_keys_indirect"] = feats.get("leaf_keys_indirect", 0) + 1
                arr.append(ks)
                arr.append(v)
                leaf_of[k] = lid
            entries.append((leafkey, maybe_indirect(arr, "leaf")))
        else:
            kids = []
            for ch, fl in chunks_of(its, depth_left):
                kid = node(ch, depth_left - 1, False, fl)
                if kids_direct == "all" or (kids_direct == "mixed" and rng.random() < 0.5):
                    kids.append(kid)                      # the node itself sits in the Kids array
                    feats["direct_kid_nodes"] = feats.get("direct_kid_nodes", 0) + 1
                else:
                    kids.append(doc.add(kid))
            if shuffle and len(kids) > 1:
                rng.shuffle(kids)
                feats["kids_unordered"] = feats.get("kids_unordered", 0) + 1
            entries.append(("Kids", maybe_indirect(kids, "kids")))
        if not is_root:
            lo, hi = its[0][0], its[-1][0]
            lim = [pdf_string(rng, lo), pdf_string(rng, hi)] if isinstance(lo, bytes) else [lo, hi]
            # the two limits may themselves be indirect objects (both, or only one of them)
            if lim_elems == "both" or (lim_elems == "some" and rng.random() < 0.5):
                which = (0, 1) if lim_elems == "both" or rng.random() < 0.4 else (rng.randrange(2),)
                for j in which:
                    lim[j] = doc.add(lim[j])
                feats["limits_with_indirect_elements"] = feats.get("limits_with_indirect_elements", 0) + 1
            entries.append(("Limits", maybe_indirect(lim, "limits")))
        rng.shuffle(entries)
        return dict(entries)

    root = node(items, shape.get("maxdepth", 4), True)
    root["__leaf_of__"] = leaf_of  # removed by the caller; position classes of absent keys need it
    return root


def random_shape(rng: random.Random, deep: bool = False) -> Dict[str, Any]:
    sh = _random_shape(rng, deep)
    r = rng.random()
    sh["kids_direct"] = "none" if r < 0.64 else "all" if r < 0.82 else "mixed"
    r = rng.random()
    sh["limit_elems_indirect"] = "none" if r < 0.7 else "both" if r < 0.82 else "some"
    r = rng.random()
    sh["leaf_keys_indirect"] = 0.0 if r < 0.75 else 1.0 if r < 0.83 else 0.4
    return sh


def _random_shape(rng: random.Random, deep: bool = False) -> Dict[str, Any]:
    r = rng.random()
    if deep:
        mode = rng.choice(["degenerate_right", "degenerate_left", "single_kid_chain", "degenerate_right"])
        return {"mode": mode, "maxdepth": rng.randint(8, 14), "shuffle_kids": rng.random() < 0.15,
                "p_indirect_array": 0.1}
    if r < 0.12:
        return {"mode": "random", "maxdepth": 1}                        # the root is the only (leaf) node
    if r < 0.3:
        return {"mode": "balanced", "maxdepth": 8, "leafcap": rng.randint(1, 5), "maxfan": rng.randint(2, 6),
                "shuffle_kids": rng.random() < 0.15, "p_indirect_array": rng.choice([0, 0.1, 0.5])}
    if r < 0.5:
        return {"mode": rng.choice(["degenerate_right", "degenerate_left", "single_kid_chain"]),
                "maxdepth": rng.randint(2, 8), "shuffle_kids": rng.random() < 0.15, "p_indirect_array": 0.1}
    return {"mode": "random", "maxdepth": rng.randint(2, 8), "p_leaf": rng.choice([0.2, 0.5, 0.8]),
            "leafcap": rng.randint(1, 12), "maxfan": rng.randint(1, 6), "shuffle_kids": rng.random() < 0.15,
            "p_indirect_array": rng.choice([0, 0.1, 0.5])}


# --------------------------------------------------------------------------
# destinations (12.3.2)
# --------------------------------------------------------------------------
def _num(rng: random.Random, uniq: int) -> Any:
    r = rng.random()
    if r < 0.6:
        return uniq
    if r < 0.8:
        return Real("%d.5" % uniq)
    if r < 0.9:
        return Real("-%d.25" % uniq)
    return -uniq


def gen_dest_array(rng: random.Random, page_refs: List[Ref], uniq: int) -> List[Any]:
    p = rng.choice(page_refs)
    k = rng.random()
    if k < 0.45:
        return [p, N("XYZ"), _num(rng, uniq), rng.choice([None, 0, 792, Real("100.5")]), rng.choice([None, 0, 1, Real("1.5")])]
    if k < 0.65:
        return [p, N(rng.choice(["FitH", "FitV", "FitBH", "FitBV"])), _num(rng, uniq)]
    if k < 0.85:
        return [p, N("FitR"), _num(rng, uniq), 0, 612, 792]
    return [p, N(rng.choice(["Fit", "FitB"]))]


def gen_dest_value(rng: random.Random, doc: Doc, page_refs: List[Ref], uniq: int, feats: Dict[str, int]) -> Any:
    """A name-tree / Dests-dictionary value: the array, or a dictionary with a D entry; direct or indirect."""
    arr = gen_dest_array(rng, page_refs, uniq)
    v: Any = arr
    kind = "array"
    r = rng.random()
    if r < 0.2:
        v = {"D": arr}
        kind = "dict"
    elif r < 0.4:
        v = {"D": doc.add(arr)}                    # the D entry is itself an indirect reference
        kind = "dict_Dref"
    if rng.random() < 0.4:
        v = doc.add(v)
        kind += "_indirect"
    feats["destvalue_" + kind] = feats.get("destvalue_" + kind, 0) + 1
    return v


_KEY_ALPHABETS = [
    b"abcdefghijklmnopqrstuvwxyz", b"ab", b"AZaz09._-", bytes(range(0x20, 0x7F)), bytes(range(256)),
    b"\x00\x01\x7f\x80\xfe\xff", b"section.123456789",
]


def gen_keys(rng: random.Random, n: int) -> List[bytes]:
    """n distinct byte-string keys with shared prefixes, proper-prefix pairs, high bytes."""
    alpha = rng.choice(_KEY_ALPHABETS)
    keys: set = set()
    tries = 0
    base = [b"", b"sec", b"G1.", b"\xfe\xff\x00"]
    while len(keys) < n and tries < n * 50:
        tries += 1
        r = rng.random()
        if keys and r < 0.25:
            k = rng.choice(sorted(keys))                      # extend an existing key: proper prefixes
            k = k + bytes([rng.choice(alpha)])
        elif keys and r < 0.35:
            k = rng.choice(sorted(keys))[:-1]
        else:
            k = rng.choice(base) + bytes(rng.choice(alpha) for _ in range(rng.randint(1, 6)))
        if len(k) == 0 and rng.random() < 0.9:
            continue
        keys.add(k)
    return sorted(keys)


def absent_keys(rng: random.Random, keys: List[bytes], leaf_of: Dict[Any, int], want: int) -> List[Tuple[bytes, str]]:
    """Keys that are not in the tree, each with its position class."""
    have = set(keys)
    out: List[Tuple[bytes, str]] = []
    seen: set = set()

    def add(k: bytes, cls: str) -> None:
        if k not in have and k not in seen:
            seen.add(k)
            out.append((k, cls))

    if not keys:
        for k in (b"", b"a", b"\xff"):
            add(k, "empty_tree")
        return out
    lo, hi = keys[0], keys[-1]
    # below every key
    if lo:
        add(lo[:-1], "below_all")
        add(b"", "below_all")
        if lo[-1] > 0:
            add(lo[:-1] + bytes([lo[-1] - 1]), "below_all")
    # above every key
    add(hi + b"\x00", "above_all")
    add(hi + b"\xff", "above_all")
    add(b"\xff" * (len(hi) + 1), "above_all")
    # between adjacent keys
    pairs = list(zip(keys, keys[1:]))
    rng.shuffle(pairs)
    for a, b in pairs[: max(4, want)]:
        cls = "gap_in_leaf" if leaf_of.get(a) == leaf_of.get(b) else "gap_between_leaves"
        add(a + b"\x00", cls)
        if b and b[-1] > 0:
            c = b[:-1] + bytes([b[-1] - 1])
            if a < c < b:
                add(c, cls)
        if b[:-1] > a:
            add(b[:-1], cls)
    rng.shuffle(out)
    # keep at least one of each class that was produced
    keep: List[Tuple[bytes, str]] = []
    classes: set = set()
    for k, c in out:
        if c not in classes:
            classes.add(c)
            keep.append((k, c))
    for k, c in out:
        if len(keep) >= want:
            break
        if (k, c) not in keep:
            keep.append((k, c))
    return keep


_NAME_CHARS = "ABCDEFGHIJKLMNOPQRSTUVWXYZabcdefghijklmnopqrstuvwxyz0123456789._-"


def gen_names(rng: random.Random, n: int) -> List[str]:
    out: set = set()
    while len(out) < n:
        out.add("".join(rng.choice(_NAME_CHARS) for _ in range(rng.randint(1, 8))))
    return sorted(out)


# --------------------------------------------------------------------------
# page labels (12.4.2)
# --------------------------------------------------------------------------
STYLES = ["D", "R", "r", "A", "a", None]


def gen_label_ranges(rng: random.Random, npages: int, nranges: int, alpha_gt26: bool = False,
                     forced: Optional[List[Dict[str, Any]]] = None) -> List[Dict[str, Any]]:
    """-> [{"start","S","Pbytes","P","St" (effective),"St_written" (None = omitted)}] sorted by start."""
    starts = {0}
    while len(starts) < min(nranges, npages):
        starts.add(rng.randint(1, npages - 1))
    starts_l = sorted(starts)
    if rng.random() < 0.15:
        starts_l.append(npages + rng.randint(0, 5))       # a range no page belongs to
    out = []
    for i, s in enumerate(starts_l):
        end = starts_l[i + 1] if i + 1 < len(starts_l) else npages
        length = max(0, min(end, npages) - s)
        style = rng.choice(STYLES)
        if alpha_gt26 and i == 0:
            style = rng.choice(["A", "a"])
        if style in ("A", "a") and not (alpha_gt26 and i == 0):
            if length > 26:
                style = rng.choice(["D", "R", "r", None])
        r = rng.random()
        if style in ("A", "a"):
            if alpha_gt26 and i == 0:
                st = rng.choice([1, 20, 26, 27, 28, 52, 53, 54, 100, 676, 702, 703, 1000])
                if st + length - 1 <= 27:       # 27 is 'aa' under either reading; go beyond it
                    st = 28 - max(length, 1) + rng.randint(1, 30)
            else:
                st = rng.randint(1, 26 - max(length, 1) + 1)
        elif style in ("R", "r"):
            hi = 3999 - max(length, 1) + 1
            st = rng.choice([1, 1, 4, 9, 14, 39, 40, 44, 49, 90, 99, 399, 400, 444, 499, 900, 949, 999, 1888, 2994, 3000, 3888])
            if r < 0.4 or st > hi:
                st = rng.randint(1, hi)
        else:
            st = rng.choice([1, 1, 2, 10, 100, 999, 1000000, 2 ** 31]) if r < 0.5 else rng.randint(1, 5000)
        written: Optional[int] = st
        if st == 1 and rng.random() < 0.7:
            written = None
        if rng.random() < 0.5:
            pb, pt = b"", ""
            has_p = rng.random() < 0.1           # /P () written explicitly
        else:
            pb, pt, _ = gen_text(rng, None, 6)
            has_p = True
        out.append({"start": s, "S": style, "Pbytes": pb, "P": pt, "has_P": has_p, "St": st, "St_written": written,
                    "length": length})
    return out


def label_dict(rng: random.Random, r: Dict[str, Any]) -> Dict[str, Any]:
    ent: List[Tuple[str, Any]] = []
    if rng.random() < 0.3:
        ent.append(("Type", N("PageLabel")))
    if r["S"] is not None:
        ent.append(("S", N(r["S"])))
    if r["has_P"]:
        ent.append(("P", pdf_string(rng, r["Pbytes"])))
    if r["St_written"] is not None:
        ent.append(("St", r["St_written"]))
    rng.shuffle(ent)
    return dict(ent)


# --------------------------------------------------------------------------
# outlines (12.3.3)
# --------------------------------------------------------------------------
class ONode:
    __slots__ = ("title_b", "title", "kind", "target", "children", "open", "ref")

    def __init__(self) -> None:
        self.children: List["ONode"] = []
        self.open = True
        self.ref: Optional[Ref] = None


TARGET_KINDS = ["dest_array", "dest_array_indirect", "dest_string", "dest_name", "action_goto", "action_goto_indirect",
                "action_uri", "bare"]


def gen_forest(rng: random.Random, nitems: int, maxdepth: int, p_bare: float, chain: int = 0) -> List[ONode]:
    """A random forest with `nitems` items in total (plus a sibling chain of `chain` items somewhere)."""
    top: List[ONode] = []
    allnodes: List[Tuple[ONode, int]] = []
    for _ in range(nitems):
        nd = ONode()
        if not allnodes or rng.random() < 0.3:
            top.append(nd)
            allnodes.append((nd, 1))
        else:
            cands = [(p, d) for p, d in allnodes if d < maxdepth]
            if not cands:
                top.append(nd)
                allnodes.append((nd, 1))
                continue
            # bias towards recent nodes: deep, narrow shapes as well as wide ones
            p, d = cands[-1] if rng.random() < 0.4 else rng.choice(cands)
            p.children.append(nd)
            allnodes.append((nd, d + 1))
    if chain:
        where = rng.choice(["top", "nested"]) if allnodes else "top"
        lst = top
        if where == "nested":
            cands = [(p, d) for p, d in allnodes if d < maxdepth]
            if cands:
                lst = rng.choice(cands)[0].children
        pos = rng.randint(0, len(lst))
        lst[pos:pos] = [ONode() for _ in range(chain)]
    return top


def fill_forest(rng: random.Random, doc: Doc, top: List[ONode], page_refs: List[Ref], tree_keys: List[bytes],
                dict_names: List[str], p_bare: float, feats: Dict[str, int], text_kind: Optional[str] = None) -> None:
    uniq = [1000]

    def fill(nd: ONode) -> None:
        nd.title_b, nd.title, tk = gen_text(rng, text_kind, 10)
        feats["title_" + tk] = feats.get("title_" + tk, 0) + 1
        nd.open = rng.random() < 0.6
        uniq[0] += 1
        if rng.random() < p_bare:
            kind = "bare"
        else:
            kind = rng.choice(TARGET_KINDS[:-1])
            if kind == "dest_string" and not tree_keys:
                kind = "dest_array"
            if kind == "dest_name" and not dict_names:
                kind = "dest_array"
        nd.kind = kind
        feats["target_" + kind] = feats.get("target_" + kind, 0) + 1
        arr = gen_dest_array(rng, page_refs, uniq[0])
        if kind == "dest_array":
            nd.target = ("Dest", arr)
        elif kind == "dest_array_indirect":
            nd.target = ("Dest", doc.add(arr))
        elif kind == "dest_string":
            nd.target = ("Dest", pdf_string(rng, rng.choice(tree_keys)))
        elif kind == "dest_name":
            nd.target = ("Dest", N(rng.choice(dict_names)))
        elif kind in ("action_goto", "action_goto_indirect"):
            d: Any = arr
            r = rng.random()
            if r < 0.2 and tree_keys:
                d = pdf_string(rng, rng.choice(tree_keys))
            elif r < 0.3 and dict_names:
                d = N(rng.choice(dict_names))
            act: Any = {"S": N("GoTo"), "D": d}
            if rng.random() < 0.3:
                act = {"Type": N("Action"), "S": N("GoTo"), "D": d}
            nd.target = ("A", doc.add(act) if kind.endswith("indirect") else act)
        elif kind == "action_uri":
            nd.target = ("A", {"S": N("URI"), "URI": b"http://example.org/%d" % uniq[0]})
        else:
            nd.target = None
    stack = list(reversed(top))
    while stack:
        nd = stack.pop()
        fill(nd)
        stack.extend(reversed(nd.children))


def write_forest(rng: random.Random, doc: Doc, top: List[ONode]) -> Tuple[Ref, List[Tuple[int, ONode]]]:
    """Write the outline dictionary and the items; -> (root ref, pre-order [(level, node)])."""
    order: List[Tuple[int, ONode]] = []
    stack: List[Tuple[ONode, int]] = [(n, 1) for n in reversed(top)]
    while stack:
        nd, lv = stack.pop()
        order.append((lv, nd))
        stack.extend((c, lv + 1) for c in reversed(nd.children))
    root_ref = doc.alloc()
    # object numbers do not follow document order
    nodes = [nd for _, nd in order]
    perm = list(range(len(nodes)))
    if rng.random() < 0.7:
        rng.shuffle(perm)
    refs = [doc.alloc() for _ in nodes]
    for i, nd in enumerate(nodes):
        nd.ref = refs[perm[i]]

    # visible-descendant counts, bottom-up over the pre-order list (children come after parents)
    vis: Dict[int, int] = {}
    for lv, nd in reversed(order):
        vis[id(nd)] = sum(1 + (vis[id(c)] if c.open else 0) for c in nd.children)

    def link(parent_ref: Ref, kids: List[ONode]) -> None:
        for i, nd in enumerate(kids):
            ent: List[Tuple[str, Any]] = [("Title", pdf_string(rng, nd.title_b)), ("Parent", parent_ref)]
            if i > 0:
                ent.append(("Prev", kids[i - 1].ref))
            if i + 1 < len(kids):
                ent.append(("Next", kids[i + 1].ref))
            if nd.children:
                ent.append(("First", nd.children[0].ref))
                ent.append(("Last", nd.children[-1].ref))
                v = vis[id(nd)]
                ent.append(("Count", v if nd.open else -v))
            if nd.target is not None:
                ent.append(nd.target)
            if rng.random() < 0.2:
                ent.append(("F", rng.choice([0, 1, 2, 3])))
            if rng.random() < 0.1:
                ent.append(("C", [1, 0, Real("0.5")]))
            rng.shuffle(ent)
            doc.set(nd.ref, dict(ent))

    link(root_ref, top)
    for _, nd in order:
        if nd.children:
            link(nd.ref, nd.children)
    rd: List[Tuple[str, Any]] = []
    if rng.random() < 0.7:
        rd.append(("Type", N("Outlines")))
    if top:
        rd.append(("First", top[0].ref))
        rd.append(("Last", top[-1].ref))
        rd.append(("Count", sum(1 + (vis[id(c)] if c.open else 0) for c in top)))
    rng.shuffle(rd)
    doc.set(root_ref, dict(rd))
    return root_ref, order


# --------------------------------------------------------------------------
# complete documents
# --------------------------------------------------------------------------
PROFILES: Dict[str, Dict[str, Any]] = {
    # p_* = probability that the feature is present; n_* = (lo, hi)
    "mixed":    {"pages": (1, 40), "p_labels": 0.8, "ranges": (1, 6), "p_outl": 0.8, "items": (0, 25), "odepth": 6,
                 "p_tree": 0.8, "keys": (0, 40), "p_dict": 0.5, "names": (1, 8)},
    "labels":   {"pages": (1, 120), "p_labels": 1.0, "ranges": (1, 14), "p_outl": 0.0, "items": (0, 0), "odepth": 1,
                 "p_tree": 0.0, "keys": (0, 0), "p_dict": 0.0, "names": (0, 0)},
    "dests":    {"pages": (1, 6), "p_labels": 0.0, "ranges": (1, 1), "p_outl": 0.0, "items": (0, 0), "odepth": 1,
                 "p_tree": 0.9, "keys": (1, 150), "p_dict": 0.5, "names": (1, 20)},
    "outlines": {"pages": (1, 8), "p_labels": 0.0, "ranges": (1, 1), "p_outl": 1.0, "items": (1, 120), "odepth": 6,
                 "p_tree": 0.5, "keys": (1, 10), "p_dict": 0.5, "names": (1, 5)},
    "absent":   {"pages": (1, 5), "p_labels": 0.25, "ranges": (1, 2), "p_outl": 0.25, "items": (0, 3), "odepth": 2,
                 "p_tree": 0.25, "keys": (0, 3), "p_dict": 0.25, "names": (1, 2)},
}


def gen_doc(rng: random.Random, fam: str, opts: Optional[Dict[str, Any]] = None) -> Dict[str, Any]:
    """Build one document and everything the oracle expects of it (a replayable case)."""
    opts = opts or {}
    prof = dict(PROFILES[opts.get("profile", fam if fam in PROFILES else "mixed")])
    prof.update(opts.get("prof", {}))
    feats: Dict[str, int] = {}
    deep = bool(opts.get("deep"))
    npages = opts.get("npages") or rng.randint(*prof["pages"])
    doc = page_doc([{} for _ in range(npages)])
    cat_ref = doc.trailer["Root"]
    cat = doc.objs[cat_ref.n]
    page_refs: List[Ref] = list(doc.objs[cat["Pages"].n]["Kids"])
    case: Dict[str, Any] = {"fam": fam, "npages": npages, "labels": None, "outlines": None, "lookups": [],
                            "budget": bool(opts.get("budget")), "alpha_gt26_pages": []}
    stats: Dict[str, int] = {}

    # ---- named destinations: name tree (strings) and the PDF 1.1 Dests dictionary (names)
    tree_keys: List[bytes] = []
    dict_names: List[str] = []
    tree_vals: Dict[bytes, Any] = {}
    dict_vals: Dict[str, Any] = {}
    leaf_of: Dict[Any, int] = {}
    has_tree = rng.random() < prof["p_tree"]
    has_dict = rng.random() < prof["p_dict"]
    names_dict: Optional[Dict[str, Any]] = None
    uniq = 0
    shared_names: List[str] = []        # spellings that exist as a name-tree STRING key and as a /Dests NAME
    tree_only_names: List[str] = []     # spellings of string keys that a name object must NOT find (12.3.2.3)
    if has_tree:
        tree_keys = gen_keys(rng, rng.randint(*prof["keys"]))
        if rng.random() < 0.7:
            extra = gen_names(rng, rng.randint(1, 4))
            tree_keys = sorted(set(tree_keys) | {nm.encode("ascii") for nm in extra})
            for nm in extra:
                (shared_names if has_dict and rng.random() < 0.6 else tree_only_names).append(nm)
        items = []
        for k in tree_keys:
            uniq += 1
            v = gen_dest_value(rng, doc, page_refs, uniq, feats)
            tree_vals[k] = v
            items.append((k, v))
        shape = opts.get("shape") or random_shape(rng, deep)
        root = build_tree(rng, doc, items, "Names", shape, feats)
        leaf_of = root.pop("__leaf_of__")
        st = R.tree_validate(doc, root, "Names")
        flat = R.tree_flatten(doc, root, "Names")
        assert [k for k, _ in flat] == tree_keys
        stats.update({"nt_nodes": st["nodes"], "nt_depth": st["depth"], "nt_maxfan": st["maxfan"], "nt_entries": st["entries"]})
        feats["nt_mode_" + shape["mode"]] = 1
        if st["direct_kids"]:
            feats["nt_kids_direct_%s_depth%d" % ("all" if st["direct_kids"] == st["nodes"] - 1 else "mixed", st["depth"])] = 1
            stats["nt_direct_kids"] = st["direct_kids"]
        if st["limit_elem_refs"]:
            feats["nt_trees_limit_elems_indirect"] = 1
            if st["leaves"] >= 2:
                feats["nt_trees_limit_elems_indirect_2plus_leaves"] = 1
        names_dict = {"Dests": doc.add(root) if rng.random() < 0.6 else root}
        case["nt_root"] = root
    elif rng.random() < 0.3:
        names_dict = {}                                   # a name dictionary without Dests
        if rng.random() < 0.5:
            names_dict["JavaScript"] = {"Names": []}
        feats["names_without_dests"] = 1
    if names_dict is not None:
        cat["Names"] = doc.add(names_dict) if rng.random() < 0.5 else names_dict
    if has_dict:
        spelled = set(tree_keys)
        own = [nm for nm in gen_names(rng, rng.randint(*prof["names"])) if nm not in tree_only_names]
        shared_names += [nm for nm in own if nm.encode("ascii") in spelled and nm not in shared_names]   # by chance
        dict_names = sorted(set(own) | set(shared_names))
        dd: Dict[str, Any] = {}
        for nm in dict_names:
            while True:
                uniq += 1
                v = gen_dest_value(rng, doc, page_refs, 5000 + uniq, feats)
                # the same spelling in the other namespace leads somewhere else
                if nm.encode("ascii") not in tree_vals or R.norm_gen(doc, v) != R.norm_gen(doc, tree_vals[nm.encode("ascii")]):
                    break
            dd[nm] = v
            dict_vals[nm] = dd[nm]
        if shared_names:
            feats["docs_with_shared_name_and_string_spellings"] = 1
        cat["Dests"] = doc.add(dd) if rng.random() < 0.5 else dd
        feats["dests_dict"] = 1

    # ---- lookups
    lookups: List[List[Any]] = []
    present = list(tree_keys)
    if len(present) > 60:
        present = rng.sample(present, 60)
    for k in present:
        found, v = R.tree_lookup(doc, case["nt_root"], "Names", k)
        assert found and v is tree_vals[k], "reference lookup disagrees with construction"
        lookups.append([k, R.norm_gen(doc, tree_vals[k]), "tree_present"])
    if has_tree:
        for k, cls in absent_keys(rng, tree_keys, leaf_of, 30):
            found, _ = R.tree_lookup(doc, case["nt_root"], "Names", k)
            assert not found
            lookups.append([k, None, "tree_absent:" + cls])
    else:
        for k in (b"a", b"Chapter1"):
            lookups.append([k, None, "tree_absent:no_tree"])
    # 12.3.2.3: a name object is looked up in the catalog's Dests dictionary, a string in the Dests name tree;
    # the same spelling in the other table is a different destination or none at all
    for nm in dict_names:
        if nm.encode("ascii") in tree_vals:
            lookups.append([nm, R.norm_gen(doc, dict_vals[nm]), "dict_present:shared_spelling"])
            lookups.append([nm.encode("ascii"), R.norm_gen(doc, tree_vals[nm.encode("ascii")]), "tree_present:shared_spelling"])
        else:
            lookups.append([nm, R.norm_gen(doc, dict_vals[nm]), "dict_present"])
            if has_tree or rng.random() < 0.3:
                lookups.append([nm.encode("ascii"), None, "tree_absent:spelled_like_dict_name"])
    nodict = "" if has_dict else ":no_dict"
    for nm in tree_only_names:
        if nm not in dict_vals:
            lookups.append([nm, None, "dict_absent%s:spelled_like_tree_key" % nodict])
    for nm in ["zz.absent", "Q", "Chapter1"]:
        if nm not in dict_vals:
            cls = ":spelled_like_tree_key" if nm.encode("ascii") in tree_vals else ""
            lookups.append([nm, None, "dict_absent" + nodict + cls])
    case.pop("nt_root", None)
    case["lookups"] = lookups

    # ---- page labels
    if opts.get("labels_forced") is not None or rng.random() < prof["p_labels"]:
        if opts.get("labels_forced") is not None:
            ranges = opts["labels_forced"]
        else:
            ranges = gen_label_ranges(rng, npages, rng.randint(*prof["ranges"]), alpha_gt26=bool(opts.get("alpha_gt26")))
        items = []
        for r in ranges:
            assert R.decode_text_string(r["Pbytes"]) == r["P"]
            ld: Any = label_dict(rng, r)
            if rng.random() < 0.3:
                ld = doc.add(ld)
                feats["label_dict_indirect"] = feats.get("label_dict_indirect", 0) + 1
            items.append((r["start"], ld))
            feats["style_%s" % r["S"]] = feats.get("style_%s" % r["S"], 0) + 1
            if r["has_P"]:
                feats["label_prefix"] = feats.get("label_prefix", 0) + 1
            if r["St_written"] is None:
                feats["label_St_omitted"] = feats.get("label_St_omitted", 0) + 1
            if r["start"] >= npages:
                feats["range_beyond_last_page"] = 1
        shape = opts.get("lshape") or random_shape(rng, deep)
        root = build_tree(rng, doc, items, "Nums", shape, feats)
        root.pop("__leaf_of__")
        st = R.tree_validate(doc, root, "Nums")
        assert [k for k, _ in R.tree_flatten(doc, root, "Nums")] == [r["start"] for r in ranges]
        stats.update({"pl_nodes": st["nodes"], "pl_depth": st["depth"], "pl_maxfan": st["maxfan"], "pl_ranges": len(ranges)})
        feats["pl_mode_" + shape["mode"]] = 1
        # in depth-first order the keys ascend unless the kids were shuffled: only then may STRICT mode be asked
        case["pl_strict_ok"] = not shape.get("shuffle_kids")
        case["pl_unbalanced"] = st["leaf_depth_levels"] > 1
        if st["direct_kids"]:
            feats["pl_kids_direct_%s_depth%d" % ("all" if st["direct_kids"] == st["nodes"] - 1 else "mixed", st["depth"])] = 1
            stats["pl_direct_kids"] = st["direct_kids"]
        if st["limit_elem_refs"]:
            feats["pl_trees_limit_elems_indirect"] = 1
        cat["PageLabels"] = doc.add(root) if rng.random() < 0.6 else root
        case["labels"] = R.page_labels(ranges, npages)
        case["label_styles"] = [str(R.range_of_page(ranges, i)["S"]) for i in range(npages)]
        case["label_prefix"] = [R.range_of_page(ranges, i)["P"] for i in range(npages)]
        gt = []
        for i in range(npages):
            r = R.range_of_page(ranges, i)
            if r["S"] in ("A", "a") and r["St"] + i - r["start"] > 26:
                gt.append(i)
        case["alpha_gt26_pages"] = gt
        if gt and not opts.get("alpha_gt26"):
            raise AssertionError("main family generated an alphabetic label value > 26")

    # ---- outlines
    if opts.get("chain") or rng.random() < prof["p_outl"]:
        nitems = rng.randint(*prof["items"])
        top = gen_forest(rng, nitems, prof["odepth"], prof.get("p_bare", 0.12), chain=int(opts.get("chain", 0)))
        fill_forest(rng, doc, top, page_refs, tree_keys, dict_names, prof.get("p_bare", 0.12), feats,
                    text_kind="ascii" if opts.get("chain") else None)
        root_ref, order = write_forest(rng, doc, top)
        R.outline_validate(doc, root_ref)
        pre = R.outline_preorder(doc, root_ref)
        assert [(lv, nd.ref) for lv, nd in order] == pre, "reference outline walk disagrees with construction"
        cat["Outlines"] = root_ref
        exp = []
        pages_exp: List[List[Any]] = []
        maxlevel = 0
        for lv, nd in order:
            it = doc.objs[nd.ref.n]
            assert R.decode_text_string(bytes(it["Title"])) == nd.title
            dest = R.norm_gen(doc, it["Dest"]) if "Dest" in it else None
            act = R.norm_gen(doc, it["A"]) if "A" in it else None
            exp.append([lv, nd.title, dest, act, None])
            maxlevel = max(maxlevel, lv)
            # the page the item leads to (what tools/dumppdf.py -T prints as <pageno>)
            tgt = None
            via = ""
            if "Dest" in it:
                tgt = it["Dest"]
            elif "A" in it:
                a = it["A"]
                ad = R.deref(doc, a)
                if R._get(ad, "S") == N("GoTo"):
                    tgt = R._get(ad, "D")
                    via = "action_indirect:" if isinstance(a, Ref) else "action:"
            if tgt is None:
                pages_exp.append([None, "none"])
            else:
                pg, how = R.destination_page(doc, page_refs, tree_vals, dict_vals, tgt)
                if isinstance(tgt, (bytes, bytearray)) and len(tgt) == 0:
                    how += ":empty_string"
                pages_exp.append([pg, via + how])
            if nd.kind == "bare":
                case["bare_items"] = case.get("bare_items", 0) + 1
        case["outlines"] = exp
        case["outline_pages"] = pages_exp
        stats.update({"ol_items": len(exp), "ol_maxlevel": maxlevel,
                      "ol_max_siblings": max([len(top)] + [len(nd.children) for _, nd in order])})

    # ---- file layout
    r = rng.random()
    plain = doc.build()
    case["plain_size"] = len(plain)          # size without compression: the scale of the step budget
    if r < 0.7:
        pdf = plain
        feats["xref_table"] = 1
    elif r < 0.8:
        pdf = doc.build(xref="stream")
        feats["xref_stream"] = 1
    else:
        pdf = doc.build(xref="stream", objstm=[n for n in doc.objs])
        feats["xref_stream_objstm"] = 1
    case["pdf"] = pdf
    # a share of the documents is read without the object cache: every access parses the objects again.
    # Their lookups come in shuffled order, twice, so that consecutive calls end in different leaves.
    # (costly: not for documents packed into object streams, at most 16 different lookups)
    if not opts.get("budget") and "xref_stream_objstm" not in feats and rng.random() < 0.1:
        case["caching"] = False
        lk = list(case["lookups"])
        if len(lk) > 16:
            lk = rng.sample(lk, 16)
        a, b = list(lk), list(lk)
        rng.shuffle(a)
        rng.shuffle(b)
        case["lookups"] = a + b
        feats["caching_off"] = 1
    case["feats"] = feats
    case["stats"] = stats
    return case
