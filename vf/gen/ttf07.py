"""Minimal TrueType file builder for check C07 (OpenType spec: table directory,
'cmap' table with format 0 and format 4 subtables) and the reference reading
of the character -> glyph map it encodes.

A font is described by a JSON-able structure:

    spec = {
      "subtables": [
         {"pid": 3, "eid": 1, "fmt": 0, "gids": [256 ints]},
         {"pid": 0, "eid": 3, "fmt": 4, "segs": [seg, ...]},     # the final 0xFFFF segment is added by the builder
      ],
      "extra_tables": ["head", "maxp", ...],   # dummy tables around 'cmap' in the directory
    }
    seg = {"s": start, "e": end, "delta": d}                      # idRangeOffset == 0
        | {"s": start, "e": end, "delta": d, "arr": [raw ...]}    # idRangeOffset != 0, raw glyphIdArray values

Several encoding records may share one subtable ("same_as": index).
"""
from __future__ import annotations

import struct
from typing import Any, Dict, List


def _fmt0(st: Dict[str, Any]) -> bytes:
    gids = list(st["gids"])
    assert len(gids) == 256 and all(0 <= g < 256 for g in gids)
    return struct.pack(">HHH", 0, 262, 0) + bytes(gids)


def _fmt4(st: Dict[str, Any]) -> bytes:
    segs = [dict(s) for s in st["segs"]]
    segs.sort(key=lambda s: s["e"])
    segs.append({"s": 0xFFFF, "e": 0xFFFF, "delta": 1})
    n = len(segs)
    glyph_array: List[int] = []
    ends, starts, deltas, offsets = [], [], [], []
    for i, s in enumerate(segs):
        ends.append(s["e"])
        starts.append(s["s"])
        deltas.append(s["delta"] & 0xFFFF)
        if "arr" in s:
            assert len(s["arr"]) == s["e"] - s["s"] + 1
            # byte distance from the location of idRangeOffset[i] to the first array slot of this segment
            offsets.append(2 * (n - i) + 2 * len(glyph_array))
            glyph_array.extend(s["arr"])
        else:
            offsets.append(0)
    sr = 1
    es = 0
    while sr * 2 <= n:
        sr *= 2
        es += 1
    search_range = 2 * sr
    range_shift = 2 * n - search_range
    body = struct.pack(">HHHH", 2 * n, search_range, es, range_shift)
    body += struct.pack(">%dH" % n, *ends) + b"\0\0" + struct.pack(">%dH" % n, *starts)
    body += struct.pack(">%dH" % n, *deltas) + struct.pack(">%dH" % n, *offsets)
    body += struct.pack(">%dH" % len(glyph_array), *glyph_array)
    return struct.pack(">HHH", 4, 6 + len(body), 0) + body


def build_cmap_table(spec: Dict[str, Any]) -> bytes:
    sts = spec["subtables"]
    bodies: List[bytes] = []
    body_index: Dict[int, int] = {}
    for i, st in enumerate(sts):
        if "same_as" in st:
            continue
        body_index[i] = len(bodies)
        bodies.append(_fmt0(st) if st["fmt"] == 0 else _fmt4(st))
    header_len = 4 + 8 * len(sts)
    offs = []
    pos = header_len
    for b in bodies:
        offs.append(pos)
        pos += len(b)
    out = struct.pack(">HH", 0, len(sts))
    # encoding records are sorted by platform, then encoding id (OpenType requirement)
    for i, st in sorted(enumerate(sts), key=lambda t: (t[1]["pid"], t[1]["eid"], t[0])):
        j = body_index[st["same_as"]] if "same_as" in st else body_index[i]
        out += struct.pack(">HHL", st["pid"], st["eid"], offs[j])
    return out + b"".join(bodies)


def build_ttf(spec: Dict[str, Any]) -> bytes:
    tables = {"cmap": build_cmap_table(spec)}
    for t in spec.get("extra_tables", []):
        tables[t] = (t.encode() * 9)[: 12 + 4 * (len(tables) % 5)]
    tags = sorted(tables)
    n = len(tags)
    sr = 1
    es = 0
    while sr * 2 <= n:
        sr *= 2
        es += 1
    out = struct.pack(">LHHHH", 0x00010000, n, sr * 16, es, n * 16 - sr * 16)
    pos = 12 + 16 * n
    recs = b""
    blob = b""
    for t in tags:
        d = tables[t]
        pad = (-len(d)) % 4
        padded = d + b"\0" * pad
        csum = sum(struct.unpack(">%dL" % (len(padded) // 4), padded)) & 0xFFFFFFFF
        recs += struct.pack(">4sLLL", t.encode().ljust(4), csum, pos, len(d))
        blob += padded
        pos += len(padded)
    return out + recs + blob


# --------------------------------------------------------------------------
# reference reading (OpenType 'cmap': format 0, format 4)
# --------------------------------------------------------------------------
def is_unicode_subtable(pid: int, eid: int) -> bool:
    """Platform 0 (Unicode) and platform 3 (Windows) encodings 1 (BMP) / 10 (full)."""
    return pid == 0 or (pid == 3 and eid in (1, 10))


def char2gid(spec: Dict[str, Any]) -> Dict[int, int]:
    """character code -> glyph id from the Unicode subtables (glyph 0 = missing glyph, left out)."""
    out: Dict[int, int] = {}
    sts = spec["subtables"]
    for st in sts:
        if not is_unicode_subtable(st["pid"], st["eid"]):
            continue
        src = sts[st["same_as"]] if "same_as" in st else st
        m: Dict[int, int] = {}
        if src["fmt"] == 0:
            for c, g in enumerate(src["gids"]):
                if g:
                    m[c] = g
        else:
            for s in src["segs"]:
                for k, c in enumerate(range(s["s"], s["e"] + 1)):
                    if "arr" in s:
                        raw = s["arr"][k]
                        g = 0 if raw == 0 else (raw + s["delta"]) & 0xFFFF
                    else:
                        g = (c + s["delta"]) & 0xFFFF
                    if g:
                        m[c] = g
        for c, g in m.items():
            if c in out and out[c] != g:
                raise ValueError("Unicode subtables disagree on U+%04X" % c)
            out[c] = g
    return out
