"""Reference ENCRYPTOR for the PDF standard security handler, written from the
specifications and independent of pdfminer:

  ISO 32000-1:2008 7.6.2 (Algorithm 1), 7.6.3.3 (Algorithms 2-5), 7.6.3.2 (Table 22, P)
  ISO 32000-2:2020 7.6.3.2 (Algorithm 1.A), 7.6.4.3 (Algorithms 2.A, 2.B), 7.6.4.4
                   (Algorithms 8, 9, 10)
  Adobe Supplement to ISO 32000, ExtensionLevel 3 (revision 5: as revision 6 but the
                   hash is a single SHA-256)
  RFC 4013 / RFC 3454 (SASLprep) for revision 5/6 passwords.

Primitives: RC4 is implemented here; MD5/SHA-2 come from hashlib; AES-CBC/ECB
from the `cryptography` package.  All randomness (file key, salts, IVs) is drawn
from the `random.Random` handed to the encryptor, so a document is reproducible
from its seed.

The encryptor plugs into `vf.gen.pdfw.Doc.build(encryptor=...)` and into
`build_sparse` below (same rendering, but with cross-reference subsections so
that very large object numbers do not cost one table row per unused number).
"""
from __future__ import annotations

import hashlib
import random
import stringprep
import unicodedata
import zlib
from typing import Any, Dict, Iterable, List, Optional, Tuple

from cryptography.hazmat.primitives.ciphers import Cipher, algorithms, modes

from vf.gen.pdfw import Doc, HexStr, Name, Ref, Stream, ser, ser_dict, ser_indirect

# ISO 32000-1 7.6.3.3, Algorithm 2 step (a): the 32-byte padding string
PAD = bytes.fromhex(
    "28BF4E5E4E758A4164004E56FFFA0108"
    "2E2E00B6D0683E802F0CA9FE6453697A"
)


# --------------------------------------------------------------------------
# primitives
# --------------------------------------------------------------------------
def rc4(key: bytes, data: bytes) -> bytes:
    """RC4 (symmetric stream cipher): key schedule followed by the output generator."""
    if not key:
        raise ValueError("empty RC4 key")
    S = list(range(256))
    j = 0
    kl = len(key)
    for i in range(256):
        j = (j + S[i] + key[i % kl]) & 0xFF
        S[i], S[j] = S[j], S[i]
    out = bytearray(len(data))
    i = j = 0
    for pos, c in enumerate(data):
        i = (i + 1) & 0xFF
        j = (j + S[i]) & 0xFF
        S[i], S[j] = S[j], S[i]
        out[pos] = c ^ S[(S[i] + S[j]) & 0xFF]
    return bytes(out)


def pkcs5_pad(data: bytes) -> bytes:
    """RFC 2898 / PKCS#5 padding to a multiple of 16: always 1..16 bytes of value n."""
    n = 16 - len(data) % 16
    return data + bytes([n]) * n


def aes_cbc_encrypt(key: bytes, iv: bytes, data: bytes) -> bytes:
    """AES-CBC without padding (len(data) % 16 == 0)."""
    assert len(data) % 16 == 0 and len(iv) == 16
    e = Cipher(algorithms.AES(key), modes.CBC(iv)).encryptor()
    return e.update(data) + e.finalize()


def aes_ecb_encrypt(key: bytes, data: bytes) -> bytes:
    assert len(data) % 16 == 0
    e = Cipher(algorithms.AES(key), modes.ECB()).encryptor()
    return e.update(data) + e.finalize()


def aes_cbc_decrypt(key: bytes, iv: bytes, data: bytes) -> bytes:
    d = Cipher(algorithms.AES(key), modes.CBC(iv)).decryptor()
    return d.update(data) + d.finalize()


def md5(b: bytes) -> bytes:
    return hashlib.md5(b).digest()


# --------------------------------------------------------------------------
# password preparation
# --------------------------------------------------------------------------
def legacy_password_ok(pw: str) -> bool:
    """Characters on which PDFDocEncoding and ISO 8859-1 agree (ISO 32000-1 Annex D.2):
    0x20-0x7E and 0xA1-0xFF except 0xAD (undefined in PDFDocEncoding)."""
    return all(0x20 <= ord(c) <= 0x7E or (0xA1 <= ord(c) <= 0xFF and ord(c) != 0xAD) for c in pw)


def prep_legacy(pw: str) -> bytes:
    """Algorithm 2 step (a), first half: the password in PDFDocEncoding (revisions 2-4)."""
    if not legacy_password_ok(pw):
        raise ValueError("password outside the PDFDocEncoding/Latin-1 common subset")
    return pw.encode("latin-1")


def pad32(pw: bytes) -> bytes:
    return (pw + PAD)[:32]


def saslprep_ref(s: str, stored: bool = True) -> str:
    """RFC 4013 SASLprep from the RFC 3454 tables of the standard library.
    Raises ValueError for prohibited output / failed bidi check."""
    # 2.1 mapping: non-ASCII spaces (C.1.2) -> U+0020, "commonly mapped to nothing" (B.1) removed
    out = []
    for ch in s:
        if stringprep.in_table_b1(ch):
            continue
        out.append(" " if stringprep.in_table_c12(ch) else ch)
    s = "".join(out)
    # 2.2 normalisation: NFKC (stringprep is defined over Unicode 3.2)
    s = unicodedata.ucd_3_2_0.normalize("NFKC", s)
    # 2.3 prohibited output
    for ch in s:
        if (stringprep.in_table_c12(ch) or stringprep.in_table_c21_c22(ch) or stringprep.in_table_c3(ch)
                or stringprep.in_table_c4(ch) or stringprep.in_table_c5(ch) or stringprep.in_table_c6(ch)
                or stringprep.in_table_c7(ch) or stringprep.in_table_c8(ch) or stringprep.in_table_c9(ch)):
            raise ValueError("prohibited character U+%04X" % ord(ch))
        if stored and stringprep.in_table_a1(ch):
            raise ValueError("unassigned code point U+%04X" % ord(ch))
    # 2.4 bidi (RFC 3454 section 6)
    has_ral = any(stringprep.in_table_d1(ch) for ch in s)
    if has_ral:
        if any(stringprep.in_table_d2(ch) for ch in s):
            raise ValueError("bidi: RandALCat and LCat mixed")
        if not (stringprep.in_table_d1(s[0]) and stringprep.in_table_d1(s[-1])):
            raise ValueError("bidi: RandALCat string must start and end with RandALCat")
    return s


def saslprep_stable(s: str) -> bool:
    try:
        return saslprep_ref(s) == s
    except ValueError:
        return False


def prep_utf8(pw: str) -> bytes:
    """Algorithm 2.A step (a),(b): SASLprep, UTF-8, truncate to 127 bytes."""
    return saslprep_ref(pw).encode("utf-8")[:127]


# --------------------------------------------------------------------------
# revisions 2-4 (ISO 32000-1 7.6.3.3)
# --------------------------------------------------------------------------
def alg2_key(user_pw: bytes, O: bytes, P: int, id0: bytes, R: int, keylen: int, encrypt_metadata: bool) -> bytes:
    """Algorithm 2: the file encryption key from the (PDFDocEncoded) user password."""
    h = hashlib.md5()
    h.update(pad32(user_pw))                       # (a),(b)
    h.update(O)                                    # (c)
    h.update((P & 0xFFFFFFFF).to_bytes(4, "little"))   # (d) low-order byte first
    h.update(id0)                                  # (e)
    if R >= 4 and not encrypt_metadata:            # (f)
        h.update(b"\xff\xff\xff\xff")
    d = h.digest()                                 # (g)
    n = 5 if R == 2 else keylen
    if R >= 3:                                     # (h)
        for _ in range(50):
            d = md5(d[:n])
    return d[:n]                                   # (i)


def alg3_O(owner_pw: Optional[bytes], user_pw: bytes, R: int, keylen: int) -> bytes:
    """Algorithm 3: the O entry.  No owner password -> the user password is used."""
    d = md5(pad32(owner_pw if owner_pw else user_pw))   # (a),(b)
    if R >= 3:                                          # (c)
        for _ in range(50):
            d = md5(d)
    n = 5 if R == 2 else keylen
    k = d[:n]                                           # (d)
    out = rc4(k, pad32(user_pw))                        # (e),(f)
    if R >= 3:                                          # (g)
        for i in range(1, 20):
            out = rc4(bytes(b ^ i for b in k), out)
    return out


def alg4_U(key: bytes) -> bytes:
    """Algorithm 4 (revision 2)."""
    return rc4(key, PAD)


def alg5_U(key: bytes, id0: bytes, tail: bytes) -> bytes:
    """Algorithm 5 (revision 3, 4); `tail` is the 16 bytes of arbitrary padding."""
    d = md5(PAD + id0)                     # (b),(c)
    out = rc4(key, d)                      # (d)
    for i in range(1, 20):                 # (e)
        out = rc4(bytes(b ^ i for b in key), out)
    assert len(tail) == 16
    return out + tail                      # (f)


def alg1_objkey(key: bytes, n: int, g: int, aes: bool) -> bytes:
    """Algorithm 1 steps (a)-(c): the per-object key."""
    m = key + (n & 0xFFFFFF).to_bytes(3, "little") + (g & 0xFFFF).to_bytes(2, "little")
    if aes:
        m += b"sAlT"
    return md5(m)[: min(len(key) + 5, 16)]


# --------------------------------------------------------------------------
# revisions 5, 6 (ISO 32000-2 7.6.4.3.3-4, 7.6.4.4.6-9)
# --------------------------------------------------------------------------
def hash_r5(pw: bytes, salt: bytes, udata: bytes = b"") -> bytes:
    return hashlib.sha256(pw + salt + udata).digest()


def hash_2B(pw: bytes, salt: bytes, udata: bytes = b"") -> bytes:
    """Algorithm 2.B: the hardened hash of revision 6."""
    K = hashlib.sha256(pw + salt + udata).digest()
    rounds = 0
    while True:
        K1 = (pw + K + udata) * 64                                  # (a)
        E = aes_cbc_encrypt(K[:16], K[16:32], K1)                   # (b)
        m = int.from_bytes(E[:16], "big") % 3                       # (c)
        K = (hashlib.sha256, hashlib.sha384, hashlib.sha512)[m](E).digest()   # (d)
        rounds += 1
        # (e),(f): at least 64 rounds, then until the last byte of E <= (rounds done) - 32
        if rounds >= 64 and E[-1] <= rounds - 32:
            break
    return K[:32]


def alg8_U_UE(pw: bytes, filekey: bytes, vsalt: bytes, ksalt: bytes, R: int) -> Tuple[bytes, bytes]:
    H = hash_2B if R == 6 else hash_r5
    U = H(pw, vsalt) + vsalt + ksalt
    UE = aes_cbc_encrypt(H(pw, ksalt), b"\0" * 16, filekey)
    return U, UE


def alg9_O_OE(pw: bytes, filekey: bytes, vsalt: bytes, ksalt: bytes, U: bytes, R: int) -> Tuple[bytes, bytes]:
    H = hash_2B if R == 6 else hash_r5
    assert len(U) == 48
    O = H(pw, vsalt, U) + vsalt + ksalt
    OE = aes_cbc_encrypt(H(pw, ksalt, U), b"\0" * 16, filekey)
    return O, OE


def alg10_perms(P: int, encrypt_metadata: bool, filekey: bytes, tail: bytes) -> bytes:
    assert len(tail) == 4
    block = (P & 0xFFFFFFFF).to_bytes(4, "little") + b"\xff\xff\xff\xff" + (b"T" if encrypt_metadata else b"F") + b"adb" + tail
    return aes_ecb_encrypt(filekey, block)


# --------------------------------------------------------------------------
# permissions (ISO 32000-1 Table 22)
# --------------------------------------------------------------------------
def make_P(rng: random.Random, R: int) -> int:
    """A conformant /P: bits 1-2 zero, bits 7-8 and 13-32 one, bits 3-6 random;
    bits 9-12 random for R>=3 (bit 10 kept 1 for R6, deprecated there) and one for R2.
    The result is the signed 32-bit value (always negative: bit 32 is set)."""
    v = 0xFFFFF000 | 0xC0
    for bit in (3, 4, 5, 6):
        if rng.random() < 0.5:
            v |= 1 << (bit - 1)
    for bit in (9, 10, 11, 12):
        if R == 2 or (R == 6 and bit == 10) or rng.random() < 0.5:
            v |= 1 << (bit - 1)
    return v - (1 << 32)


# --------------------------------------------------------------------------
# the encryptor
# --------------------------------------------------------------------------
def _dget(d: Dict[Any, Any], key: str) -> Any:
    if key in d:
        return d[key]
    return d.get(Name(key))


class StdEncryptor:
    """One configuration of the standard security handler.

    V, R           algorithm / revision: (1,2) (1,3) (2,3) (4,4) (5,5) (5,6)
    bits           key length in bits (40 for V1; 40..128 step 8 for V2; 128 for V4; 256 for V5)
    cfm            crypt filter method for V>=4: "V2", "AESV2", "AESV3" or "Identity"
    user, owner    PREPARED password bytes (prep_legacy / prep_utf8); owner None = no owner password
    P              signed 32-bit permissions
    id_mode        "present" | "empty" | "absent" ; id0/id1 the two ID strings when present
    encrypt_metadata   V>=4 only
    opts           write_length (write /Length; may be False for V2 with 40 bits and for V4/V5), cf_length (write the
                   crypt filter's own /Length; always written for CFM V2), cf_absent (Identity: omit /CF),
                   identity_default (Identity: omit StmF/StrF, relying on the default),
                   encrypt_direct (Encrypt dictionary direct in the trailer), hex_id
    """

    def __init__(self, V: int, R: int, bits: int, cfm: Optional[str], user: bytes, owner: Optional[bytes], P: int,
                 rng: random.Random, id_mode: str = "present", id0: bytes = b"", id1: bytes = b"",
                 encrypt_metadata: bool = True, **opts: Any) -> None:
        assert (V, R) in ((1, 2), (1, 3), (2, 3), (4, 4), (5, 5), (5, 6)), (V, R)
        self.V, self.R, self.bits, self.cfm = V, R, bits, cfm
        self.user, self.owner, self.P = user, owner, P
        self.rng = rng
        self.id_mode = id_mode
        if id_mode == "present":
            self.id = [id0, id1]
        elif id_mode == "empty":
            self.id = [b"", b""]
        else:
            # ISO 32000-1 Table 15 requires /ID with /Encrypt; pdfminer documents that a missing /ID is
            # read as two empty strings, which is what key derivation uses here.
            self.id = [b"", b""]
        self.encrypt_metadata = encrypt_metadata if V >= 4 else True
        self.opts = opts
        self.enc_ref: Optional[Ref] = None
        if V == 1:
            assert bits == 40
        elif V == 2:
            assert bits % 8 == 0 and 40 <= bits <= 128
        elif V == 4:
            assert bits == 128 and cfm in ("V2", "AESV2", "Identity")
        else:
            assert bits == 256 and cfm in ("AESV3", "Identity")
        if R <= 4:
            n = bits // 8
            self.O = alg3_O(owner, user, R, n)
            self.key = alg2_key(user, self.O, P, self.id[0], R, n, self.encrypt_metadata)
            self.U = alg4_U(self.key) if R == 2 else alg5_U(self.key, self.id[0], self._rand(16))
        else:
            self.key = self._rand(32)
            self.U, self.UE = alg8_U_UE(user, self.key, self._rand(8), self._rand(8), R)
            self.O, self.OE = alg9_O_OE(owner if owner is not None else b"", self.key, self._rand(8), self._rand(8), self.U, R)
            self.Perms = alg10_perms(P, self.encrypt_metadata, self.key, self._rand(4))
        self.n_strings = 0
        self.n_streams = 0
        self.n_exempt = 0

    def _rand(self, n: int) -> bytes:
        return bytes(self.rng.getrandbits(8) for _ in range(n))

    # -- data ------------------------------------------------------------
    def _crypt(self, n: int, g: int, data: bytes) -> bytes:
        if self.V < 4:
            return rc4(alg1_objkey(self.key, n, g, False), data)
        if self.cfm == "Identity":
            return data
        if self.cfm == "V2":
            return rc4(alg1_objkey(self.key, n, g, False), data)
        iv = self._rand(16)
        if self.cfm == "AESV2":
            return iv + aes_cbc_encrypt(alg1_objkey(self.key, n, g, True), iv, pkcs5_pad(data))
        return iv + aes_cbc_encrypt(self.key, iv, pkcs5_pad(data))     # Algorithm 1.A

    def string(self, n: int, g: int, plaintext: bytes) -> bytes:
        self.n_strings += 1
        return self._crypt(n, g, plaintext)

    def stream(self, n: int, g: int, data: bytes, d: Dict[Any, Any]) -> bytes:
        t = _dget(d, "Type")
        if t == Name("XRef"):
            self.n_exempt += 1
            return data                      # 7.5.8.2: cross-reference streams are never encrypted
        if t == Name("Metadata") and self.V >= 4 and not self.encrypt_metadata:
            self.n_exempt += 1
            return data                      # Table 20, EncryptMetadata false
        self.n_streams += 1
        return self._crypt(n, g, data)

    # -- dictionary --------------------------------------------------------
    def encrypt_dict(self) -> Dict[str, Any]:
        d: Dict[str, Any] = {"Filter": Name("Standard"), "V": self.V, "R": self.R}
        # Table 20: /Length is "only if V is 2 or 3" (default 40).  For V4/V5 the key length is fixed by the
        # crypt filter (128 / 256), the strictly conformant dictionary has no /Length; Acrobat writes 128 / 256.
        if self.opts.get("write_length", True):
            if self.V == 2:
                d["Length"] = self.bits
            elif self.V == 4:
                d["Length"] = 128
            elif self.V == 5:
                d["Length"] = 256
        else:
            assert self.V >= 4 or (self.V == 2 and self.bits == 40)
        if self.V >= 4:
            if self.cfm == "Identity":
                if not self.opts.get("cf_absent", False):
                    d["CF"] = {}
                if not self.opts.get("identity_default", False):
                    d["StmF"] = Name("Identity")
                    d["StrF"] = Name("Identity")
            else:
                cf: Dict[str, Any] = {"Type": Name("CryptFilter"), "CFM": Name(self.cfm), "AuthEvent": Name("DocOpen")}
                if self.opts.get("cf_length", True) or self.cfm == "V2":
                    cf["Length"] = self.bits // 8      # Table 25 (optional); the standard handler counts bytes
                d["CF"] = {"StdCF": cf}
                d["StmF"] = Name("StdCF")
                d["StrF"] = Name("StdCF")
            if not self.encrypt_metadata:
                d["EncryptMetadata"] = False
            elif self.opts.get("write_em_true", False):
                d["EncryptMetadata"] = True
        hexs = self.opts.get("hex_ou", False)
        w = (lambda b: HexStr(b)) if hexs else (lambda b: bytes(b))
        d["O"] = w(self.O)
        d["U"] = w(self.U)
        if self.V == 5:
            d["OE"] = w(self.OE)
            d["UE"] = w(self.UE)
            d["Perms"] = w(self.Perms)
        d["P"] = self.P
        return d

    def trailer_entries(self, doc: Doc) -> Dict[str, Any]:
        out: Dict[str, Any] = {}
        ed = self.encrypt_dict()
        if self.opts.get("encrypt_direct", False):
            out["Encrypt"] = ed
        else:
            self.enc_ref = doc.add(ed, self.opts.get("encrypt_objnum"))
            out["Encrypt"] = self.enc_ref
        if self.id_mode != "absent":
            if self.opts.get("hex_id", True):
                out["ID"] = [HexStr(self.id[0]), HexStr(self.id[1])]
            else:
                out["ID"] = [bytes(self.id[0]), bytes(self.id[1])]
        return out


# --------------------------------------------------------------------------
# renderer with cross-reference subsections (large object numbers)
# --------------------------------------------------------------------------
def _runs(nums: Iterable[int]) -> List[Tuple[int, int]]:
    out: List[Tuple[int, int]] = []
    for n in sorted(nums):
        if out and out[-1][0] + out[-1][1] == n:
            out[-1] = (out[-1][0], out[-1][1] + 1)
        else:
            out.append((n, 1))
    return out


def build_sparse(doc: Doc, xref: str = "table", objstm: Optional[List[List[int]]] = None, encryptor: Any = None,
                 header: bytes = b"%PDF-1.7\n%\xe2\xe3\xcf\xd3\n",
                 w: Tuple[int, Optional[int], int] = (1, 4, 2)) -> Tuple[bytes, Dict[str, Any]]:
    """Render `doc` like Doc.build, but write the cross-reference table in subsections
    (7.5.4) / the cross-reference stream with /Index (7.5.8.2), and allow several
    object streams.  `w` = the /W widths of the cross-reference stream (7.5.8.2, Table 17): w[0] must be 1,
    w[1] None = the smallest width that holds every offset / object stream number, w[2] in 0..2 where 0 means
    "field absent, value 0" and is only accepted when every generation number and every index inside an object
    stream is 0 (ValueError otherwise; a width that cannot hold a value is refused the same way).  -> (file bytes, info) with info = {"xref_objnum", "objstm_objnums", "members"}."""
    out = bytearray(header)
    offsets: Dict[int, int] = {}
    groups = [list(g) for g in (objstm or [])] if xref == "stream" else []
    trailer = dict(doc.trailer)
    noenc: set = set()
    if encryptor is not None:
        trailer.update(encryptor.trailer_entries(doc))
        er = trailer.get("Encrypt")
        if isinstance(er, Ref):
            noenc.add(er.n)
    packed: Dict[int, Tuple[int, int]] = {}
    clean_groups: List[List[int]] = []
    for g in groups:
        g2 = [n for n in sorted(set(g)) if n in doc.objs and not isinstance(doc.objs[n], Stream) and n not in noenc
              and doc.gens.get(n, 0) == 0 and n not in packed]
        for n in g2:
            packed[n] = (-1, -1)
        if g2:
            clean_groups.append(g2)

    def write_obj(n: int, g: int, o: Any) -> None:
        offsets[n] = len(out)
        if encryptor is not None and n not in noenc:
            hook = lambda b, n=n, g=g: encryptor.string(n, g, b)  # noqa: E731
            if isinstance(o, Stream):
                d = dict(o.d)
                data = encryptor.stream(n, g, o.data, d)
                d.setdefault("Length", len(data))
                out.extend(ser_indirect(n, g, Stream(d, data), hook))
            else:
                out.extend(ser_indirect(n, g, o, hook))
        else:
            out.extend(ser_indirect(n, g, o))

    for n in sorted(doc.objs):
        if n not in packed:
            write_obj(n, doc.gens.get(n, 0), doc.objs[n])
    nextn = max(list(doc.objs) + [0]) + 1
    stm_nums: List[int] = []
    for g in clean_groups:
        bodies = [ser(doc.objs[n]) for n in g]
        offs, pos = [], 0
        for b in bodies:
            offs.append(pos)
            pos += len(b) + 1
        head = b" ".join(b"%d %d" % (n, o) for n, o in zip(g, offs)) + b"\n"
        payload = head + b"\n".join(bodies) + b"\n"
        stm = Stream({"Type": Name("ObjStm"), "N": len(g), "First": len(head), "Filter": Name("FlateDecode")},
                     zlib.compress(payload))
        stm_n = nextn
        nextn += 1
        write_obj(stm_n, 0, stm)
        stm_nums.append(stm_n)
        for i, n in enumerate(g):
            packed[n] = (stm_n, i)
    info = {"xref_objnum": None, "objstm_objnums": stm_nums, "members": sorted(packed)}
    if xref == "table":
        startxref = len(out)
        out += b"xref\n"
        used = dict(offsets)
        rows: Dict[int, bytes] = {0: b"0000000000 65535 f \n"}
        for n, off in used.items():
            rows[n] = b"%010d %05d n \n" % (off, doc.gens.get(n, 0))
        for first, cnt in _runs(rows):
            out += b"%d %d\n" % (first, cnt)
            for n in range(first, first + cnt):
                out += rows[n]
        trailer["Size"] = nextn
        out += b"trailer\n" + ser_dict(trailer) + b"\nstartxref\n%d\n%%%%EOF\n" % startxref
        return bytes(out), info
    xn = nextn
    startxref = len(out)
    offsets[xn] = startxref
    triples: Dict[int, Tuple[int, int, int]] = {}
    for n, off in offsets.items():
        triples[n] = (1, off, doc.gens.get(n, 0))
    for n, (sn, idx) in packed.items():
        triples[n] = (2, sn, idx)
    w1, w2, w3 = w
    if w1 != 1 or w3 not in (0, 1, 2):
        raise ValueError("unsupported /W %r" % (w,))
    need2 = max(1, max((v[1].bit_length() + 7) // 8 for v in triples.values()))
    if w2 is None:
        w2 = need2
    if w2 < need2 or any(v[2] >= (1 << (8 * w3)) for v in triples.values()):
        raise ValueError("/W %r cannot hold the entries" % ((w1, w2, w3),))
    # object 0: head of the free list, generation 65535 as far as the field can hold it
    triples[0] = (0, 0, min(65535, (1 << (8 * w3)) - 1))
    entries: Dict[int, bytes] = {n: bytes([t]) + a.to_bytes(w2, "big") + b.to_bytes(w3, "big")
                                 for n, (t, a, b) in triples.items()}
    runs = _runs(entries)
    index: List[int] = []
    data = bytearray()
    for first, cnt in runs:
        index += [first, cnt]
        for n in range(first, first + cnt):
            data += entries[n]
    d: Dict[Any, Any] = {"Type": Name("XRef"), "Size": xn + 1, "W": [w1, w2, w3], "Index": index}
    d.update(trailer)
    d["Filter"] = Name("FlateDecode")
    out += ser_indirect(xn, 0, Stream(d, zlib.compress(bytes(data))))
    out += b"startxref\n%d\n%%%%EOF\n" % startxref
    info["xref_objnum"] = xn
    info["W"] = [w1, w2, w3]
    return bytes(out), info
