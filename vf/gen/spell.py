"""Spelling engine: one PDF object value -> many ISO 32000-1 7.3-conformant byte spellings.

Values use the vf.gen.pdfw model (None, bool, int, Real, Name, bytes, HexStr,
list, dict with Name keys, Ref).  `spell(value, rng, profile)` returns
(bytes, features, marks): the spelling, the set of non-canonical features it
uses, and byte offsets that lie *inside* multi-byte constructs (useful as read
buffer sizes so that a refill splits the construct).
"""
from __future__ import annotations

import random
from typing import Any, List, Set, Tuple

from vf.gen.pdfw import HexStr, Name, Real, Ref

WS_CHARS = [b" ", b"\t", b"\n", b"\r", b"\r\n", b"\x0c", b"\x00"]
EOLS = [b"\n", b"\r", b"\r\n"]
REGULAR_EXCL = set(b"()<>[]{}/%") | set(b"\x00\t\n\x0c\r ")
COMMENT_TEXTS = [b"", b" a comment", b"(", b")", b">>", b"<<", b"endobj", b"stream", b" 1 0 R", b"\\", b"/Name", b"<41", b"%%", b"\xff\x80"]
ESC_LETTERS = {0x0A: b"n", 0x0D: b"r", 0x09: b"t", 0x08: b"b", 0x0C: b"f", 0x28: b"(", 0x29: b")", 0x5C: b"\\"}
NOT_SUPERFLUOUS = set(b"nrtbf()\\01234567\r\n")


class Profile:
    """Probabilities of the non-canonical choices."""

    def __init__(self, minimal=0.3, comment=0.1, redundant=0.3, escape=0.3, octal=0.25, cont=0.08, superfl=0.05,
                 hexstr=0.4, hexws=0.2, name_esc=0.2, nul_ws=True, num_forms=0.4, balanced=0.5):
        self.__dict__.update(locals())
        del self.__dict__["self"]


class Speller:
    def __init__(self, rng: random.Random, profile: Profile) -> None:
        self.rng = rng
        self.p = profile
        self.features: Set[str] = set()
        self.out = bytearray()
        self.marks: List[int] = []
        self.last_regular = False  # does the output so far end with a regular character / open token?

    # ---- separators ------------------------------------------------------
    def _ws_piece(self) -> bytes:
        rng = self.rng
        if rng.random() < self.p.comment:
            self.features.add("comment")
            txt = rng.choice(COMMENT_TEXTS)
            if rng.random() < 0.3:
                txt = bytes(rng.choice([c for c in range(256) if c not in (10, 13)]) for _ in range(rng.randint(1, 6)))
            eol = rng.choice(EOLS)
            if eol == b"\r\n":
                self.marks.append(len(self.out) + 1 + len(txt) + 1)
            return b"%" + txt + eol
        chars = WS_CHARS if self.p.nul_ws else WS_CHARS[:-1]
        c = rng.choice(chars)
        if c != b" ":
            self.features.add("ws:%s" % {b"\t": "HT", b"\n": "LF", b"\r": "CR", b"\r\n": "CRLF", b"\x0c": "FF", b"\x00": "NUL"}[c])
        if c == b"\r\n":
            self.marks.append(len(self.out) + 1)
        return c

    def sep(self, next_regular: bool) -> None:
        """Emit the separator before the next token."""
        need = self.last_regular and next_regular
        rng = self.rng
        if not need and rng.random() < self.p.minimal:
            if self.out:
                self.features.add("minimal_delims")
            return
        if not self.out and rng.random() < 0.7:
            return
        n = 1
        if rng.random() < self.p.redundant:
            n = rng.randint(2, 4)
            self.features.add("redundant_ws")
        for _ in range(n):
            piece = self._ws_piece()
            self.out += piece
        self.last_regular = False

    def tok(self, b: bytes, starts_regular: bool, ends_regular: bool) -> None:
        self.sep(starts_regular)
        self.out += b
        self.last_regular = ends_regular

    # ---- leaves ----------------------------------------------------------
    def number_int(self, v: int) -> bytes:
        rng = self.rng
        s = b"%d" % abs(v)
        if rng.random() < self.p.num_forms:
            if rng.random() < 0.5:
                s = b"0" * rng.randint(1, 3) + s
                self.features.add("int_leading_zeros")
        sign = b"-" if v < 0 else b""
        if v >= 0 and rng.random() < self.p.num_forms * 0.5:
            sign = b"+"
            self.features.add("plus_sign")
        return sign + s

    def name(self, b: bytes) -> bytes:
        rng = self.rng
        out = bytearray(b"/")
        for c in b:
            must = c in REGULAR_EXCL or c == 0x23 or c == 0 or c == 0x0B  # VT: see C01 scope note
            if must or rng.random() < self.p.name_esc:
                self.marks.append(len(self.out) + len(out) + 1)
                self.marks.append(len(self.out) + len(out) + 2)
                h = b"%02x" % c if rng.random() < 0.5 else b"%02X" % c
                out += b"#" + h
                self.features.add("name_escape" if must else "name_escape_optional")
            else:
                out.append(c)
                if c >= 0x80:
                    self.features.add("name_raw_highbyte")
        return bytes(out)

    def literal_string(self, b: bytes) -> bytes:
        """Spell bytes as a literal string (ISO 32000-1 7.3.4.2)."""
        rng = self.rng
        p = self.p
        body = bytearray()
        base = len(self.out) + 1

        def cont() -> None:
            eol = rng.choice(EOLS)
            body.extend(b"\\" + eol)
            self.marks.append(base + len(body) - len(eol))
            if eol == b"\r\n":
                self.marks.append(base + len(body) - 1)
            self.features.add("continuation:" + {b"\n": "LF", b"\r": "CR", b"\r\n": "CRLF"}[eol])

        # which '(' / ')' may stay raw: matched pairs only
        raw_paren = [False] * len(b)
        if rng.random() < p.balanced:
            stack = []
            for i, c in enumerate(b):
                if c == 0x28:
                    stack.append(i)
                elif c == 0x29 and stack:
                    j = stack.pop()
                    if rng.random() < 0.8:
                        raw_paren[i] = raw_paren[j] = True
        short_octal_pending = False  # previous emission was a 1-2 digit octal escape
        for i, c in enumerate(b):
            after_cr_cont = False
            if rng.random() < p.cont:
                cont()
                short_octal_pending = False
                after_cr_cont = body.endswith(b"\\\r")  # a raw LF now would read as a CR LF continuation
            if c in (0x28, 0x29) and raw_paren[i]:
                body.append(c)
                self.features.add("balanced_parens")
                short_octal_pending = False
                continue
            isoct = 0x30 <= c <= 0x37
            forms = []
            if c not in (0x28, 0x29, 0x5C, 0x0D) and not (short_octal_pending and isoct) and not (after_cr_cont and c == 0x0A):
                forms.append(("raw", max(1.0 - p.escape - p.octal - p.superfl, 0.05)))
            if c in ESC_LETTERS:
                forms.append(("letter", p.escape))
            forms.append(("octal", p.octal))
            if c not in NOT_SUPERFLUOUS:
                forms.append(("superfluous", p.superfl))
            form = rng.choices([f for f, _ in forms], [w for _, w in forms])[0]
            if form == "raw":
                body.append(c)
                if c == 0x0A:
                    self.features.add("raw_LF_in_string")
                short_octal_pending = False
            elif form == "letter":
                body.extend(b"\\" + ESC_LETTERS[c])
                self.marks.append(base + len(body) - 1)
                self.features.add("escape_letter")
                short_octal_pending = False
            elif form == "superfluous":
                body.extend(b"\\" + bytes([c]))
                self.marks.append(base + len(body) - 1)
                self.features.add("superfluous_backslash")
                short_octal_pending = False
            else:
                full = b"%03o" % c
                nd = 3
                if rng.random() < 0.5:
                    nd = rng.randint(len(b"%o" % c), 3)
                digits = full[3 - nd:]
                body.extend(b"\\" + digits)
                for k in range(1, len(digits) + 1):
                    self.marks.append(base + len(body) - k)
                self.features.add("octal_%d" % nd)
                short_octal_pending = nd < 3
                if short_octal_pending:
                    self.features.add("octal_short")
        if rng.random() < p.cont:
            cont()
        return b"(" + bytes(body) + b")"

    def hex_string(self, b: bytes, odd: bool = False) -> bytes:
        rng = self.rng
        digits = b.hex().encode()
        if odd and digits.endswith(b"0"):
            digits = digits[:-1]
            self.features.add("hex_odd_length")
        out = bytearray(b"<")
        for d in digits:
            if rng.random() < self.p.hexws:
                out += rng.choice([b" ", b"\n", b"\r", b"\t", b"\x0c", b"\r\n", b"\x00"])
                self.features.add("hex_ws")
            ch = bytes([d])
            if rng.random() < 0.5:
                ch = ch.upper()
                if ch != bytes([d]):
                    self.features.add("hex_mixed_case")
            out += ch
        if rng.random() < self.p.hexws:
            out += rng.choice([b" ", b"\n"])
        out += b">"
        return bytes(out)

    # ---- emission (iterative, to allow very deep nesting) ----------------
    def emit_leaf(self, x: Any, odd_hex: bool) -> None:
        rng = self.rng
        if x is None:
            self.tok(b"null", True, True)
        elif x is True:
            self.tok(b"true", True, True)
        elif x is False:
            self.tok(b"false", True, True)
        elif isinstance(x, int):
            self.tok(self.number_int(x), True, True)
        elif isinstance(x, Real):
            self.sep(True)
            if "." in x.text:
                self.marks.append(len(self.out) + x.text.find("."))
                self.marks.append(len(self.out) + x.text.find(".") + 1)
            self.out += x.text.encode()
            self.last_regular = True
        elif isinstance(x, Name):
            self.sep(False)
            self.out += self.name(x.b)
            self.last_regular = True
        elif isinstance(x, HexStr) or (isinstance(x, bytes) and rng.random() < self.p.hexstr):
            self.sep(False)
            self.out += self.hex_string(bytes(x), odd_hex)
            self.features.add("hexstring")
            self.last_regular = False
        elif isinstance(x, bytes):
            self.sep(False)
            self.out += self.literal_string(x)
            self.last_regular = False
        elif isinstance(x, Ref):
            self.tok(b"%d" % x.n, True, True)
            self.tok(b"%d" % x.g, True, True)
            self.tok(b"R", True, True)
        else:
            raise TypeError(x)

    def emit_all(self, v: Any, odd_hex: bool = False) -> None:
        stack: List[Any] = [("v", v)]
        while stack:
            kind, x = stack.pop()
            if kind == "close":
                self.tok(b"]", False, False)
            elif kind == "close2":
                self.sep(False)
                self.marks.append(len(self.out) + 1)
                self.out += b">>"
                self.last_regular = False
            elif isinstance(x, list):
                self.tok(b"[", False, False)
                stack.append(("close", None))
                for e in reversed(x):
                    stack.append(("v", e))
            elif isinstance(x, dict):
                self.sep(False)
                self.marks.append(len(self.out) + 1)
                self.out += b"<<"
                self.last_regular = False
                stack.append(("close2", None))
                for k, e in reversed(list(x.items())):
                    stack.append(("v", e))
                    stack.append(("v", k))
            else:
                self.emit_leaf(x, odd_hex)


def spell(v: Any, rng: random.Random, profile: Profile = None, odd_hex: bool = False) -> Tuple[bytes, Set[str], List[int]]:
    sp = Speller(rng, profile or Profile())
    sp.emit_all(v, odd_hex)
    marks = sorted({m for m in sp.marks if 0 < m < len(sp.out)})
    return bytes(sp.out), sp.features, marks


def ends_regular(spelling: bytes) -> bool:
    """Does the spelling end in a regular character (so that a keyword may not follow directly)?"""
    return bool(spelling) and (spelling[-1] not in REGULAR_EXCL or spelling.endswith(b"/"))
