"""A small conformant PDF *writer* (ISO 32000-1 7.3, 7.5), independent of pdfminer.

Object model (python values):
    None, bool, int, float, Real("1.50"), Name(b"..."), bytes (string),
    HexStr(b"..."), list, dict (keys: str or Name), Ref(n[, g]),
    Stream(dict, encoded_data), Raw(b"pre-serialised bytes")

`ser(obj)` gives the canonical serialisation; `Doc` collects indirect objects and
renders a complete file with a classic cross-reference table or a
cross-reference stream (optionally packing objects into object streams).
"""
from __future__ import annotations

import zlib
from typing import Any, Callable, Dict, Iterable, List, Optional, Tuple, Union

WS = b"\x00\t\n\x0c\r "
DELIMS = b"()<>[]{}/%"


class Name:
    __slots__ = ("b",)

    def __init__(self, b: Union[bytes, str]) -> None:
        self.b = b.encode("latin-1") if isinstance(b, str) else bytes(b)

    def __eq__(self, o: object) -> bool:
        return isinstance(o, Name) and o.b == self.b

    def __hash__(self) -> int:
        return hash((Name, self.b))

    def __repr__(self) -> str:
        return "Name(%r)" % self.b


class Ref:
    __slots__ = ("n", "g")

    def __init__(self, n: int, g: int = 0) -> None:
        self.n = n
        self.g = g

    def __eq__(self, o: object) -> bool:
        return isinstance(o, Ref) and (o.n, o.g) == (self.n, self.g)

    def __hash__(self) -> int:
        return hash((Ref, self.n, self.g))

    def __repr__(self) -> str:
        return "Ref(%d)" % self.n


class Real:
    """A real number with its exact decimal spelling."""

    __slots__ = ("text",)

    def __init__(self, text: str) -> None:
        self.text = text

    @property
    def value(self) -> float:
        return float(self.text)

    def __repr__(self) -> str:
        return "Real(%r)" % self.text


class HexStr(bytes):
    """A string that is to be written in hexadecimal form."""


class Raw(bytes):
    """Bytes inserted verbatim into the output."""


class Stream:
    def __init__(self, d: Optional[Dict[Any, Any]] = None, data: bytes = b"", tail: bytes = b"\n") -> None:
        self.d: Dict[Any, Any] = dict(d or {})
        self.data = bytes(data)
        self.tail = tail    # what stands between the data and `endstream` (an EOL is recommended, not required)

    def __repr__(self) -> str:
        return "Stream(%r, %d bytes)" % (self.d, len(self.data))


def ser_name(b: bytes) -> bytes:
    out = bytearray(b"/")
    for c in b:
        if c < 33 or c > 126 or c in DELIMS or c == 0x23:
            out += b"#%02X" % c
        else:
            out.append(c)
    return bytes(out)


_ESC = {0x0A: b"\\n", 0x0D: b"\\r", 0x09: b"\\t", 0x08: b"\\b", 0x0C: b"\\f", 0x28: b"\\(", 0x29: b"\\)", 0x5C: b"\\\\"}


def ser_string(b: bytes) -> bytes:
    out = bytearray(b"(")
    for c in b:
        e = _ESC.get(c)
        if e is not None:
            out += e
        elif c < 32 or c > 126:
            out += b"\\%03o" % c
        else:
            out.append(c)
    out += b")"
    return bytes(out)


def ser_hex(b: bytes) -> bytes:
    return b"<" + b.hex().upper().encode() + b">"


def ser_float(x: float) -> bytes:
    if x != x or x in (float("inf"), float("-inf")):
        raise ValueError("not a PDF number: %r" % x)
    if x == int(x) and abs(x) < 1e15:
        return b"%d.0" % int(x)
    s = repr(x)
    if "e" in s or "E" in s:
        s = "%.12f" % x
        s = s.rstrip("0")
        if s.endswith("."):
            s += "0"
    return s.encode()


StrHook = Optional[Callable[[bytes], bytes]]


def ser(o: Any, strhook: StrHook = None) -> bytes:
    if o is None:
        return b"null"
    if o is True:
        return b"true"
    if o is False:
        return b"false"
    if isinstance(o, Raw):
        return bytes(o)
    if isinstance(o, int):
        return b"%d" % o
    if isinstance(o, float):
        return ser_float(o)
    if isinstance(o, Real):
        return o.text.encode()
    if isinstance(o, Name):
        return ser_name(o.b)
    if isinstance(o, HexStr):
        return ser_hex(strhook(bytes(o)) if strhook else bytes(o))
    if isinstance(o, (bytes, bytearray)):
        return ser_string(strhook(bytes(o)) if strhook else bytes(o))
    if isinstance(o, str):
        raise TypeError("str is ambiguous; use Name or bytes: %r" % o)
    if isinstance(o, Ref):
        return b"%d %d R" % (o.n, o.g)
    if isinstance(o, (list, tuple)):
        return b"[" + b" ".join(ser(v, strhook) for v in o) + b"]"
    if isinstance(o, dict):
        return ser_dict(o, strhook)
    if isinstance(o, Stream):
        raise TypeError("streams are indirect objects only")
    raise TypeError("cannot serialise %r" % (o,))


def ser_dict(d: Dict[Any, Any], strhook: StrHook = None) -> bytes:
    parts = [b"<<"]
    for k, v in d.items():
        kb = k.b if isinstance(k, Name) else k.encode("latin-1")
        parts.append(b" " + ser_name(kb) + b" " + ser(v, strhook))
    parts.append(b" >>")
    return b"".join(parts)


def ser_indirect(n: int, g: int, o: Any, strhook: StrHook = None, stream_data: Optional[bytes] = None,
                 stream_eol: bytes = b"\n", obj_sep: bytes = b"\n") -> bytes:
    """obj_sep: what separates the `obj` keyword from the value (white space; b"" = nothing when the value
    starts with a delimiter, 7.2.2: delimiters need no white space around them)."""
    if obj_sep != b"\n":
        body = ser_indirect(n, g, o, strhook, stream_data, stream_eol)
        head = b"%d %d obj" % (n, g)
        rest = body[len(head) + 1:]
        return head + (obj_sep if (obj_sep or rest[:1] in b"<[(/") else b" ") + rest
    if isinstance(o, Stream):
        d = dict(o.d)
        data = o.data if stream_data is None else stream_data
        if "Length" not in d:
            d["Length"] = len(data)
        return (b"%d %d obj\n" % (n, g) + ser_dict(d, strhook) + b"\nstream" + stream_eol + data
                + getattr(o, "tail", b"\n") + b"endstream\nendobj\n")
    return b"%d %d obj\n" % (n, g) + ser(o, strhook) + b"\nendobj\n"


def N(s: str) -> Name:
    return Name(s)


class Doc:
    """Collects indirect objects; renders one-revision files."""

    def __init__(self) -> None:
        self.objs: Dict[int, Any] = {}
        self.gens: Dict[int, int] = {}
        self._next = 1
        self.trailer: Dict[str, Any] = {}

    def alloc(self) -> Ref:
        n = self._next
        self._next += 1
        return Ref(n)

    def add(self, o: Any, n: Optional[int] = None) -> Ref:
        if n is None:
            n = self._next
        self._next = max(self._next, n + 1)
        self.objs[n] = o
        return Ref(n)

    def set(self, ref: Ref, o: Any) -> Ref:
        self.objs[ref.n] = o
        self._next = max(self._next, ref.n + 1)
        return ref

    # ------------------------------------------------------------------
    def build(
        self,
        xref: str = "table",
        objstm: Optional[Iterable[int]] = None,
        encryptor: Any = None,
        header: bytes = b"%PDF-1.7\n%\xe2\xe3\xcf\xd3\n",
        eol: bytes = b"\n",
        xref_compress: bool = True,
        stream_eol: bytes = b"\n",
        obj_sep: bytes = b"\n",
    ) -> bytes:
        """Render the document.

        xref: "table" or "stream".  objstm: object numbers to put into one
        object stream (xref="stream" only; streams are never packed).
        encryptor: object with .string(n,g,b), .stream(n,g,b,dict), and
        .trailer_entries(doc) -> dict (adds /Encrypt, /ID); its Encrypt
        dictionary object is written unencrypted.
        """
        out = bytearray(header)
        offsets: Dict[int, int] = {}
        packed = set(objstm or ()) if xref == "stream" else set()
        for n in list(packed):
            if n not in self.objs or isinstance(self.objs[n], Stream):
                packed.discard(n)
        trailer = dict(self.trailer)
        noenc: set = set()
        if encryptor is not None:
            extra = encryptor.trailer_entries(self)
            trailer.update(extra)
            enc_ref = trailer.get("Encrypt")
            if isinstance(enc_ref, Ref):
                noenc.add(enc_ref.n)
                packed.discard(enc_ref.n)

        def write_obj(n: int, o: Any) -> None:
            g = self.gens.get(n, 0)
            offsets[n] = len(out)
            if encryptor is not None and n not in noenc:
                hook = lambda b, n=n, g=g: encryptor.string(n, g, b)  # noqa: E731
                if isinstance(o, Stream):
                    d = dict(o.d)
                    data = encryptor.stream(n, g, o.data, d)
                    d.setdefault("Length", len(data))
                    out.extend(ser_indirect(n, g, Stream(d, data), hook, stream_eol=stream_eol, obj_sep=obj_sep))
                else:
                    out.extend(ser_indirect(n, g, o, hook, obj_sep=obj_sep))
            else:
                out.extend(ser_indirect(n, g, o, stream_eol=stream_eol, obj_sep=obj_sep))

        for n in sorted(self.objs):
            if n in packed:
                continue
            write_obj(n, self.objs[n])

        in_stm: Dict[int, Tuple[int, int]] = {}
        nextn = max(list(self.objs) + [0]) + 1
        if packed:
            order = sorted(packed)
            bodies = [ser(self.objs[n]) for n in order]
            offs = []
            pos = 0
            for b in bodies:
                offs.append(pos)
                pos += len(b) + 1
            head = b" ".join(b"%d %d" % (n, o) for n, o in zip(order, offs)) + b"\n"
            payload = head + b"\n".join(bodies) + b"\n"
            stm = Stream({"Type": Name("ObjStm"), "N": len(order), "First": len(head), "Filter": Name("FlateDecode")},
                         zlib.compress(payload))
            if getattr(self, "container_hook", None):
                self.container_hook("objstm", stm.d)     # fault injection into the writer-made dictionary
            stm_n = nextn
            nextn += 1
            write_obj(stm_n, stm)
            for i, n in enumerate(order):
                in_stm[n] = (stm_n, i)

        if xref == "table":
            startxref = len(out)
            size = nextn
            out += b"xref" + eol + b"0 %d" % size + eol
            for n in range(size):
                if n in offsets:
                    out += b"%010d %05d n \n" % (offsets[n], self.gens.get(n, 0))
                else:
                    out += b"0000000000 65535 f \n"
            trailer["Size"] = size
            out += b"trailer" + eol + ser_dict(trailer) + eol
            out += b"startxref" + eol + b"%d" % startxref + eol + b"%%EOF" + eol
            return bytes(out)

        # cross-reference stream
        xn = nextn
        size = xn + 1
        startxref = len(out)
        offsets[xn] = startxref
        rows = bytearray()
        for n in range(size):
            if n in offsets:
                rows += b"\x01" + offsets[n].to_bytes(4, "big") + self.gens.get(n, 0).to_bytes(2, "big")
            elif n in in_stm:
                rows += b"\x02" + in_stm[n][0].to_bytes(4, "big") + in_stm[n][1].to_bytes(2, "big")
            else:
                rows += b"\x00" + (0).to_bytes(4, "big") + (65535 if n == 0 else 0).to_bytes(2, "big")
        d: Dict[Any, Any] = {"Type": Name("XRef"), "Size": size, "W": [1, 4, 2]}
        d.update(trailer)
        data = bytes(rows)
        if xref_compress:
            d["Filter"] = Name("FlateDecode")
            data = zlib.compress(data)
        if getattr(self, "container_hook", None):
            self.container_hook("xref", d)
        out += ser_indirect(xn, 0, Stream(d, data))
        out += b"startxref" + eol + b"%d" % startxref + eol + b"%%EOF" + eol
        return bytes(out)


# --------------------------------------------------------------------------
# convenience: page documents
# --------------------------------------------------------------------------
def font_type1(base: str = "Helvetica", **extra: Any) -> Dict[str, Any]:
    d: Dict[str, Any] = {"Type": N("Font"), "Subtype": N("Type1"), "BaseFont": N(base)}
    d.update(extra)
    return d


def font_widths(name: str = "VF", first: int = 0, widths: Optional[List[Any]] = None, subtype: str = "TrueType",
                missing: Optional[int] = None, descent: int = -200, ascent: int = 800,
                encoding: Any = None, **extra: Any) -> Dict[str, Any]:
    """A simple font with an explicit /Widths table and a (non-embedded) descriptor."""
    widths = list(widths if widths is not None else [500] * 256)
    fd: Dict[str, Any] = {
        "Type": N("FontDescriptor"), "FontName": N(name), "Flags": 32, "FontBBox": [0, descent, 1000, ascent],
        "ItalicAngle": 0, "Ascent": ascent, "Descent": descent, "CapHeight": ascent, "StemV": 80,
    }
    if missing is not None:
        fd["MissingWidth"] = missing
    d: Dict[str, Any] = {
        "Type": N("Font"), "Subtype": N(subtype), "BaseFont": N(name), "FirstChar": first,
        "LastChar": first + len(widths) - 1, "Widths": widths, "FontDescriptor": fd,
    }
    if encoding is not None:
        d["Encoding"] = encoding
    d.update(extra)
    return d


def page_doc(pages: List[Dict[str, Any]], doc: Optional[Doc] = None, catalog_extra: Optional[Dict[str, Any]] = None,
             info: Optional[Dict[str, Any]] = None) -> Doc:
    """Build a flat-page-tree document.

    Each page: {"content": bytes | [bytes...] | Stream | [Stream...],
                "resources": dict, "mediabox": [..], plus any extra page keys
                under "extra"}.
    """
    doc = doc or Doc()
    cat = doc.alloc()
    pages_ref = doc.alloc()
    kids = []
    for p in pages:
        content = p.get("content", b"")
        if isinstance(content, (bytes, bytearray, Stream)):
            content = [content]
        crefs = []
        for c in content:
            st = c if isinstance(c, Stream) else Stream({}, bytes(c))
            crefs.append(doc.add(st))
        pd: Dict[str, Any] = {"Type": N("Page"), "Parent": pages_ref, "MediaBox": p.get("mediabox", [0, 0, 612, 792]),
                              "Resources": p.get("resources", {}),
                              "Contents": crefs[0] if len(crefs) == 1 else crefs}
        pd.update(p.get("extra", {}))
        kids.append(doc.add(pd))
    doc.set(pages_ref, {"Type": N("Pages"), "Kids": kids, "Count": len(kids)})
    c: Dict[str, Any] = {"Type": N("Catalog"), "Pages": pages_ref}
    c.update(catalog_extra or {})
    doc.set(cat, c)
    doc.trailer["Root"] = cat
    if info is not None:
        doc.trailer["Info"] = doc.add(info)
    return doc
