"""Documents whose only interesting content is a set of stream objects, each
written with a chosen *spelling* of the stream syntax (ISO 32000-1 7.3.8):

* `stream` followed by LF or CRLF (7.3.8.1: "CARRIAGE RETURN and LINE FEED or
  just LINE FEED, and not by a CARRIAGE RETURN alone");
* the data, exactly /Length bytes, then an optional end-of-line marker that is
  not part of the data ("There should be an end-of-line marker after the data
  and before endstream; this marker shall not be included in the stream length")
  and `endstream`;
* /Length, /Filter, /DecodeParms each a direct object or an indirect reference
  (the referenced object may be written *after* the stream in the file, or live
  in an object stream when the file has a cross-reference stream);
* /Filter a name or an array (elements direct or indirect), names in full or
  abbreviated form, optionally with a #xx escape (7.3.5: equivalent spelling);
* /DecodeParms absent, a dictionary (single filter), or an array with `null`
  (or an empty dictionary) for filters that have no parameters.

Independent of pdfminer; uses the serialiser of vf.gen.pdfw.
"""
from __future__ import annotations

import random
from typing import Any, Dict, List, Optional, Tuple

from vf.gen.pdfw import Doc, Name, Raw, Ref, Stream, ser, ser_dict
from vf.ref.filters import FULL_NAME

KW_EOLS = (b"\n", b"\r\n")
END_EOLS = (b"\n", b"\r\n", b"\r", b"")
DICT_SEPS = (b"\n", b"\r\n", b" ", b"")
LENGTH_MODES = ("direct", "indirect_before", "indirect_after")


def random_spelling(rng: random.Random, nfilters: int, has_params: bool) -> Dict[str, Any]:
    sp: Dict[str, Any] = {
        "kw_eol": rng.choice(KW_EOLS),
        "end_eol": rng.choice((b"\n", b"\n", b"\r\n", b"\r", b"")),
        "dict_sep": rng.choice((b"\n", b"\n", b"\r\n", b" ", b"", b" %stream\n", b"\n% endstream comment\r\n")),
        "length": rng.choice(LENGTH_MODES),
        "length_pos": rng.choice(("first", "last", "middle")),
        "abbrev": [rng.random() < 0.4 for _ in range(nfilters)],
        "escape": [rng.random() < 0.1 for _ in range(nfilters)],
        "extra": rng.random() < 0.5,
    }
    if nfilters == 0:
        sp["filter_form"] = rng.choice(("absent", "absent", "empty_array"))
    elif nfilters == 1:
        sp["filter_form"] = rng.choice(("name", "array"))
    else:
        sp["filter_form"] = "array"
    sp["filter_ref"] = rng.choice(("direct", "direct", "indirect", "elems_indirect"))
    if has_params:
        if nfilters == 1:
            # one filter: the parameter dictionary itself (7.3.8.2 table 5); the
            # one-element array form only together with the array form of /Filter
            sp["parms_form"] = "array" if (sp["filter_form"] == "array" and rng.random() < 0.5) else "dict"
        else:
            sp["parms_form"] = "array"
    else:
        sp["parms_form"] = rng.choice(("absent", "absent", "array") if nfilters >= 2 else
                                      ("absent", "absent", "empty_dict") if nfilters == 1 else ("absent",))
    sp["parms_null"] = rng.choice(("null", "null", "empty_dict", "mixed"))
    sp["parms_ref"] = rng.choice(("direct", "direct", "indirect", "elems_indirect"))
    sp["values_indirect"] = rng.random() < 0.25
    sp["omit_defaults"] = rng.random() < 0.5
    return sp


def filter_name(abbr: str, abbrev: bool, escape: bool, rng: Optional[random.Random] = None) -> Any:
    nm = abbr if abbrev else FULL_NAME[abbr]
    if escape:
        # write one regular character of the name as #xx (same name, 7.3.5)
        k = (rng.randrange(len(nm)) if rng is not None else 0)
        return Raw(b"/" + nm[:k].encode() + b"#%02X" % ord(nm[k]) + nm[k + 1:].encode())
    return Name(nm)


class StreamDocBuilder:
    """Collects streams + auxiliary objects, then renders a one-revision file
    with a classic cross-reference table and full control over the physical
    order of the objects."""

    def __init__(self, rng: random.Random) -> None:
        self.rng = rng
        self.objs: Dict[int, bytes] = {}       # object number -> complete 'n 0 obj ... endobj' bytes
        self.before: Dict[int, List[int]] = {}  # stream object -> helper objects that must precede it
        self.after: Dict[int, List[int]] = {}   # stream object -> helper objects that must follow it
        self.next = 1
        self.streams: List[int] = []
        self.cat = self._alloc()
        self.pages = self._alloc()
        self.objs[self.cat] = self._plain(self.cat, {"Type": Name("Catalog"), "Pages": Ref(self.pages)})
        self.objs[self.pages] = self._plain(self.pages, {"Type": Name("Pages"), "Kids": [], "Count": 0})
        self.helpers_anywhere: List[int] = []

    def _alloc(self) -> int:
        n = self.next
        self.next += 1
        return n

    def _plain(self, n: int, o: Any) -> bytes:
        eol = self.rng.choice((b"\n", b"\n", b"\r\n", b" "))
        return b"%d 0 obj" % n + eol + ser(o) + self.rng.choice((b"\n", b"\r\n", b" ")) + b"endobj" + self.rng.choice((b"\n", b"\r\n"))

    def _helper(self, o: Any) -> Ref:
        """an auxiliary indirect object, written anywhere in the file"""
        n = self._alloc()
        self.objs[n] = self._plain(n, o)
        self.helpers_anywhere.append(n)
        return Ref(n)

    # ------------------------------------------------------------------
    def add_stream(self, encoded: bytes, chain: List[Dict[str, Any]], sp: Dict[str, Any]) -> int:
        """chain: [{"f": abbr, "parms": dict-or-None}, ...] in decoding order.
        Returns the object number of the stream."""
        rng = self.rng
        # reserve the stream's number first or last so that helper objects get
        # both smaller and larger numbers than the stream
        early = rng.random() < 0.5
        sn = self._alloc() if early else None

        entries: List[Tuple[str, Any]] = []
        # ---- /Filter
        names = [filter_name(st["f"], sp["abbrev"][i], sp["escape"][i], rng) for i, st in enumerate(chain)]
        form = sp["filter_form"]
        fval: Any = None
        if form == "name":
            fval = names[0]
        elif form in ("array", "empty_array"):
            if sp["filter_ref"] == "elems_indirect":
                fval = [(self._helper(nm) if rng.random() < 0.6 else nm) for nm in names]
            else:
                fval = list(names)
        if fval is not None:
            if sp["filter_ref"] == "indirect":
                fval = self._helper(fval)
            entries.append(("Filter", fval))
        # ---- /DecodeParms
        pform = sp["parms_form"]
        pval: Any = None

        def pdict(st: Dict[str, Any]) -> Any:
            p = st.get("parms")
            if p is None:
                k = sp["parms_null"]
                if k == "mixed":
                    k = rng.choice(("null", "empty_dict"))
                return None if k == "null" else {}
            items = list(p.items())
            if sp["omit_defaults"]:
                dfl = {"Colors": 1, "BitsPerComponent": 8, "Columns": 1, "EarlyChange": 1, "Predictor": 1}
                items = [(k, v) for k, v in items if dfl.get(k) != v]
            rng.shuffle(items)
            d: Dict[str, Any] = {}
            for k, v in items:
                d[k] = self._helper(v) if (sp["values_indirect"] and rng.random() < 0.5) else v
            return d

        if pform == "dict":
            pval = pdict(chain[0])
            if pval is None:
                pval = {}
        elif pform == "empty_dict":
            pval = {}
        elif pform == "array":
            elems = [pdict(st) for st in chain]
            if sp["parms_ref"] == "elems_indirect":
                elems = [(self._helper(e) if (e is not None and rng.random() < 0.6) else e) for e in elems]
            pval = elems
        if pval is not None:
            if sp["parms_ref"] == "indirect":
                pval = self._helper(pval)
            entries.append(("DecodeParms", pval))
        if sp["extra"]:
            entries.append(("Type", Name("XObject")))
            entries.append(("Subtype", Name("Image")))
            entries.append(("Width", 1))
            entries.append(("Height", 1))
            entries.append(("DL", 12345))
            if rng.random() < 0.5:
                # a string and a name that merely contain the keywords
                entries.append(("Note", rng.choice((b"stream\r\n", b"endstream endobj", b">> stream\n", b"(endstream)"))))
                entries.append(("Name", Name(rng.choice(("stream", "endstream", "Length")))))
                entries.append(("Nested", {"Length": 7, "Filter": Name("ASCIIHexDecode"), "A": [1, {"Length": 9}]}))
        rng.shuffle(entries)
        if sn is None:
            sn = self._alloc()
        # ---- /Length
        lmode = sp["length"]
        if lmode == "direct":
            lval: Any = len(encoded)
        else:
            ln = self._alloc()
            self.objs[ln] = self._plain(ln, len(encoded))
            (self.before if lmode == "indirect_before" else self.after).setdefault(sn, []).append(ln)
            lval = Ref(ln)
        lp = sp["length_pos"]
        pos = 0 if lp == "first" else len(entries) if lp == "last" else rng.randint(0, len(entries))
        entries.insert(pos, ("Length", lval))
        d = dict(entries)
        body = (b"%d 0 obj" % sn + rng.choice((b"\n", b"\r\n", b" ")) + ser_dict(d) + sp["dict_sep"] + b"stream" + sp["kw_eol"]
                + encoded + sp["end_eol"] + b"endstream" + rng.choice((b"\n", b"\r\n", b" ")) + b"endobj" + rng.choice((b"\n", b"\r\n")))
        self.objs[sn] = body
        self.streams.append(sn)
        return sn

    # ------------------------------------------------------------------
    def build(self) -> bytes:
        rng = self.rng
        # physical order: random, respecting before/after constraints
        units: List[List[int]] = [[self.cat], [self.pages]]
        for sn in self.streams:
            units.append(list(self.before.get(sn, [])) + [sn] + list(self.after.get(sn, [])))
        for h in self.helpers_anywhere:
            units.append([h])
        rng.shuffle(units)
        out = bytearray(b"%PDF-1.7\n%\xe2\xe3\xcf\xd3\n")
        offsets: Dict[int, int] = {}
        for u in units:
            for n in u:
                offsets[n] = len(out)
                out += self.objs[n]
        startxref = len(out)
        size = self.next
        out += b"xref\n0 %d\n" % size
        for n in range(size):
            if n in offsets:
                out += b"%010d 00000 n \n" % offsets[n]
            else:
                out += b"0000000000 65535 f \n"
        out += b"trailer\n" + ser_dict({"Size": size, "Root": Ref(self.cat)}) + b"\nstartxref\n%d\n%%%%EOF\n" % startxref
        return bytes(out)


def build_xrefstream_doc(rng: random.Random, items: List[Tuple[bytes, List[Dict[str, Any]], Dict[str, Any]]]) -> Tuple[bytes, List[int]]:
    """Same streams in a file with a cross-reference *stream*; the indirect
    /Length, /Filter and /DecodeParms objects are packed into an object stream.
    Uses pdfw.Doc (stream keyword EOL is per document there; the EOL before
    endstream is LF)."""
    doc = Doc()
    cat = doc.alloc()
    pages = doc.add({"Type": Name("Pages"), "Kids": [], "Count": 0})
    doc.set(cat, {"Type": Name("Catalog"), "Pages": pages})
    doc.trailer["Root"] = cat
    packed: List[int] = [pages.n]
    sns: List[int] = []
    kw_eol = rng.choice(KW_EOLS)
    for encoded, chain, sp in items:
        def helper(o: Any) -> Ref:
            r = doc.add(o)
            if rng.random() < 0.8:
                packed.append(r.n)
            return r

        d: Dict[str, Any] = {}
        names = [filter_name(st["f"], sp["abbrev"][i], False) for i, st in enumerate(chain)]
        if names:
            fval: Any = names[0] if (len(names) == 1 and sp["filter_form"] == "name") else [
                (helper(nm) if sp["filter_ref"] == "elems_indirect" else nm) for nm in names]
            if sp["filter_ref"] == "indirect":
                fval = helper(fval)
            d["Filter"] = fval
        if any(st.get("parms") is not None for st in chain):
            elems: List[Any] = []
            for st in chain:
                p = st.get("parms")
                if p is None:
                    elems.append(None)
                else:
                    pd = {k: (helper(v) if sp["values_indirect"] and rng.random() < 0.5 else v) for k, v in p.items()}
                    elems.append(helper(pd) if sp["parms_ref"] == "elems_indirect" else pd)
            pval: Any = elems[0] if (len(chain) == 1 and sp["parms_form"] == "dict") else elems
            if sp["parms_ref"] == "indirect":
                pval = helper(pval)
            d["DecodeParms"] = pval
        if sp["length"] == "direct":
            sref = doc.add(Stream(d, encoded))
        else:
            if sp["length"] == "indirect_before":
                lref = helper(len(encoded))
                d["Length"] = lref
                sref = doc.add(Stream(d, encoded))
            else:
                sref = doc.alloc()
                lref = helper(len(encoded))
                d["Length"] = lref
                doc.set(sref, Stream(d, encoded))
        sns.append(sref.n)
    pdf = doc.build(xref="stream", objstm=packed, stream_eol=kw_eol, xref_compress=rng.random() < 0.7)
    return pdf, sns
