"""Regenerate MANIFEST.json from the check modules that exist (python -m vf.mkmanifest)."""
from __future__ import annotations

import importlib
import json
import os

import vf  # noqa: F401
from vf import VERIF_ROOT

ALL = ["C%02d" % i for i in range(1, 21)]


def main() -> None:
    checks = []
    na = []
    for pid in ALL:
        path = os.path.join(VERIF_ROOT, "vf", "checks", pid.lower() + ".py")
        ready = open(os.path.join(VERIF_ROOT, "vf", "checks", "READY")).read().split()
        if not os.path.exists(path) or pid not in ready:
            na.append({"property_id": pid, "reason": "check not built yet (work in progress; see DESIGN.md section %s for the planned monitor)" % pid})
            continue
        mod = importlib.import_module("vf.checks." + pid.lower())
        checks.append(
            {
                "property_id": pid,
                "quick_cmd": "./check %s --tier quick" % pid,
                "thorough_cmd": "./check %s --tier thorough" % pid,
                "evidence_file": "/verif/evidence/%s.json" % pid,
                "replay_cmd_template": "./check %s --replay {path}" % pid,
                "engine": "vf",
                "level_claimed": {
                    "category": mod.LEVEL,
                    "text": getattr(mod, "LEVEL_TEXT", mod.RULE),
                    "design_ref": mod.DESIGN_REF,
                },
                "level_note": "; ".join(mod.ASSUMPTIONS),
                "technique": getattr(mod, "TECHNIQUE", "runtime monitoring: generated workload + reference-model oracle on the real code"),
            }
        )
    man = {
        "version": 1,
        "setup_cmd": "./setup.sh",
        "hooks": {
            "guard": "PDFMINER_SIX_VERIF",
            "enable": "no source hooks are needed: every monitor attaches from the harness (subclass wrappers, sys.monitoring, sys.addaudithook); checks import /repo's working tree directly (VERIF_REPO overrides the tree)",
            "baseline_off_cmd": "cd /repo && /venv/bin/python -m pytest -ra -q -p no:cacheprovider --timeout=900 --continue-on-collection-errors",
            "source_commits": [],
            "add_only": True,
        },
        "engines": [
            {
                "name": "vf",
                "path": "/verif/vf",
                "serves_properties": [c["property_id"] for c in checks],
                "kind_free_text": "python harness: sharded subprocess runner, generators (PDF writer, reference encoders), reference-model oracles, sys.monitoring step budgets, audit hooks, known-finding classifier, evidence writer",
            }
        ],
        "checks": checks,
        "not_applicable": na,
        "notes": "Runtime monitoring only. Exit 0 held / 1 violation (VIOLATION lines) / 2 vacuous or inconclusive run. Known findings live in /verif/known_findings.json; repairs are 'fix:' commits in /repo.",
    }
    with open(os.path.join(VERIF_ROOT, "MANIFEST.json"), "w") as f:
        json.dump(man, f, indent=1)
    print("MANIFEST.json: %d checks, %d not_applicable" % (len(checks), len(na)))


if __name__ == "__main__":
    main()
