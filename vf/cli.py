"""./check <ID> [--tier quick|thorough] [--seed N] [--jobs N] [--replay FILE]"""
from __future__ import annotations

import argparse
import os
import sys


def main() -> int:
    ap = argparse.ArgumentParser()
    ap.add_argument("pid")
    ap.add_argument("--tier", default=os.environ.get("VERIF_TIER") or "quick", choices=["quick", "thorough"])
    ap.add_argument("--seed", type=int, default=None)
    ap.add_argument("--jobs", type=int, default=int(os.environ.get("VERIF_JOBS", "0")) or (os.cpu_count() or 4))
    ap.add_argument("--replay", default=None)
    a = ap.parse_args()
    seed = a.seed
    if seed is None:
        try:
            seed = int(os.environ.get("VERIF_SEED", "0") or 0)
        except ValueError:
            seed = 0
    import vf  # noqa: F401
    from vf import runner

    pid = a.pid.upper()
    if a.replay:
        return runner.run_replay(pid, a.replay)
    return runner.run_check(pid, a.tier, seed, a.jobs)


if __name__ == "__main__":
    sys.exit(main())
