"""Reference models for C17, written from ISO 32000-1 (never from pdfminer).

* 7.9.2.2 / Annex D.2   text strings: UTF-16BE after a FE FF byte-order mark, else PDFDocEncoding
* 7.9.6 / 7.9.7         name trees and number trees (validate / flatten / lookup using Limits)
* 12.4.2                page labels
* 12.3.3                document outline (pre-order with nesting level)

All functions operate on the *generator's* object model (vf.gen.pdfw values
inside a pdfw.Doc), i.e. on what was written, not on what pdfminer parsed.
"""
from __future__ import annotations

import unicodedata
from typing import Any, Dict, List, Optional, Tuple

from vf.gen.pdfw import Doc, Name, Raw, Real, Ref, Stream

# --------------------------------------------------------------------------
# Annex D.2: PDFDocEncoding.  Only the part that differs from ISO Latin-1 is
# transcribed; 0x20-0x7E are ASCII and 0xA1-0xFF (except 0xAD) are Latin-1.
# --------------------------------------------------------------------------
_PDFDOC_SPECIAL: Dict[int, Tuple[int, str]] = {
    0x18: (0x02D8, "BREVE"),
    0x19: (0x02C7, "CARON"),
    0x1A: (0x02C6, "MODIFIER LETTER CIRCUMFLEX ACCENT"),
    0x1B: (0x02D9, "DOT ABOVE"),
    0x1C: (0x02DD, "DOUBLE ACUTE ACCENT"),
    0x1D: (0x02DB, "OGONEK"),
    0x1E: (0x02DA, "RING ABOVE"),
    0x1F: (0x02DC, "SMALL TILDE"),
    0x80: (0x2022, "BULLET"),
    0x81: (0x2020, "DAGGER"),
    0x82: (0x2021, "DOUBLE DAGGER"),
    0x83: (0x2026, "HORIZONTAL ELLIPSIS"),
    0x84: (0x2014, "EM DASH"),
    0x85: (0x2013, "EN DASH"),
    0x86: (0x0192, "LATIN SMALL LETTER F WITH HOOK"),
    0x87: (0x2044, "FRACTION SLASH"),
    0x88: (0x2039, "SINGLE LEFT-POINTING ANGLE QUOTATION MARK"),
    0x89: (0x203A, "SINGLE RIGHT-POINTING ANGLE QUOTATION MARK"),
    0x8A: (0x2212, "MINUS SIGN"),
    0x8B: (0x2030, "PER MILLE SIGN"),
    0x8C: (0x201E, "DOUBLE LOW-9 QUOTATION MARK"),
    0x8D: (0x201C, "LEFT DOUBLE QUOTATION MARK"),
    0x8E: (0x201D, "RIGHT DOUBLE QUOTATION MARK"),
    0x8F: (0x2018, "LEFT SINGLE QUOTATION MARK"),
    0x90: (0x2019, "RIGHT SINGLE QUOTATION MARK"),
    0x91: (0x201A, "SINGLE LOW-9 QUOTATION MARK"),
    0x92: (0x2122, "TRADE MARK SIGN"),
    0x93: (0xFB01, "LATIN SMALL LIGATURE FI"),
    0x94: (0xFB02, "LATIN SMALL LIGATURE FL"),
    0x95: (0x0141, "LATIN CAPITAL LETTER L WITH STROKE"),
    0x96: (0x0152, "LATIN CAPITAL LIGATURE OE"),
    0x97: (0x0160, "LATIN CAPITAL LETTER S WITH CARON"),
    0x98: (0x0178, "LATIN CAPITAL LETTER Y WITH DIAERESIS"),
    0x99: (0x017D, "LATIN CAPITAL LETTER Z WITH CARON"),
    0x9A: (0x0131, "LATIN SMALL LETTER DOTLESS I"),
    0x9B: (0x0142, "LATIN SMALL LETTER L WITH STROKE"),
    0x9C: (0x0153, "LATIN SMALL LIGATURE OE"),
    0x9D: (0x0161, "LATIN SMALL LETTER S WITH CARON"),
    0x9E: (0x017E, "LATIN SMALL LETTER Z WITH CARON"),
    0xA0: (0x20AC, "EURO SIGN"),
}

# third opinion on the hand transcription: the Unicode character database must
# give exactly the character name the standard prints next to the code.
for _c, (_u, _n) in _PDFDOC_SPECIAL.items():
    if unicodedata.name(chr(_u)) != _n:  # pragma: no cover - table typo
        raise AssertionError("PDFDocEncoding transcription: 0x%02X U+%04X is %s, table says %s"
                             % (_c, _u, unicodedata.name(chr(_u)), _n))

PDFDOC_UNDEFINED = frozenset([0x7F, 0x9F, 0xAD])
# HT, LF and CR: text strings may carry them (they are the only controls Annex D
# lists); every other code below 0x18 is left out as not defined by the table.
PDFDOC_CONTROLS = (0x09, 0x0A, 0x0D)


def _build_pdfdoc() -> Dict[int, str]:
    t: Dict[int, str] = {}
    for c in PDFDOC_CONTROLS:
        t[c] = chr(c)
    for c in range(0x20, 0x7F):
        t[c] = chr(c)
    for c in range(0xA1, 0x100):
        if c not in PDFDOC_UNDEFINED:
            t[c] = chr(c)
    for c, (u, _) in _PDFDOC_SPECIAL.items():
        t[c] = chr(u)
    return t


PDFDOC: Dict[int, str] = _build_pdfdoc()          # defined codes only
PDFDOC_CODES: List[int] = sorted(PDFDOC)
assert len(PDFDOC) == 3 + 95 + 8 + 31 + 1 + (95 - 1)
assert len(set(PDFDOC.values())) == len(PDFDOC)   # the encoding is injective


def decode_text_string(b: bytes) -> str:
    """7.9.2.2: FE FF => UTF-16BE (the mark is not part of the text), else PDFDocEncoding.

    Raises KeyError for a byte the PDFDocEncoding table leaves undefined and
    UnicodeDecodeError for ill-formed UTF-16 (the generators produce neither)."""
    if b[:2] == b"\xfe\xff":
        return b[2:].decode("utf-16-be", "strict")
    return "".join(PDFDOC[c] for c in b)


# --------------------------------------------------------------------------
# 12.4.2 page labels
# --------------------------------------------------------------------------
_ROMAN = [(1000, "m"), (900, "cm"), (500, "d"), (400, "cd"), (100, "c"), (90, "xc"), (50, "l"), (40, "xl"),
          (10, "x"), (9, "ix"), (5, "v"), (4, "iv"), (1, "i")]


def roman_lower(n: int) -> str:
    if not 1 <= n <= 3999:
        raise ValueError("roman numeral outside 1..3999: %d" % n)
    out = []
    for v, s in _ROMAN:
        while n >= v:
            out.append(s)
            n -= v
    return "".join(out)


def letters_lower(n: int) -> str:
    """Table 159: 'a to z for the first 26 pages, aa to zz for the next 26, and so on'."""
    if n < 1:
        raise ValueError("letter label for %d" % n)
    q, r = divmod(n - 1, 26)
    return chr(ord("a") + r) * (q + 1)


def numeral(style: Optional[str], n: int) -> str:
    if style is None:
        return ""
    if style == "D":
        return "%d" % n
    if style == "R":
        return roman_lower(n).upper()
    if style == "r":
        return roman_lower(n)
    if style == "A":
        return letters_lower(n).upper()
    if style == "a":
        return letters_lower(n)
    raise ValueError(style)


def page_labels(ranges: List[Dict[str, Any]], npages: int) -> List[str]:
    """ranges: [{"start": int, "S": style|None, "P": str (decoded prefix), "St": int}], any order.
    Page i belongs to the range with the greatest start <= i; its label is
    prefix + numeral(St + (i - start))."""
    rs = sorted(ranges, key=lambda r: r["start"])
    assert rs and rs[0]["start"] == 0, "12.4.2: the tree shall include a value for page index 0"
    out = []
    for i in range(npages):
        cur = None
        for r in rs:
            if r["start"] <= i:
                cur = r
            else:
                break
        out.append(cur["P"] + numeral(cur["S"], cur["St"] + (i - cur["start"])))
    return out


def range_of_page(ranges: List[Dict[str, Any]], i: int) -> Dict[str, Any]:
    cur = None
    for r in sorted(ranges, key=lambda r: r["start"]):
        if r["start"] <= i:
            cur = r
    return cur


# --------------------------------------------------------------------------
# 7.9.6 / 7.9.7 trees
# --------------------------------------------------------------------------
class TreeError(Exception):
    """The generated tree is not conformant (a harness bug, never a verdict)."""


def deref(doc: Doc, o: Any) -> Any:
    n = 0
    while isinstance(o, Ref):
        o = doc.objs[o.n]
        n += 1
        if n > 50:
            raise TreeError("reference chain")
    return o


def _get(d: Dict[Any, Any], key: str) -> Any:
    for k, v in d.items():
        kb = k.b if isinstance(k, Name) else k.encode("latin-1")
        if kb == key.encode("latin-1"):
            return v
    return None


def tree_validate(doc: Doc, root: Any, leafkey: str) -> Dict[str, int]:
    """Check the structural rules of Tables 36/37 and return shape statistics.

    root without Limits and with exactly one of leafkey/Kids; every other node
    with Limits = [least, greatest] key below it; leaves sorted strictly
    ascending; Kids are indirect references; intermediate nodes have Kids only."""
    stats = {"nodes": 0, "leaves": 0, "depth": 0, "maxfan": 0, "entries": 0, "direct_kids": 0, "limit_elem_refs": 0}
    leaf_depths: set = set()

    def walk(node: Any, is_root: bool, depth: int) -> Tuple[Any, Any]:
        d = deref(doc, node)
        if not isinstance(d, dict):
            raise TreeError("node is not a dictionary")
        stats["nodes"] += 1
        stats["depth"] = max(stats["depth"], depth)
        names = _get(d, leafkey)
        kids = _get(d, "Kids")
        limits = _get(d, "Limits")
        if (names is None) == (kids is None):
            raise TreeError("node needs exactly one of %s / Kids" % leafkey)
        if is_root and limits is not None:
            raise TreeError("root with Limits")
        if not is_root and limits is None:
            raise TreeError("non-root node without Limits")
        if names is not None:
            arr = deref(doc, names)
            if len(arr) % 2:
                raise TreeError("odd leaf array")
            for i in range(0, len(arr), 2):
                if isinstance(arr[i], Ref):                  # a key written as an indirect reference
                    stats["leaf_key_refs"] = stats.get("leaf_key_refs", 0) + 1
            keys = [deref(doc, arr[i]) for i in range(0, len(arr), 2)]
            if not is_root and not keys:
                raise TreeError("empty non-root leaf")
            for a, b in zip(keys, keys[1:]):
                if not a < b:
                    raise TreeError("leaf keys not strictly ascending")
            stats["leaves"] += 1
            leaf_depths.add(depth)
            stats["entries"] += len(keys)
            lo, hi = (keys[0], keys[-1]) if keys else (None, None)
        else:
            arr = deref(doc, kids)
            if not arr:
                raise TreeError("empty Kids")
            stats["maxfan"] = max(stats["maxfan"], len(arr))
            spans = []
            for k in arr:
                # Table 36 asks for indirect references; property C17 quantifies over "direct or indirect
                # nodes", so a kid written inline as a dictionary is accepted and counted.
                if isinstance(k, dict):
                    stats["direct_kids"] += 1
                elif not isinstance(k, Ref):
                    raise TreeError("Kids element is neither a reference nor a dictionary")
                spans.append(walk(k, False, depth + 1))
            ss = sorted(spans)
            for (a0, a1), (b0, b1) in zip(ss, ss[1:]):
                if not a1 < b0:
                    raise TreeError("sibling key ranges overlap")
            lo, hi = ss[0][0], ss[-1][1]
        if limits is not None:
            lim = list(deref(doc, limits))
            for x in lim:
                if isinstance(x, Ref):                       # a limit written as an indirect reference
                    stats["limit_elem_refs"] += 1
            lim = [deref(doc, x) for x in lim]
            if [bytes(x) if isinstance(x, bytes) else x for x in lim] != [lo, hi]:
                raise TreeError("Limits %r != [%r, %r]" % (lim, lo, hi))
        return lo, hi

    walk(root, True, 1)
    stats["leaf_depth_levels"] = len(leaf_depths)      # > 1: unbalanced, leaves at different depths
    return stats


def tree_flatten(doc: Doc, root: Any, leafkey: str) -> List[Tuple[Any, Any]]:
    out: List[Tuple[Any, Any]] = []

    def walk(node: Any) -> None:
        d = deref(doc, node)
        names = _get(d, leafkey)
        if names is not None:
            arr = deref(doc, names)
            for i in range(0, len(arr), 2):
                out.append((deref(doc, arr[i]), arr[i + 1]))
        else:
            for k in deref(doc, _get(d, "Kids")):
                walk(k)

    walk(root)
    out.sort(key=lambda kv: kv[0])
    return out


def tree_lookup(doc: Doc, root: Any, leafkey: str, key: Any) -> Tuple[bool, Any]:
    """Descend using Limits only (the search the standard's layout is meant for)."""
    d = deref(doc, root)
    while True:
        names = _get(d, leafkey)
        if names is not None:
            arr = deref(doc, names)
            for i in range(0, len(arr), 2):
                if deref(doc, arr[i]) == key:
                    return True, arr[i + 1]
            return False, None
        nxt = None
        for k in deref(doc, _get(d, "Kids")):
            kd = deref(doc, k)
            lo, hi = (deref(doc, x) for x in deref(doc, _get(kd, "Limits")))
            if lo <= key <= hi:
                nxt = kd
                break
        if nxt is None:
            return False, None
        d = nxt


# --------------------------------------------------------------------------
# canonical value form shared by both sides of the comparison
# --------------------------------------------------------------------------
def norm_gen(doc: Doc, o: Any, top: bool = True) -> Any:
    """Canonical JSON-able form of a written object.  An indirect reference at
    the top is followed (the reader may hand back either the reference or the
    object); nested references stay references: ["R", objnum]."""
    if top:
        o = deref(doc, o)
    if o is None or isinstance(o, bool) or isinstance(o, int):
        return o
    if isinstance(o, float):
        return o
    if isinstance(o, Real):
        return o.value
    if isinstance(o, Name):
        return ["N", o.b.decode("ascii")]
    if isinstance(o, Ref):
        return ["R", o.n]
    if isinstance(o, (bytes, bytearray)) and not isinstance(o, Raw):
        return ["S", bytes(o)]
    if isinstance(o, (list, tuple)):
        return ["A", [norm_gen(doc, v, False) for v in o]]
    if isinstance(o, dict):
        return ["D", {(k.b.decode("ascii") if isinstance(k, Name) else k): norm_gen(doc, v, False) for k, v in o.items()}]
    if isinstance(o, Stream):
        return ["STREAM"]
    raise TypeError("norm_gen: %r" % (o,))


# --------------------------------------------------------------------------
# 12.3.3 outlines
# --------------------------------------------------------------------------
def outline_preorder(doc: Doc, root: Any) -> List[Tuple[int, Ref]]:
    """Walk First/Next exactly as Tables 152/153 define the hierarchy:
    -> [(level, item reference)] in document (pre-)order, top level = 1."""
    out: List[Tuple[int, Ref]] = []
    rd = deref(doc, root)
    stack: List[Tuple[Any, int]] = []
    first = _get(rd, "First")
    if first is not None:
        stack.append((first, 1))
    guard = 0
    while stack:
        ref, level = stack.pop()
        guard += 1
        if guard > 1000000:
            raise TreeError("outline walk does not end")
        item = deref(doc, ref)
        out.append((level, ref))
        nxt = _get(item, "Next")
        if nxt is not None:
            stack.append((nxt, level))
        ch = _get(item, "First")
        if ch is not None:
            stack.append((ch, level + 1))
    return out


def outline_validate(doc: Doc, root_ref: Ref) -> None:
    """Tables 152/153: Parent/Prev/Next/First/Last consistency, items indirect."""
    def kids_of(parent_ref: Ref) -> List[Ref]:
        pd = deref(doc, parent_ref)
        first, last = _get(pd, "First"), _get(pd, "Last")
        if (first is None) != (last is None):
            raise TreeError("First without Last")
        if first is None:
            return []
        chain = []
        cur, prev = first, None
        while cur is not None:
            if not isinstance(cur, Ref):
                raise TreeError("outline item not indirect")
            it = deref(doc, cur)
            if _get(it, "Title") is None:
                raise TreeError("item without Title")
            if _get(it, "Parent") != parent_ref:
                raise TreeError("wrong Parent")
            if _get(it, "Prev") != prev:
                raise TreeError("wrong Prev")
            if _get(it, "Dest") is not None and _get(it, "A") is not None:
                raise TreeError("A and Dest together")
            chain.append(cur)
            prev, cur = cur, _get(it, "Next")
            if len(chain) > 1000000:
                raise TreeError("sibling chain does not end")
        if chain[-1] != last:
            raise TreeError("wrong Last")
        return chain

    todo = [root_ref]
    while todo:
        r = todo.pop()
        todo.extend(kids_of(r))


# --------------------------------------------------------------------------
# 12.3.2 destinations: which page does an outline item lead to
# --------------------------------------------------------------------------
def destination_page(doc: Doc, page_refs: List[Ref], by_string: Dict[bytes, Any], by_name: Dict[str, Any],
                     d: Any) -> Tuple[int, str]:
    """d: the value of /Dest, or of /D in a go-to action.  -> (1-based page number, how it was specified).

    12.3.2.2: an explicit destination is an array whose first element is the page.  12.3.2.3: a named
    destination is a name (looked up in the catalog's Dests dictionary) or a string (looked up in the Dests
    name tree); the value found is the array or a dictionary whose D entry is the array.  Any of these
    objects may be an indirect reference."""
    how = "explicit"
    if isinstance(d, Ref):
        d = deref(doc, d)
        how = "explicit_indirect"
    if isinstance(d, Name) or (isinstance(d, (bytes, bytearray)) and not isinstance(d, Raw)):
        if isinstance(d, Name):
            v = by_name[d.b.decode("ascii")]
            how = "name"
        else:
            v = by_string[bytes(d)]
            how = "string"
        if isinstance(v, Ref):
            v = deref(doc, v)
            how += ">ref"
        if isinstance(v, dict):
            v = _get(v, "D")
            how += ">dict"
            if isinstance(v, Ref):
                v = deref(doc, v)
                how += ">Dref"
        else:
            how += ">array"
        d = v
    if not isinstance(d, list) or not isinstance(d[0], Ref):
        raise TreeError("destination is not an array starting with a page reference: %r" % (d,))
    return page_refs.index(d[0]) + 1, how
