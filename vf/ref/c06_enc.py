"""Reference tables for C06: the three Latin base encodings of ISO 32000-1 Annex D
as code -> Unicode (or 'undefined', or 'left out of the oracle'), and an excerpt
of the standard-14 AFM advance widths.  Nothing here is derived from pdfminer.

Every table maps code -> one of
    a str               the code's text (exactly)
    a tuple of str      any of these is accepted (the standard is debatable)
    None                the encoding leaves the code undefined -> '(cid:N)'
    SKIP                not judged at all

WinAnsiEncoding  = stdlib cp1252, except (Annex D.2 and its notes)
    0x00-0x1F            no glyph                                 -> undefined
    0x7F,0x81,0x8D,0x8F,0x90,0x9D  "unused codes ... map to bullet", but "only code
                         225 (octal) shall be specifically assigned to bullet" -> SKIP
    0xA0                 the glyph 'space' (nbsp typographically) -> ' ' or U+00A0
    0xAD                 the glyph 'hyphen' (soft hyphen)         -> '-' or U+00AD
MacRomanEncoding = stdlib mac_roman, except (Annex D.2; 9.6.6.4 lists the 15
    glyphs Mac OS Roman *adds* to MacRomanEncoding and the currency/Euro swap)
    0x00-0x1F, 0x7F      no glyph                                 -> undefined
    0xAD,0xB0,0xB2,0xB3,0xB6,0xB7,0xB8,0xB9,0xBA,0xBD,0xC3,0xC5,0xC6,0xD7,0xF0
                         notequal infinity lessequal greaterequal partialdiff summation product pi integral
                         Omega radical approxequal Delta lozenge apple: not in MacRomanEncoding -> undefined
    0xDB                 currency (U+00A4), not Euro
    0xCA                 the glyph 'space'                          -> ' ' or U+00A0
StandardEncoding = transcribed (149 glyphs).
"""
from __future__ import annotations

from typing import Any, Dict

SKIP = "<skip>"


def _win() -> Dict[int, Any]:
    t: Dict[int, Any] = {}
    for c in range(256):
        if c < 0x20:
            t[c] = None
        elif c in (0x7F, 0x81, 0x8D, 0x8F, 0x90, 0x9D):
            t[c] = SKIP
        elif c == 0xA0:
            t[c] = (" ", "\u00a0")
        elif c == 0xAD:
            t[c] = ("-", "\u00ad")
        else:
            t[c] = bytes([c]).decode("cp1252")
    return t


_MAC_UNDEF = (0xAD, 0xB0, 0xB2, 0xB3, 0xB6, 0xB7, 0xB8, 0xB9, 0xBA, 0xBD, 0xC3, 0xC5, 0xC6, 0xD7, 0xF0)


def _mac() -> Dict[int, Any]:
    t: Dict[int, Any] = {}
    for c in range(256):
        if c < 0x20 or c == 0x7F or c in _MAC_UNDEF:
            t[c] = None
        elif c == 0xDB:
            t[c] = "¤"
        elif c == 0xCA:
            t[c] = (" ", "\u00a0")
        else:
            t[c] = bytes([c]).decode("mac_roman")
    return t


_STD_HIGH = {
    0xA1: 0x00A1, 0xA2: 0x00A2, 0xA3: 0x00A3, 0xA4: 0x2044, 0xA5: 0x00A5, 0xA6: 0x0192, 0xA7: 0x00A7,
    0xA8: 0x00A4, 0xA9: 0x0027, 0xAA: 0x201C, 0xAB: 0x00AB, 0xAC: 0x2039, 0xAD: 0x203A, 0xAE: 0xFB01,
    0xAF: 0xFB02, 0xB1: 0x2013, 0xB2: 0x2020, 0xB3: 0x2021, 0xB4: 0x00B7, 0xB6: 0x00B6, 0xB7: 0x2022,
    0xB8: 0x201A, 0xB9: 0x201E, 0xBA: 0x201D, 0xBB: 0x00BB, 0xBC: 0x2026, 0xBD: 0x2030, 0xBF: 0x00BF,
    0xC1: 0x0060, 0xC2: 0x00B4, 0xC3: 0x02C6, 0xC4: 0x02DC, 0xC5: 0x00AF, 0xC6: 0x02D8, 0xC7: 0x02D9,
    0xC8: 0x00A8, 0xCA: 0x02DA, 0xCB: 0x00B8, 0xCD: 0x02DD, 0xCE: 0x02DB, 0xCF: 0x02C7, 0xD0: 0x2014,
    0xE1: 0x00C6, 0xE3: 0x00AA, 0xE8: 0x0141, 0xE9: 0x00D8, 0xEA: 0x0152, 0xEB: 0x00BA, 0xF1: 0x00E6,
    0xF5: 0x0131, 0xF8: 0x0142, 0xF9: 0x00F8, 0xFA: 0x0153, 0xFB: 0x00DF,
}


def _std() -> Dict[int, Any]:
    t: Dict[int, Any] = {c: None for c in range(256)}
    for c in range(0x20, 0x7F):
        t[c] = chr(c)
    t[0x27] = "’"  # quoteright
    t[0x60] = "‘"  # quoteleft
    for c, u in _STD_HIGH.items():
        t[c] = chr(u)
    assert sum(1 for v in t.values() if v is not None) == 149
    return t


ENCODINGS: Dict[str, Dict[int, Any]] = {
    "WinAnsiEncoding": _win(),
    "MacRomanEncoding": _mac(),
    "StandardEncoding": _std(),
}

# --------------------------------------------------------------------------
# standard-14 advance widths (Adobe core AFM files), keyed by the *character*
# (so that any code whose encoding yields that character can be judged).
# Only entries known with certainty; everything else is not judged.
# --------------------------------------------------------------------------
_HELV_ASCII = [
    278, 278, 355, 556, 556, 889, 667, 191, 333, 333, 389, 584, 278, 333, 278, 278,  # space .. slash ( ' = quotesingle)
    556, 556, 556, 556, 556, 556, 556, 556, 556, 556, 278, 278, 584, 584, 584, 556,  # 0-9 : ; < = > ?
    1015, 667, 667, 722, 722, 667, 611, 778, 722, 278, 500, 667, 556, 833, 722, 778,  # @ A-O
    667, 778, 722, 667, 611, 722, 667, 944, 667, 667, 611, 278, 278, 278, 469, 556,  # P-Z [ \ ] ^ _
    333, 556, 556, 500, 556, 556, 278, 556, 556, 222, 222, 500, 222, 833, 556, 556,  # ` (grave) a-o
    556, 556, 333, 500, 278, 556, 500, 722, 500, 500, 500, 334, 260, 334, 584,  # p-z { | } ~
]
_TIMES_ASCII = [
    250, 333, 408, 500, 500, 833, 778, 180, 333, 333, 500, 564, 250, 333, 250, 278,
    500, 500, 500, 500, 500, 500, 500, 500, 500, 500, 278, 278, 564, 564, 564, 444,
    921, 722, 667, 667, 722, 611, 556, 722, 722, 333, 389, 722, 611, 889, 722, 722,
    556, 722, 667, 556, 611, 722, 722, 944, 722, 722, 611, 333, 278, 333, 469, 500,
    333, 444, 500, 444, 500, 444, 333, 500, 500, 278, 278, 500, 278, 778, 500, 500,
    500, 500, 333, 389, 278, 500, 500, 722, 500, 500, 444, 480, 200, 480, 541,
]
assert len(_HELV_ASCII) == 95 and len(_TIMES_ASCII) == 95

# accented letters have the advance of their base letter in these two faces
_ACCENTED = {
    "À": "A", "Á": "A", "Â": "A", "Ã": "A", "Ä": "A", "Å": "A", "Ç": "C", "È": "E", "É": "E", "Ê": "E", "Ë": "E",
    "Ì": "I", "Í": "I", "Î": "I", "Ï": "I", "Ñ": "N", "Ò": "O", "Ó": "O", "Ô": "O", "Õ": "O", "Ö": "O",
    "Ù": "U", "Ú": "U", "Û": "U", "Ü": "U", "Ý": "Y",
    "à": "a", "á": "a", "â": "a", "ã": "a", "ä": "a", "å": "a", "ç": "c", "è": "e", "é": "e", "ê": "e", "ë": "e",
    "ñ": "n", "ò": "o", "ó": "o", "ô": "o", "õ": "o", "ö": "o", "ù": "u", "ú": "u", "û": "u", "ü": "u",
    "ý": "y", "ÿ": "y",
}
_OTHER = {
    # char: (Helvetica, Times-Roman)
    "’": (222, 333), "‘": (222, 333), "•": (350, 350), "–": (556, 500), "—": (1000, 1000),
    "ß": (611, 500), "£": (556, 500), "¥": (556, 500), "¢": (556, 500), "§": (556, 500),
    "©": (737, 760), "®": (737, 760), "°": (400, 400), "¶": (537, 453),
    "“": (333, 444), "”": (333, 444), "…": (1000, 1000), "Æ": (1000, 889),
    "æ": (889, 667), "Œ": (1000, 889), "œ": (944, 722), "Ø": (778, 722), "ø": (611, 500),
    "ﬁ": (500, 556), "ﬂ": (500, 556),
}


def _std14() -> Dict[str, Dict[str, int]]:
    helv: Dict[str, int] = {}
    times: Dict[str, int] = {}
    for i in range(95):
        helv[chr(0x20 + i)] = _HELV_ASCII[i]
        times[chr(0x20 + i)] = _TIMES_ASCII[i]
    for ch, b in _ACCENTED.items():
        helv[ch] = helv[b]
        times[ch] = times[b]
    for ch, (h, t) in _OTHER.items():
        helv[ch] = h
        times[ch] = t
    # dotless-i accents: Ì etc. use the width of 'I' (278/333) - as above; 'ì' etc. are left out.
    return {"Helvetica": helv, "Times-Roman": times}


STD14_WIDTHS = _std14()
STD14_FIXED = {"Courier": 600, "Courier-Bold": 600, "Courier-Oblique": 600, "Courier-BoldOblique": 600}
