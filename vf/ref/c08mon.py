"""C08 monitor: a postcondition wrapper around LTLayoutContainer.analyze.

`install()` replaces `pdfminer.layout.LTLayoutContainer.analyze` by a wrapper
(LTPage inherits it, LTFigure.analyze calls it by name when all_texts is set, so
every real analysis passes through it).  Each invocation

  * snapshots the sub-tree below the container before the analysis: identity,
    order and a shallow copy of the attributes of every descendant;
  * (outermost invocation only) runs the real method under a step budget that
    is a function of the number of glyphs and of the page area;
  * afterwards walks the resulting hierarchy and checks the clauses of C08.

The walker is written from the property statement and from what pdfminer
documents about its layout objects (docstrings of LAParams, LTTextLine,
LTTextBox, LTPage, LTAnno); it does not look at how the analysis is done.

Results are left in `MON` (fails, stats); the caller drains them per case.
"""
from __future__ import annotations

import contextlib
import math
from collections import Counter
from typing import Any, Callable, Dict, List, Optional, Tuple

from vf.common import StepBudgetExceeded, last_steps, run_with_budget  # noqa: F401

Fail = Tuple[str, str]


class _Pre:
    __slots__ = ("obj", "state", "children", "count")

    def __init__(self, obj: Any) -> None:
        self.obj = obj                  # keeps the object alive: ids stay unique
        self.state = _state(obj)
        self.children: Optional[List[Any]] = None
        self.count = 0


class Invocation:
    def __init__(self, container: Any, laparams: Any, depth: int) -> None:
        self.container = container
        self.laparams = laparams
        self.depth = depth
        self.pre: Dict[int, _Pre] = {}
        self.order: List[Any] = []      # direct children before
        self.nglyphs = 0
        self.returned = False
        self.steps: Optional[int] = None
        self.budget: Optional[int] = None


def _state(obj: Any) -> Dict[str, Any]:
    d = dict(vars(obj))
    d.pop("_objs", None)
    d.pop("groups", None)
    return d


class Monitor:
    def __init__(self) -> None:
        self.installed = False
        self.orig: Optional[Callable[..., None]] = None
        self.stack: List[Invocation] = []
        self.pending: List[Invocation] = []
        self.fails: List[Fail] = []
        self.stats: Counter = Counter()
        self.budget_fn: Optional[Callable[[int, float], int]] = None
        self.last_top: Optional[Invocation] = None
        self.tops: List[Tuple[int, int, int]] = []      # (glyphs, steps, budget) of the outermost invocations
        self.budget_phase: Optional[str] = None          # which allowance was exhausted (None: the overall budget)
        self.budget_phase_key = "analyze"
        self.phase_pct: Dict[str, float] = {}            # largest share of a phase allowance used since drain()

    # ------------------------------------------------------------------
    def install(self) -> None:
        if self.installed:
            return
        from pdfminer import layout

        self.orig = layout.LTLayoutContainer.analyze
        mon = self

        def analyze(container: Any, laparams: Any) -> None:  # the contract wrapper
            mon._invoke(container, laparams)

        analyze.__wrapped__ = self.orig  # type: ignore[attr-defined]
        layout.LTLayoutContainer.analyze = analyze  # type: ignore[method-assign]

        # phase budgets: the two linear/quadratic phases get their own, much smaller, share of the step budget
        # (a function of the number of glyphs / lines and of the page grid only), so that a runaway inside them is
        # stopped after seconds even on a page whose overall n^2 budget is worth an hour
        orig_go = layout.LTLayoutContainer.group_objects
        orig_gl = layout.LTLayoutContainer.group_textlines

        def group_objects(container: Any, laparams: Any, objs: Any):  # noqa: ANN202
            objs = list(objs)
            yield from mon._phase("group_objects", 100000 + 6000 * len(objs), orig_go(container, laparams, objs))

        def group_textlines(container: Any, laparams: Any, lines: Any):  # noqa: ANN202
            lines = list(lines)
            (x0, y0, x1, y1) = container.bbox
            cells = (abs(x1 - x0) / 50.0 + 2) * (abs(y1 - y0) / 50.0 + 2)
            m = len(lines) + 2
            yield from mon._phase("group_textlines", int(100000 + 4000 * m * (cells + m)), orig_gl(container, laparams, lines))

        orig_gb = layout.LTLayoutContainer.group_textboxes

        def group_textboxes(container: Any, laparams: Any, boxes: Any):  # noqa: ANN202
            # measured on the intact tree: steps <= 5.1 b^2 (b + cells) for b boxes (1300 runs incl. the stress pages)
            (x0, y0, x1, y1) = container.bbox
            cells = (abs(x1 - x0) / 50.0 + 2) * (abs(y1 - y0) / 50.0 + 2)
            b = len(boxes) + 2

            with mon._allow("group_textboxes", int(100000 + 150 * b * b * (b + cells))):
                return orig_gb(container, laparams, boxes)

        layout.LTLayoutContainer.group_textboxes = group_textboxes  # type: ignore[method-assign]
        layout.LTLayoutContainer.group_objects = group_objects  # type: ignore[method-assign]
        layout.LTLayoutContainer.group_textlines = group_textlines  # type: ignore[method-assign]
        self.installed = True

    @contextlib.contextmanager
    def _allow(self, name: str, allowance: int):  # noqa: ANN202
        """Lower the global step budget to now + allowance for the duration of the block."""
        from vf.common import STEPS

        if not STEPS.active:
            yield
            return
        old = STEPS.budget
        start = STEPS.count
        limit = start + allowance
        if limit < old:
            STEPS.budget = limit
        try:
            yield
        except StepBudgetExceeded:
            if limit < old and STEPS.count > limit and self.budget_phase is None:
                self.budget_phase = "%s (phase allowance %d steps)" % (name, allowance)
                self.budget_phase_key = name
            raise
        finally:
            STEPS.budget = old
            used = STEPS.count - start
            self.phase_pct[name] = max(self.phase_pct.get(name, 0.0), 100.0 * used / allowance)

    def _phase(self, name: str, allowance: int, gen: Any):  # noqa: ANN202
        """Consume generator `gen` under the phase allowance."""
        with self._allow(name, allowance):
            yield from gen

    def drain(self) -> Tuple[List[Fail], Counter]:
        f, s = self.fails, self.stats
        self.fails, self.stats = [], Counter()
        self.pending = []
        self.stack = []
        self.tops = []
        self.budget_phase = None
        self.budget_phase_key = "analyze"
        self.phase_pct = {}
        return f, s

    # ------------------------------------------------------------------
    def _invoke(self, container: Any, laparams: Any) -> None:
        inv = Invocation(container, laparams, len(self.stack))
        self._snapshot(inv)
        self.stats["analyze_invocations"] += 1
        self.stats["analyze_invocations:" + type(container).__name__] += 1
        outer = not self.stack
        self.stack.append(inv)
        try:
            if outer and self.budget_fn is not None:
                (x0, y0, x1, y1) = container.bbox
                cells = (abs(x1 - x0) / 50.0 + 2) * (abs(y1 - y0) / 50.0 + 2)
                inv.budget = self.budget_fn(inv.nglyphs, cells)
                try:
                    run_with_budget(lambda: self.orig(container, laparams), inv.budget)  # type: ignore[misc]
                finally:
                    inv.steps = last_steps()
                    self.tops.append((inv.nglyphs, inv.steps, inv.budget))
            else:
                self.orig(container, laparams)  # type: ignore[misc]
            inv.returned = True
        finally:
            self.stack.pop()
        self.pending.append(inv)
        if outer:
            self.last_top = inv
            pend, self.pending = self.pending, []
            for p in pend:
                if p.returned:
                    # nested invocations (figures) are verified on their own as well; their sub-trees are
                    # also covered by the outermost walk, so only that one feeds the coverage counters
                    st = self.stats if p.depth == 0 else Counter()
                    self.fails.extend(Verifier(p, st).run())
                    self.stats["invocations_verified:" + ("outermost" if p.depth == 0 else "nested")] += 1

    def _snapshot(self, inv: Invocation) -> None:
        from pdfminer.layout import LTChar, LTContainer

        def rec(c: Any) -> None:
            kids = list(c._objs)
            for o in kids:
                p = inv.pre.get(id(o))
                if p is None:
                    p = inv.pre[id(o)] = _Pre(o)
                p.count += 1
                if isinstance(o, LTChar):
                    inv.nglyphs += 1
                elif isinstance(o, LTContainer) and p.count == 1:
                    p.children = list(o._objs)
                    rec(o)

        inv.order = list(inv.container._objs)
        rec(inv.container)


MON = Monitor()


# ----------------------------------------------------------------------------
def _union(boxes: List[Tuple[float, float, float, float]]) -> Tuple[float, float, float, float]:
    return (min(b[0] for b in boxes), min(b[1] for b in boxes), max(b[2] for b in boxes), max(b[3] for b in boxes))


def _tn(o: Any) -> str:
    return type(o).__name__


def _short(o: Any) -> str:
    try:
        return repr(o)[:160]
    except Exception:  # noqa: BLE001
        return "<%s>" % _tn(o)


class Verifier:
    """Checks one finished invocation of analyze against the clauses of C08."""

    def __init__(self, inv: Invocation, stats: Counter) -> None:
        self.inv = inv
        self.la = inv.laparams
        self.stats = stats
        self.fails: List[Fail] = []
        self.seen: Counter = Counter()      # id -> occurrences in the resulting hierarchy (groups excluded)
        self.keep: List[Any] = []           # new objects, kept alive while ids are compared
        self.where = "%s depth=%d" % (_tn(inv.container), inv.depth)

    def fail(self, key: str, detail: str) -> None:
        if len(self.fails) < 40:
            self.fails.append((key, "%s: %s" % (self.where, detail)))

    # ------------------------------------------------------------------
    def run(self) -> List[Fail]:
        try:
            self.layout(self.inv.container, True, "top")
            self.conservation()
        except Exception as e:  # noqa: BLE001  a malformed tree may break the walker itself
            import traceback

            self.fail("walker_exception:%s" % type(e).__name__, traceback.format_exc()[-1200:])
        return self.fails

    # ------------------------------------------------------------------
    def conservation(self) -> None:
        from pdfminer.layout import LTChar

        for i, p in self.inv.pre.items():
            n = self.seen.get(i, 0)
            kind = "LTChar" if isinstance(p.obj, LTChar) else _tn(p.obj)
            if n < p.count:
                self.fail("conservation:lost:" + kind, "%s occurred %d time(s) before, %d after" % (_short(p.obj), p.count, n))
            elif n > p.count:
                self.fail("conservation:duplicated:" + kind, "%s occurred %d time(s) before, %d after" % (_short(p.obj), p.count, n))
            else:
                self.stats["items_conserved:" + ("glyph" if kind == "LTChar" else "other")] += n
            now = _state(p.obj)
            if now != p.state:
                attrs = sorted(k for k in set(now) | set(p.state) if now.get(k, "<absent>") != p.state.get(k, "<absent>"))
                self.fail("altered:%s:%s" % (kind, ",".join(attrs)[:60]),
                          "%s: %s" % (_short(p.obj), [(k, p.state.get(k), now.get(k)) for k in attrs][:4]))

    def mark_old(self, o: Any, ctx: str) -> bool:
        """Record an item that must have existed before; -> False if it did not."""
        self.seen[id(o)] += 1
        if id(o) not in self.inv.pre or self.inv.pre[id(o)].obj is not o:
            self.fail("conservation:foreign:" + _tn(o), "%s in %s did not exist before the analysis" % (_short(o), ctx))
            return False
        return True

    def mark_new(self, o: Any, ctx: str) -> None:
        self.keep.append(o)
        self.seen[id(o)] += 1
        if id(o) in self.inv.pre and self.inv.pre[id(o)].obj is o:
            # a text container that was already there: only possible when analysing twice (not generated)
            self.fail("conservation:preexisting_container:" + _tn(o), "%s in %s" % (_short(o), ctx))
        elif self.seen[id(o)] > 1:
            self.fail("conservation:duplicated_new:" + _tn(o), "%s occurs more than once (%s)" % (_short(o), ctx))

    # ------------------------------------------------------------------
    def pristine(self, c: Any, ctx: str) -> None:
        """A container the analysis must not have touched (figure with all_texts off)."""
        from pdfminer.layout import LTContainer

        p = self.inv.pre.get(id(c))
        kids = list(c._objs)
        if p is not None and p.children is not None:
            if len(kids) != len(p.children) or any(a is not b for a, b in zip(kids, p.children)):
                self.fail("altered:unanalysed_container_children",
                          "%s %s: children changed although it is not analysed (%d before, %d after)" % (ctx, _short(c), len(p.children), len(kids)))
        if getattr(c, "groups", None) is not None:
            self.fail("altered:unanalysed_container_groups", "%s %s has groups" % (ctx, _short(c)))
        self.stats["containers_walked:unanalysed_figure"] += 1
        for o in kids:
            self.mark_old(o, ctx)
            if isinstance(o, LTContainer):
                self.pristine(o, ctx + "/" + _tn(o))

    def layout(self, c: Any, analysed: bool, ctx: str) -> None:
        from pdfminer.layout import (LTAnno, LTChar, LTContainer, LTLayoutContainer, LTTextBox, LTTextGroup, LTTextLine)

        if not analysed:
            self.pristine(c, ctx)
            return
        self.stats["containers_walked:layout"] += 1
        boxes: List[Any] = []
        kind = "page" if _tn(c) == "LTPage" else "figure"
        if c is self.inv.container:
            before = self.inv.order
        else:
            p = self.inv.pre.get(id(c))
            before = (p.children if p is not None and p.children is not None else [])
        own_glyphs = sum(1 for o in before if isinstance(o, LTChar))
        bare = 0
        loose = 0
        for o in list(c._objs):
            if isinstance(o, LTTextBox):
                self.mark_new(o, ctx)
                boxes.append(o)
                self.box(o, ctx)
            elif isinstance(o, LTTextLine):
                self.mark_new(o, ctx)
                self.stats["lines_outside_boxes"] += 1
                loose += 1
                self.line(o, ctx + "/loose-line")
            elif isinstance(o, (LTAnno, LTTextGroup)):
                self.keep.append(o)
                self.fail("structure:%s_in_layout_container" % _tn(o), "%s directly in %s" % (_short(o), ctx))
            else:
                self.mark_old(o, ctx)
                if isinstance(o, LTChar):
                    bare += 1
                elif isinstance(o, LTLayoutContainer):
                    # LAParams.all_texts: "If layout analysis should be performed on text in figures."
                    self.layout(o, bool(self.la.all_texts), ctx + "/" + _tn(o))
                elif isinstance(o, LTContainer):
                    self.pristine(o, ctx + "/" + _tn(o))
        # an analysed container (the page; a figure when all_texts is set) holds its glyphs in text lines, each
        # ending in a line break: LTPage documents its children as text boxes, figures, images and shapes
        if bare:
            self.fail("structure:glyph_outside_line:" + kind,
                      "%s: %d of %d glyph(s) of this analysed %s are still direct children (no line, no line break) "
                      "after analysis with all_texts=%r, boxes_flow=%r" % (ctx, bare, own_glyphs, _tn(c), self.la.all_texts, self.la.boxes_flow))
        elif own_glyphs:
            self.stats["containers_with_all_glyphs_in_lines:" + kind] += 1
            if not boxes and loose:
                self.stats["containers_all_lines_blank:" + kind] += 1      # nothing but blank / zero-area lines
        elif self.la.all_texts and any(isinstance(o, LTLayoutContainer) and self._has_glyphs(o) for o in before):
            self.stats["glyphless_container_with_text_figures:" + kind] += 1    # its text lives in nested figures only
        # clause 5: numbering in output order
        idx = [b.index for b in boxes]
        if idx != list(range(len(boxes))):
            if boxes and all(i == -1 for i in idx):
                key = "index:never_assigned" + (":boxes_flow_none" if self.la.boxes_flow is None else "")
            else:
                key = "index:not_0_to_n_minus_1_in_output_order"
            self.fail(key, "%s: %d text boxes iterate with index %r (boxes_flow=%r)" % (ctx, len(boxes), idx[:30], self.la.boxes_flow))
        else:
            self.stats["boxes_index_checked"] += len(boxes)
        # the group hierarchy
        groups = getattr(c, "groups", None)
        if groups is not None:
            self.groups(groups, boxes, ctx)
        elif self.la.boxes_flow is not None and boxes:
            # boxes_flow given: the boxes are ordered through the hierarchical grouping, kept in .groups
            self.fail("groups:missing", "%s: %d boxes but groups is None (boxes_flow=%r)" % (ctx, len(boxes), self.la.boxes_flow))

    def _has_glyphs(self, c: Any) -> bool:
        """Did container c hold a glyph (at any depth) before the analysis?"""
        from pdfminer.layout import LTChar, LTContainer

        p = self.inv.pre.get(id(c))
        for o in (p.children if p is not None and p.children is not None else []):
            if isinstance(o, LTChar) or (isinstance(o, LTContainer) and self._has_glyphs(o)):
                return True
        return False

    # ------------------------------------------------------------------
    def line(self, ln: Any, ctx: str) -> Optional[str]:
        """-> 'H' / 'V' (or None when it is neither)."""
        from pdfminer.layout import LTAnno, LTChar, LTTextLineHorizontal, LTTextLineVertical

        self.stats["containers_walked:line"] += 1
        h = isinstance(ln, LTTextLineHorizontal)
        v = isinstance(ln, LTTextLineVertical)
        if h == v:
            self.fail("line:orientation", "%s %s is %s" % (ctx, _short(ln), "both horizontal and vertical" if h else "neither horizontal nor vertical"))
        if v and not self.la.detect_vertical:
            self.fail("line:vertical_without_detect_vertical", "%s %s" % (ctx, _short(ln)))
        members = list(ln._objs)
        chars: List[Any] = []
        texts: List[str] = []
        for k, m in enumerate(members):
            if isinstance(m, LTChar):
                self.mark_old(m, ctx)
                chars.append(m)
                texts.append(m.get_text())
            elif isinstance(m, LTAnno):
                self.keep.append(m)
                self.seen[id(m)] += 1
                if self.seen[id(m)] > 1:
                    self.fail("conservation:duplicated_new:LTAnno", "%s shared" % ctx)
                t = m.get_text()
                texts.append(t)
                if t == "\n":
                    if k != len(members) - 1:
                        self.fail("line:newline_not_last", "%s %s has a line break at member %d of %d" % (ctx, _short(ln), k, len(members)))
                elif t == " ":
                    # "an intermediate space will be added": between two glyphs of the line
                    if not (0 < k < len(members) - 1 and isinstance(members[k - 1], LTChar) and isinstance(members[k + 1], LTChar)):
                        self.fail("line:space_not_between_glyphs", "%s %s member %d" % (ctx, _short(ln), k))
                    self.stats["inserted_spaces"] += 1
                else:
                    self.fail("line:inserted_text", "%s %s: inserted LTAnno %r" % (ctx, _short(ln), t))
            else:
                self.keep.append(m)
                self.fail("structure:%s_in_line" % _tn(m), "%s %s" % (ctx, _short(m)))
        if not members or not (isinstance(members[-1], LTAnno) and members[-1].get_text() == "\n"):
            self.fail("line:no_final_newline", "%s %s ends with %s" % (ctx, _short(ln), _short(members[-1]) if members else "nothing"))
        if not chars:
            self.fail("line:no_glyph", "%s %s" % (ctx, _short(ln)))
        else:
            want = _union([(g.x0, g.y0, g.x1, g.y1) for g in chars])
            self.bbox(ln, want, "line", ctx)
        got = ln.get_text()
        if got != "".join(texts):
            self.fail("text:line", "%s: get_text()=%r, members give %r" % (ctx, got[:80], "".join(texts)[:80]))
        self.stats["glyphs_in_lines"] += len(chars)
        # "every line holds glyphs of one orientation": LAParams documents that two characters go on the same
        # line when they overlap by more than line_overlap (>= 0) of the smaller one, so two consecutive glyphs of
        # a horizontal line share a y-interval of positive length (x-interval in a vertical line).  A glyph of zero
        # height (width) has no overlap to measure: such pairs are skipped.
        if h != v:
            for a, b in zip(chars, chars[1:]):
                if h:
                    degenerate = a.y1 <= a.y0 or b.y1 <= b.y0
                    ok = a.y0 < b.y1 and b.y0 < a.y1
                else:
                    degenerate = a.x1 <= a.x0 or b.x1 <= b.x0
                    ok = a.x0 < b.x1 and b.x0 < a.x1
                if degenerate:
                    self.stats["line_pairs_skipped_degenerate"] += 1
                elif not ok:
                    self.fail("line:%s" % ("horizontal_glyphs_without_vertical_overlap" if h else "vertical_glyphs_without_horizontal_overlap"),
                              "%s %s: consecutive glyphs %r %r and %r %r share no %s-interval"
                              % (ctx, _short(ln), a.get_text(), tuple(a.bbox), b.get_text(), tuple(b.bbox), "y" if h else "x"))
                    break
                else:
                    self.stats["line_pairs_overlap_checked:" + ("H" if h else "V")] += 1
        return "H" if h and not v else "V" if v and not h else None

    def bbox(self, o: Any, want: Tuple[float, float, float, float], kind: str, ctx: str) -> None:
        got = (o.x0, o.y0, o.x1, o.y1)
        if got != want or tuple(o.bbox) != want:
            self.fail("bbox:" + kind, "%s %s: bbox %r / %r, union of members %r" % (ctx, _tn(o), got, tuple(o.bbox), want))
        elif o.width != want[2] - want[0] or o.height != want[3] - want[1]:
            self.fail("bbox:%s:width_height" % kind, "%s %s: width/height %r,%r for bbox %r" % (ctx, _tn(o), o.width, o.height, want))
        else:
            self.stats["bbox_checked:" + kind] += 1

    def box(self, b: Any, ctx: str) -> None:
        from pdfminer.layout import LTTextBoxHorizontal, LTTextBoxVertical, LTTextLine

        self.stats["containers_walked:box"] += 1
        h = isinstance(b, LTTextBoxHorizontal)
        v = isinstance(b, LTTextBoxVertical)
        if h == v:
            self.fail("box:orientation", "%s %s" % (ctx, _short(b)))
        want_kind = "H" if h else "V"
        lines = list(b._objs)
        rects = []
        texts = []
        for ln in lines:
            if not isinstance(ln, LTTextLine):
                self.keep.append(ln)
                self.fail("structure:%s_in_box" % _tn(ln), "%s %s" % (ctx, _short(ln)))
                continue
            self.mark_new(ln, ctx + "/box")
            k = self.line(ln, ctx + "/box/line")
            if k is not None and k != want_kind:
                self.fail("box:line_of_other_orientation", "%s %s holds %s" % (ctx, _tn(b), _tn(ln)))
            rects.append((ln.x0, ln.y0, ln.x1, ln.y1))
            texts.append(ln.get_text())
        if not rects:
            self.fail("box:no_line", "%s %s" % (ctx, _short(b)))
            return
        self.bbox(b, _union(rects), "box", ctx)
        # clause 4: top-to-bottom, right-to-left for vertical boxes
        key = [r[2] for r in rects] if v and not h else [r[3] for r in rects]
        for a, c in zip(key, key[1:]):
            if c > a:
                self.fail("order:%s" % ("vbox_x1" if v and not h else "hbox_y1"),
                          "%s %s: lines not ordered, %s sequence %r" % (ctx, _tn(b), "x1" if v and not h else "y1", key[:20]))
                break
        else:
            self.stats["box_order_checked:" + want_kind] += 1
            if len(rects) > 1:
                self.stats["multi_line_boxes:" + want_kind] += 1
        got = b.get_text()
        if got != "".join(texts):
            self.fail("text:box", "%s: get_text()=%r, lines give %r" % (ctx, got[:80], "".join(texts)[:80]))

    # ------------------------------------------------------------------
    def groups(self, groups: Any, boxes: List[Any], ctx: str) -> None:
        from pdfminer.layout import LTTextBox, LTTextGroup

        leaves: List[Any] = []
        seen_groups: set = set()
        # iterative post-order: (node, expanded?)
        info: Dict[int, Tuple[Tuple[float, float, float, float], None]] = {}
        stack: List[Tuple[Any, bool]] = [(g, False) for g in reversed(list(groups))]
        ngroups = 0
        while stack:
            node, expanded = stack.pop()
            if isinstance(node, LTTextBox):
                leaves.append(node)
                continue
            if not isinstance(node, LTTextGroup):
                self.fail("structure:%s_in_group" % _tn(node), "%s %s" % (ctx, _short(node)))
                continue
            if not expanded:
                if id(node) in seen_groups:
                    self.fail("conservation:duplicated_new:LTTextGroup", "%s %s occurs twice" % (ctx, _tn(node)))
                    continue
                seen_groups.add(id(node))
                self.keep.append(node)
                ngroups += 1
                stack.append((node, True))
                for m in reversed(list(node._objs)):
                    stack.append((m, False))
            else:
                kids = list(node._objs)
                ok = [m for m in kids if isinstance(m, (LTTextBox, LTTextGroup))]
                if not ok:
                    self.fail("group:empty", "%s %s" % (ctx, _tn(node)))
                    continue
                self.bbox(node, _union([(m.x0, m.y0, m.x1, m.y1) for m in ok]), "group", ctx)
        self.stats["containers_walked:group"] += ngroups
        if len(leaves) != len(boxes) or Counter(map(id, leaves)) != Counter(map(id, boxes)):
            lost = len(set(map(id, boxes)) - set(map(id, leaves)))
            dup = sum(1 for n in Counter(map(id, leaves)).values() if n > 1)
            foreign = len(set(map(id, leaves)) - set(map(id, boxes)))
            self.fail("groups:boxes_not_exactly_once", "%s: %d boxes on the page, group tree has %d leaves (%d missing, %d repeated, %d foreign)"
                      % (ctx, len(boxes), len(leaves), lost, dup, foreign))
        else:
            self.stats["group_leaves_checked"] += len(leaves)
            # the hierarchy is traversed in the same order as the boxes are numbered
            idx = [b.index for b in leaves]
            if idx == list(range(len(leaves))):
                self.stats["group_order_checked"] += 1
            elif sorted(idx) == list(range(len(leaves))):
                self.fail("groups:traversal_order_differs_from_index", "%s: leaves carry %r" % (ctx, idx[:30]))
        # clause 6 for groups.  get_text of a deep chain costs O(size x depth): bound the work on very deep trees
        self.group_texts(groups, ctx)

    def group_texts(self, groups: Any, ctx: str) -> None:
        from pdfminer.layout import LTText, LTTextGroup

        budget = 60000   # member texts concatenated at most
        work = [g for g in groups if isinstance(g, LTTextGroup)]
        while work and budget > 0:
            g = work.pop()
            parts = []
            for m in g._objs:
                if isinstance(m, LTText):
                    t = m.get_text()
                    parts.append(t)
                    budget -= 1 + len(t) // 8
                if isinstance(m, LTTextGroup):
                    work.append(m)
            if g.get_text() != "".join(parts):
                self.fail("text:group", "%s: get_text()=%r, members give %r" % (ctx, g.get_text()[:80], "".join(parts)[:80]))
                return
            self.stats["group_text_checked"] += 1


def default_budget(nglyphs: int, cells: float) -> int:
    """Step budget for one outermost analysis of n glyphs on a page of `cells` grid cells (50 units):

        200000 + n^2 * (2500 * (log2 n + 1) + 300 * cells)

    n^2 log n is the documented cost of the hierarchical grouping; every one of the O(n^2) candidate pairs
    may in addition scan the Plane cells between the two boxes (a glyph as large as the page lies in all of
    them).  Calibration on the intact tree: no generated or sample page uses more than 5% of it (the
    check reports a case that does as inconclusive `budget_margin_below_20x`)."""
    n = nglyphs + 2
    return int(200000 + n * n * (2500 * (math.log2(n) + 1) + 300 * cells))
