"""C09 reference: the DOCUMENTED layout-grouping rules, in exact arithmetic.

Sources (quoted; nothing here is taken from pdfminer's code):

[rst]  docs/source/topic/converting_pdf_to_text.rst
  R1 "The horizontal *distance* between the bounding boxes of two characters
      should be smaller than the `char_margin` and the vertical *overlap*
      between the bounding boxes should be larger than the `line_overlap`."
  R2 "The `char_margin` is relative to the maximum width of either one of the
      bounding boxes, and the `line_overlap` is relative to the minimum height
      of either one of the bounding boxes."
  R3 "A space is inserted if the characters are further apart than the
      `word_margin` [...]. The `word_margin` is relative to the maximum width
      or height of the new character."
  R4 "Lines that are both horizontally overlapping and vertically close are
      grouped. [...] closer together than the absolute line margin, i.e. the
      `line_margin` multiplied by the height of the bounding box."
  R5 "This step repeatedly merges the two text boxes that are closest to each
      other. The closeness [...] is the area of the bounding box that
      surrounds both lines, minus the area of the bounding boxes of the
      individual lines."
  R6 "`detect_vertical` [...] will apply all the grouping steps as if the pdf
      was rotated 90 (or 270) degrees"
[lap]  LAParams docstring
  L1 word_margin: "The margin is specified relative to the width of the
      character."     (-> basis of R3 is read both ways, see space_expected)
  L2 boxes_flow: "-1.0 (only horizontal position matters) to +1.0 (only
      vertical position matters). You can also pass `None` to disable advanced
      layout analysis, and instead return text based on the position of the
      bottom left corner of the text box."
[fn]   LTTextLineHorizontal.find_neighbors / LTTextLineVertical.find_neighbors
  F1 '"Close" can be controlled by ratio. The returned objects will be the
      same height as self, and also either left-, right-, or
      centrally-aligned.'   (vertical: same width; upper-, lower-, centrally-)
  F2 helper docstrings: "Whether the left-hand edge of `other` is within
      `tolerance`."

Every predicate returns True / False / None; None = the documentation does not
decide (silent, or two of its statements give different answers).  The check
asserts only decided outcomes.

Geometry is in integer grid units; LAParams are Fractions.
"""
from __future__ import annotations

from fractions import Fraction
from typing import Dict, List, Optional, Sequence, Tuple

Box = Tuple[int, int, int, int]  # x0, y0, x1, y1 (grid units)


def transpose(b: Box) -> Box:
    """Rotate by 90 degrees so that top-to-bottom writing becomes left-to-right: (x, y) -> (-y, x)."""
    x0, y0, x1, y1 = b
    return (-y1, x0, -y0, x1)


def union(boxes: Sequence[Box]) -> Box:
    return (min(b[0] for b in boxes), min(b[1] for b in boxes), max(b[2] for b in boxes), max(b[3] for b in boxes))


# --------------------------------------------------------------------------
# characters -> lines  (R1, R2)
# --------------------------------------------------------------------------
def pair_joined(a: Box, b: Box, line_overlap: Fraction, char_margin: Fraction) -> bool:
    """R1+R2, both comparisons strict as written ("smaller than", "larger than")."""
    overlap = max(0, min(a[3], b[3]) - max(a[1], b[1]))
    dist = max(0, max(a[0], b[0]) - min(a[2], b[2]))
    minh = min(a[3] - a[1], b[3] - b[1])
    maxw = max(a[2] - a[0], b[2] - b[0])
    return overlap > line_overlap * minh and dist < char_margin * maxw


def space_expected(prev: Box, new: Box, word_margin: Fraction) -> Optional[bool]:
    """R3 for two consecutive glyphs of one left-to-right line.

    Basis: R3 says max(width, height) of the new character, L1 says "the width
    of the character"; decided only where both give the same answer.
    Direction: "further apart" is decided for a new glyph that starts at or
    after the start of the previous one (advancing text).  For a glyph placed
    entirely to the left of the previous one the documentation does not say
    whether the distance still counts -> None.
    """
    if new[2] < prev[0]:
        return None
    gap = new[0] - prev[2]
    if gap <= 0:
        return False if word_margin >= 0 else None
    w, h = new[2] - new[0], new[3] - new[1]
    for thr in (word_margin * max(w, h), word_margin * w):
        # a non-dyadic word_margin (the default 0.1): a gap within rounding distance of the threshold is left alone
        if gap != thr and abs(gap - thr) < Fraction(max(w, h), 2 ** 40):
            return None
    r1 = gap > word_margin * max(w, h)
    r2 = gap > word_margin * w
    return r1 if r1 == r2 else None


class Lines:
    """Expected partition of the glyph sequence into lines.

    runs        list of (start, end_exclusive, orientation) with orientation
                "h", "v" or "?" (singleton)
    joined[i]   True/False/None for the pair (i, i+1)
    space[i]    True/False/None for the pair (i, i+1) (meaningful when joined)
    """

    def __init__(self) -> None:
        self.joined: List[Optional[bool]] = []
        self.orient: List[Optional[str]] = []
        self.space: List[Optional[bool]] = []


def expected_lines(glyphs: Sequence[Box], lo: Fraction, cm: Fraction, wm: Fraction, detect_vertical: bool) -> Lines:
    """Glyphs consecutive in the content are joined exactly when R1 holds for the pair.

    With detect_vertical the same rule is applied to the rotated page (R6).  A
    pair that satisfies both the horizontal and the vertical rule, and a glyph
    joined horizontally to one side and vertically to the other, are not
    decided by the documentation (None for the pairs involved).
    """
    n = len(glyphs)
    res = Lines()
    hj = [pair_joined(glyphs[i], glyphs[i + 1], lo, cm) for i in range(n - 1)]
    if detect_vertical:
        tg = [transpose(g) for g in glyphs]
        vj = [pair_joined(tg[i], tg[i + 1], lo, cm) for i in range(n - 1)]
    else:
        tg = []
        vj = [False] * (n - 1)
    for i in range(n - 1):
        if hj[i] and vj[i]:
            res.joined.append(None)
            res.orient.append(None)
            res.space.append(None)
            continue
        o = "h" if hj[i] else ("v" if vj[i] else None)
        und = False
        if o is not None:
            other = vj if o == "h" else hj
            # neighbours pairs of the other orientation sharing a glyph
            if (i > 0 and other[i - 1]) or (i + 1 < n - 1 and other[i + 1]):
                und = True
        else:
            # a non-joined pair between a horizontal and a vertical run is decided (not joined)
            pass
        if und:
            res.joined.append(None)
            res.orient.append(None)
            res.space.append(None)
        elif o == "h":
            res.joined.append(True)
            res.orient.append("h")
            res.space.append(space_expected(glyphs[i], glyphs[i + 1], wm) if wm > 0 else None)
        elif o == "v":
            res.joined.append(True)
            res.orient.append("v")
            res.space.append(space_expected(tg[i], tg[i + 1], wm) if wm > 0 else None)
        else:
            res.joined.append(False)
            res.orient.append(None)
            res.space.append(None)
    return res


# --------------------------------------------------------------------------
# lines -> boxes (R4, F1, F2)
# --------------------------------------------------------------------------
def _tri_and(*vals: Optional[bool]) -> Optional[bool]:
    if any(v is False for v in vals):
        return False
    if any(v is None for v in vals):
        return None
    return True


def _within(value, tol) -> Optional[bool]:
    """F2 "within tolerance": inside -> True, outside -> False, exactly on it -> not decided."""
    if value < tol:
        return True
    if value > tol:
        return False
    return None


def _neighbours_d(a: Box, b: Box, d) -> Optional[bool]:
    """The neighbour relation of two horizontal lines for an absolute closeness d."""
    ov = min(a[2], b[2]) - max(a[0], b[0])
    if ov < 0:
        return False
    hover: Optional[bool] = True if ov > 0 else None  # touching edges: "overlapping"? not decided
    gap = max(a[1], b[1]) - min(a[3], b[3])  # < 0 when the lines overlap vertically
    close = gap < d  # R4 "closer together than": strict
    same = _within(abs((a[3] - a[1]) - (b[3] - b[1])), d)
    al = [_within(abs(a[0] - b[0]), d), _within(abs(a[2] - b[2]), d),
          _within(abs(Fraction(a[0] + a[2], 2) - Fraction(b[0] + b[2], 2)), d)]
    if any(v is True for v in al):
        aligned: Optional[bool] = True
    elif any(v is None for v in al):
        aligned = None
    else:
        aligned = False
    return _tri_and(hover, close, same, aligned)


def lines_neighbours(a: Box, b: Box, line_margin: Fraction) -> Optional[bool]:
    """R4 + F1 for two horizontal lines.

    "the height of the bounding box" / "same height as self": the closeness is
    line_margin x height of ONE of the two lines, the documentation does not
    say which when they differ.  Decided True when the relation holds with the
    smaller height, decided False when it fails with the larger one.
    """
    ha, hb = a[3] - a[1], b[3] - b[1]
    dmin, dmax = line_margin * min(ha, hb), line_margin * max(ha, hb)
    # every condition is monotone in d: True under dmin implies True under dmax, False under dmax implies
    # False under dmin
    if _neighbours_d(a, b, dmin) is True:
        return True
    if _neighbours_d(a, b, dmax) is False:
        return False
    return None


def components(n: int, edges: Sequence[Tuple[int, int]]) -> List[List[int]]:
    parent = list(range(n))

    def find(i: int) -> int:
        while parent[i] != i:
            parent[i] = parent[parent[i]]
            i = parent[i]
        return i

    for i, j in edges:
        ri, rj = find(i), find(j)
        if ri != rj:
            parent[max(ri, rj)] = min(ri, rj)
    groups: Dict[int, List[int]] = {}
    for i in range(n):
        groups.setdefault(find(i), []).append(i)
    return sorted(groups.values())


def expected_boxes(lines: Sequence[Tuple[Box, str]], line_margin: Fraction, detect_vertical: bool):
    """lines: (bbox, orientation 'h'|'v'|'?'); -> (partition or None, n_undecided_edges).

    Brute force: connected components of the documented neighbour relation.
    Returned partition is None when undecided pairs could change it.
    """
    n = len(lines)
    yes: List[Tuple[int, int]] = []
    maybe: List[Tuple[int, int]] = []
    for i in range(n):
        bi, oi = lines[i]
        for j in range(i + 1, n):
            bj, oj = lines[j]
            rh = lines_neighbours(bi, bj, line_margin)
            if not detect_vertical:
                r = rh
            else:
                rv = lines_neighbours(transpose(bi), transpose(bj), line_margin)
                if oi == "h" and oj == "h":
                    r = rh
                elif oi == "v" and oj == "v":
                    r = rv
                elif oi == "?" and oj == "?":
                    # single glyphs: the documentation does not say how they are oriented
                    r = False if (rh is False and rv is False) else None
                elif "?" in (oi, oj):
                    other = oj if oi == "?" else oi
                    rr = rh if other == "h" else rv
                    r = False if rr is False else None
                else:
                    r = False  # F1: neighbours are lines of the same kind
            if r is True:
                yes.append((i, j))
            elif r is None:
                maybe.append((i, j))
    p_lo = components(n, yes)
    p_hi = components(n, yes + maybe)
    return (p_lo if p_lo == p_hi else None), len(maybe)


# --------------------------------------------------------------------------
# order of boxes (L2, R5, the property's "top to bottom, left column first")
# --------------------------------------------------------------------------
def order_constraints(boxes: Sequence[Box], boxes_flow: Optional[Fraction]) -> Tuple[str, List[Tuple[int, int]]]:
    """-> (layout_class, [(i, j)]: box i must come out before box j).

    Only arrangements for which the documentation decides the order:

    boxes_flow None (L2: "based on the position of the bottom left corner"):
      for two boxes with the same x0 the one with the higher bottom comes
      first, for two boxes with the same y0 the left one comes first (the same
      under "y then x" and "x then y").
    single column (all boxes same x0 and x1, vertically disjoint): top to
      bottom whenever the vertical position matters at all (boxes_flow > -1).
    two columns (two such columns of the same width, same top and same bottom,
      the right one entirely to the right, and - by R5 - every merge inside a
      column strictly closer than any merge across the gutter): left column
      before right column whenever the horizontal position matters
      (boxes_flow < 1); top to bottom inside a column for boxes_flow > -1.
    box beside column (one box on the left spanning the whole height, two or more vertically disjoint boxes
      with a common left edge on the right, same top and bottom): the same constraints.  This rests on the
      property statement ("two columns of equal vertical extent: left before right"), not on R5: by closeness
      alone the left box may well be nearest to the top right box.
    """
    n = len(boxes)
    cons: List[Tuple[int, int]] = []
    if n < 2:
        return ("single_box", cons)
    if boxes_flow is None:
        for i in range(n):
            for j in range(n):
                if i == j:
                    continue
                a, b = boxes[i], boxes[j]
                if a[0] == b[0] and a[1] > b[1]:
                    cons.append((i, j))
                elif a[1] == b[1] and a[0] < b[0]:
                    cons.append((i, j))
        return ("none", cons)

    def column_ok(idx: List[int]) -> bool:
        xs = {(boxes[i][0], boxes[i][2]) for i in idx}
        if len(xs) != 1:
            return False
        s = sorted(idx, key=lambda i: -boxes[i][3])
        return all(boxes[s[k]][1] > boxes[s[k + 1]][3] for k in range(len(s) - 1))

    def top_down(idx: List[int]) -> List[Tuple[int, int]]:
        s = sorted(idx, key=lambda i: -boxes[i][3])
        return [(s[a], s[b]) for a in range(len(s)) for b in range(a + 1, len(s))]

    allidx = list(range(n))
    if column_ok(allidx):
        if boxes_flow > -1:
            cons = top_down(allidx)
        return ("one_column", cons)
    x0s = sorted({b[0] for b in boxes})
    if len(x0s) == 2:
        left = [i for i in allidx if boxes[i][0] == x0s[0]]
        right = [i for i in allidx if boxes[i][0] == x0s[1]]
        if column_ok(left) and column_ok(right):
            lb, rb = union([boxes[i] for i in left]), union([boxes[i] for i in right])
            w = lb[2] - lb[0]
            gutter = rb[0] - lb[2]
            if w == rb[2] - rb[0] and gutter > 0 and lb[1] == rb[1] and lb[3] == rb[3]:
                # R5: merges inside a column cost width x gap; any merge across costs >= gutter x (height of the
                # lower of the two merged parts) >= gutter x smallest box height
                gaps = []
                for col in (left, right):
                    s = sorted(col, key=lambda i: -boxes[i][3])
                    gaps += [boxes[s[k]][1] - boxes[s[k + 1]][3] for k in range(len(s) - 1)]
                minh = min(b[3] - b[1] for b in boxes)
                if not gaps or w * max(gaps) < gutter * minh:
                    if boxes_flow < 1:
                        cons += [(i, j) for i in left for j in right]
                    if boxes_flow > -1:
                        cons += top_down(left) + top_down(right)
                    return ("two_columns", cons)
        # one tall box beside a column of several boxes of the same vertical extent (the property's "a left column
        # before a right one" for two columns of equal extent; the right column may be ragged on its right side)
        if len(left) == 1 and len(right) >= 2 and len({boxes[i][0] for i in right}) == 1:
            lb, rb = boxes[left[0]], union([boxes[i] for i in right])
            s = sorted(right, key=lambda i: -boxes[i][3])
            disjoint = all(boxes[s[k]][1] > boxes[s[k + 1]][3] for k in range(len(s) - 1))
            if disjoint and lb[2] < rb[0] and lb[1] == rb[1] and lb[3] == rb[3]:
                if boxes_flow < 1:
                    cons += [(left[0], j) for j in right]
                if boxes_flow > -1:
                    cons += top_down(right)
                return ("box_beside_column", cons)
    return ("other", cons)
