"""Reference *encoders* for the lossless stream filters, for the C18 image workload.

Written from ISO 32000-1 7.4 (ASCIIHex 7.4.2, ASCII85 7.4.3, LZW 7.4.4, Flate
7.4.4, RunLength 7.4.5); nothing is taken from pdfminer.  zlib / base64 /
binascii from the standard library are trusted.  Each encoder has a matching
reference decoder here that is used only by `selftest()` (run once per shard) so
that a defect of an encoder cannot be mistaken for one of pdfminer.
"""
from __future__ import annotations

import base64
import binascii
import random
import zlib
from typing import Dict, List, Optional, Tuple

# full name, abbreviation permitted in inline images (ISO 32000-1 Table 94)
FILTER_NAMES = {
    "AHx": "ASCIIHexDecode",
    "A85": "ASCII85Decode",
    "LZW": "LZWDecode",
    "Fl": "FlateDecode",
    "RL": "RunLengthDecode",
    "DCT": "DCTDecode",
}
LOSSLESS = ["AHx", "A85", "LZW", "Fl", "RL"]


# ---------------------------------------------------------------- ASCIIHex
def hex_encode(data: bytes, rng: Optional[random.Random] = None) -> bytes:
    """Hex digits (random case, optional white space between digits pairs/lines), EOD '>'."""
    h = binascii.hexlify(data)
    if rng is None:
        return h + b">"
    if rng.random() < 0.5:
        h = h.upper()
    style = rng.randrange(3)
    if style == 1 and h:
        n = rng.choice([2, 16, 64])
        h = b"\n".join(h[i:i + n] for i in range(0, len(h), n))
    elif style == 2 and h:
        n = rng.choice([3, 7, 40])  # white space may fall between the two digits of a byte
        h = b" ".join(h[i:i + n] for i in range(0, len(h), n))
    return h + b">"


def hex_decode(data: bytes) -> bytes:
    out = bytearray()
    digs = []
    for c in data:
        ch = bytes([c])
        if ch == b">":
            break
        if ch in b"\x00\t\n\x0c\r ":
            continue
        digs.append(int(ch, 16))
    if len(digs) % 2:
        digs.append(0)
    for i in range(0, len(digs), 2):
        out.append(digs[i] * 16 + digs[i + 1])
    return bytes(out)


# ---------------------------------------------------------------- ASCII85
def a85_encode(data: bytes, rng: Optional[random.Random] = None) -> bytes:
    """base64.a85encode(adobe=True) without the leading '<~' (PDF has only the EOD '~>')."""
    wrap = 0
    if rng is not None:
        wrap = rng.choice([0, 0, 20, 72])
    e = base64.a85encode(data, adobe=True, wrapcol=wrap)
    assert e.startswith(b"<~") and e.endswith(b"~>")
    e = e[2:]
    if wrap:
        # python counts the removed '<~' in the first line and may break before '~>'; both are
        # legal (white space is ignored anywhere), but keep the EOD marker in one piece
        body = e[:-2].replace(b"\n~", b"~")
        if body.endswith(b"\n"):
            body = body[:-1]
        e = body + b"~>"
        assert b"~\n>" not in e
    return e


def a85_decode(data: bytes) -> bytes:
    i = data.index(b"~>")
    return base64.a85decode(b"<~" + data[:i] + b"~>", adobe=True)


# ---------------------------------------------------------------- RunLength
def rl_encode(data: bytes, rng: Optional[random.Random] = None) -> bytes:
    """ISO 32000-1 7.4.5: length byte L<128: copy L+1 literal bytes; L>128: repeat the next byte
    257-L times; 128 = EOD.  With rng the split into literal/repeat runs is randomised (every
    split is a legal encoding)."""
    out = bytearray()
    i = 0
    n = len(data)
    while i < n:
        # length of the run of equal bytes starting at i
        j = i + 1
        while j < n and data[j] == data[i] and j - i < 128:
            j += 1
        run = j - i
        use_run = run >= 2 and (rng is None or rng.random() < 0.8)
        if use_run:
            if rng is not None and run > 2 and rng.random() < 0.3:
                run = rng.randint(2, run)
            out.append(257 - run)
            out.append(data[i])
            i += run
        else:
            # literal run: up to 128 bytes; stop before a long repeat (or at a random point)
            k = i + 1
            lim = min(n, i + 128)
            if rng is not None and rng.random() < 0.3:
                lim = min(lim, i + rng.randint(1, 128))
            while k < lim:
                if rng is None and k + 2 < n and data[k] == data[k + 1] == data[k + 2]:
                    break
                k += 1
            out.append(k - i - 1)
            out += data[i:k]
            i = k
    out.append(128)
    return bytes(out)


def rl_decode(data: bytes) -> bytes:
    out = bytearray()
    i = 0
    while i < len(data):
        L = data[i]
        i += 1
        if L == 128:
            break
        if L < 128:
            out += data[i:i + L + 1]
            i += L + 1
        else:
            out += bytes([data[i]]) * (257 - L)
            i += 1
    return bytes(out)


# ---------------------------------------------------------------- LZW
class _BitWriter:
    def __init__(self) -> None:
        self.acc = 0
        self.nbits = 0
        self.out = bytearray()

    def put(self, code: int, width: int) -> None:
        self.acc = (self.acc << width) | code
        self.nbits += width
        while self.nbits >= 8:
            self.nbits -= 8
            self.out.append((self.acc >> self.nbits) & 0xFF)
        self.acc &= (1 << self.nbits) - 1

    def finish(self) -> bytes:
        if self.nbits:
            self.out.append((self.acc << (8 - self.nbits)) & 0xFF)
            self.nbits = 0
        return bytes(self.out)


def lzw_encode(data: bytes) -> bytes:
    """ISO 32000-1 7.4.4.2 with EarlyChange = 1 (the default): codes 0-255 bytes, 256 clear-table,
    257 EOD, first free code 258; codes are packed high-order bit first; the code length starts at 9
    and the first 10-bit code is the one following the creation of table entry 511 (1023 -> 11 bits,
    2047 -> 12 bits).  Starts with clear-table and clears again before the table could overflow."""
    bw = _BitWriter()
    width = 9
    table: Dict[bytes, int] = {bytes([i]): i for i in range(256)}
    nxt = 258
    bw.put(256, width)
    w = b""
    for c in data:
        wc = w + bytes([c])
        if wc in table:
            w = wc
            continue
        bw.put(table[w], width)
        table[wc] = nxt
        nxt += 1
        if nxt == 4094:  # entry 4093 was just created: clear (as libtiff does) while still 12 bits
            bw.put(256, width)
            table = {bytes([i]): i for i in range(256)}
            nxt = 258
            width = 9
        elif nxt - 1 == (1 << width) - 1 and width < 12:
            width += 1
        w = bytes([c])
    if w:
        bw.put(table[w], width)
        # the decoder creates one more entry on reading this code: it may cross a width boundary
        nxt += 1
        if nxt - 1 == (1 << width) - 1 and width < 12:
            width += 1
    bw.put(257, width)
    return bw.finish()


def lzw_decode(data: bytes) -> bytes:
    """Straightforward decoder (EarlyChange 1) used only to self-test the encoder."""
    out = bytearray()
    pos = 0
    nbits_total = len(data) * 8
    big = int.from_bytes(data, "big") if data else 0

    def get(width: int) -> Optional[int]:
        nonlocal pos
        if pos + width > nbits_total:
            return None
        v = (big >> (nbits_total - pos - width)) & ((1 << width) - 1)
        pos += width
        return v

    width = 9
    table: List[bytes] = [bytes([i]) for i in range(256)] + [b"", b""]
    prev: Optional[bytes] = None
    while True:
        code = get(width)
        if code is None or code == 257:
            break
        if code == 256:
            table = [bytes([i]) for i in range(256)] + [b"", b""]
            width = 9
            prev = None
            continue
        if prev is None:
            entry = table[code]
        else:
            if code < len(table):
                entry = table[code]
            elif code == len(table):
                entry = prev + prev[:1]
            else:
                raise ValueError("bad LZW code")
            table.append(prev + entry[:1])
        out += entry
        prev = entry
        # the encoder is one entry ahead: switch when the *next* entry to be created is 2**w - 1
        if len(table) + 1 > (1 << width) - 1 and width < 12:
            width += 1
    return bytes(out)


# ---------------------------------------------------------------- chains
def encode(kind: str, data: bytes, rng: Optional[random.Random] = None) -> bytes:
    if kind == "AHx":
        return hex_encode(data, rng)
    if kind == "A85":
        return a85_encode(data, rng)
    if kind == "LZW":
        return lzw_encode(data)
    if kind == "Fl":
        level = 6 if rng is None else rng.choice([0, 1, 6, 9])
        return zlib.compress(data, level)
    if kind == "RL":
        return rl_encode(data, rng)
    raise ValueError(kind)


def encode_chain(chain: List[str], data: bytes, rng: Optional[random.Random] = None) -> bytes:
    """`chain` is in the order of the /Filter array (the order a reader *decodes* in), so the
    encoders are applied last to first.  'DCT' is a no-op here (the data are an opaque JPEG)."""
    for kind in reversed(chain):
        if kind == "DCT":
            continue
        data = encode(kind, data, rng)
    return data


_DECODERS = {"AHx": hex_decode, "A85": a85_decode, "LZW": lzw_decode, "Fl": zlib.decompress, "RL": rl_decode}


def selftest() -> None:
    rng = random.Random("c18enc-selftest")
    samples = [b"", b"\x00", b"a", b"aaaa", bytes(range(256)) * 3, b"\x00" * 700, b"ab" * 3000,
               bytes(rng.randrange(256) for _ in range(9000)), bytes(rng.randrange(4) for _ in range(20000))]
    for s in samples:
        for k, d in _DECODERS.items():
            for r in (None, rng):
                e = encode(k, s, r)
                if d(e) != s:
                    raise AssertionError("reference encoder %s does not round-trip (len %d)" % (k, len(s)))
