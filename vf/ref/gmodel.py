"""Reference model of PDF content streams (ISO 32000-1 8.2-8.5, 9.3-9.4) in exact
rational arithmetic, plus the emitter that turns a program into content-stream
bytes.  Written from the specification; shares no code with pdfminer.

A program is a list of Op(name, operands, bad=False).  Operands are Fractions /
ints (numbers), bytes (strings), Nm (names), lists (arrays).  `bad=True` marks a
deliberately malformed occurrence (missing or ill-typed operands): the model
treats it as having no effect except on the operator's *own* parameter, which
becomes undefined until it is set again.
"""
from __future__ import annotations

from fractions import Fraction as F
from typing import Any, Dict, List, Optional, Sequence, Tuple

from vf.gen.pdfw import Name, ser_string

Matrix = Tuple[F, F, F, F, F, F]
IDENT: Matrix = (F(1), F(0), F(0), F(1), F(0), F(0))
UNKNOWN = "<unknown>"      # parameter undefined after a malformed operator
NEVER_SET = "<never-set>"  # colour never set by the program (pdfminer reports None; the model's initial black)


class Op:
    __slots__ = ("name", "args", "bad", "note")

    def __init__(self, name: str, args: Sequence[Any] = (), bad: bool = False, note: str = "") -> None:
        self.name = name
        self.args = list(args)
        self.bad = bad
        self.note = note

    def __repr__(self) -> str:
        return "%s%s %s" % ("!" if self.bad else "", " ".join(map(_short, self.args)), self.name)


def _short(a: Any) -> str:
    if isinstance(a, F):
        return fmt_num(a).decode()
    if isinstance(a, Name):
        return "/" + a.b.decode("latin-1")
    if isinstance(a, list):
        return "[" + " ".join(_short(x) for x in a) + "]"
    return repr(a)


def fmt_num(x: Any) -> bytes:
    """Exact decimal text of a dyadic rational (PDF has no exponent notation)."""
    if isinstance(x, int):
        return b"%d" % x
    x = F(x)
    if x.denominator == 1:
        return b"%d" % x.numerator
    sign = b"-" if x < 0 else b""
    x = abs(x)
    ip = x.numerator // x.denominator
    frac = x - ip
    digits = bytearray()
    for _ in range(40):
        frac *= 10
        d = frac.numerator // frac.denominator
        digits.append(48 + d)
        frac -= d
        if frac == 0:
            break
    else:
        raise ValueError("not a terminating decimal: %r" % x)
    return sign + b"%d." % ip + bytes(digits)


def emit_operand(a: Any) -> bytes:
    if isinstance(a, bool):
        return b"true" if a else b"false"
    if isinstance(a, (int, F)):
        return fmt_num(a)
    if isinstance(a, Name):
        from vf.gen.pdfw import ser_name

        return ser_name(a.b)
    if isinstance(a, (bytes, bytearray)):
        return ser_string(bytes(a))
    if isinstance(a, list):
        return b"[" + b" ".join(emit_operand(x) for x in a) + b"]"
    if a is None:
        return b"null"
    raise TypeError(a)


def emit_tokens(ops: Sequence[Op]) -> List[bytes]:
    """One entry per lexical token group; arrays are emitted bracket by element so that a content stream may be
    split inside a composite operand (ISO 32000-1 7.8.2 allows a split at any token boundary)."""
    toks: List[bytes] = []
    for op in ops:
        for a in op.args:
            if isinstance(a, list):
                toks.append(b"[")
                toks.extend(emit_operand(x) for x in a)
                toks.append(b"]")
            else:
                toks.append(emit_operand(a))
        toks.append(op.name.encode())
    return toks


# --------------------------------------------------------------------------
def mul(m1: Matrix, m0: Matrix) -> Matrix:
    """m1 x m0 in the PDF row-vector convention: apply m1 first, then m0."""
    a1, b1, c1, d1, e1, f1 = m1
    a0, b0, c0, d0, e0, f0 = m0
    return (a1 * a0 + b1 * c0, a1 * b0 + b1 * d0, c1 * a0 + d1 * c0, c1 * b0 + d1 * d0,
            e1 * a0 + f1 * c0 + e0, e1 * b0 + f1 * d0 + f0)


def translate(tx: F, ty: F) -> Matrix:
    return (F(1), F(0), F(0), F(1), F(tx), F(ty))


def apply_pt(m: Matrix, p: Tuple[F, F]) -> Tuple[F, F]:
    a, b, c, d, e, f = m
    x, y = p
    return (a * x + c * y + e, b * x + d * y + f)


class FontModel:
    """A simple font (one-byte codes, /Widths from /FirstChar, /MissingWidth) or, with cid_widths given, a composite
    font with the Identity-H encoding (two-byte codes = CIDs, /W and /DW)."""

    def __init__(self, resname: str, fontname: str, first: int, widths: List[int], missing: int, descent: int,
                 cid_widths: Optional[Dict[int, int]] = None, dw: int = 1000, wscale: Any = None) -> None:
        self.resname = resname
        self.fontname = fontname
        self.first = first
        self.widths = widths
        self.missing = missing
        self.descent = descent
        self.multibyte = cid_widths is not None
        self.cid_widths = cid_widths or {}
        self.dw = dw
        # glyph space -> text space: 1/1000 except for a Type 3 font, whose /FontMatrix says (9.6.5)
        self.wscale = F(1, 1000) if wscale is None else F(wscale)

    def w0(self, code: int) -> F:
        if self.multibyte:
            return F(self.cid_widths.get(code, self.dw)) / 1000
        i = code - self.first
        if 0 <= i < len(self.widths):
            return F(self.widths[i]) * self.wscale
        return F(self.missing) * self.wscale

    def codes(self, s: bytes) -> List[int]:
        """Split a shown string into character codes (ISO 32000-1 9.7.6.2 for Identity-H: two bytes each)."""
        if self.multibyte:
            return [(s[i] << 8) | s[i + 1] for i in range(0, len(s) - 1, 2)]
        return list(s)


class GState:
    __slots__ = ("ctm", "Tc", "Tw", "Th", "TL", "font", "Tfs", "rise", "Tm", "Tlm", "fill", "stroke", "linewidth", "dash",
                 "fill_cs", "stroke_cs", "pen_known", "tlm_known")

    def __init__(self) -> None:
        self.ctm: Matrix = IDENT
        self.Tc: Any = F(0)
        self.Tw: Any = F(0)
        self.Th: Any = F(1)
        self.TL: Any = F(0)
        self.font: Any = None
        self.Tfs: Any = None
        self.rise: Any = F(0)
        self.Tm: Matrix = IDENT
        self.Tlm: Matrix = IDENT
        self.fill: Any = NEVER_SET
        self.stroke: Any = NEVER_SET
        self.linewidth: Any = F(0)
        self.dash: Any = None
        self.fill_cs: Any = "DeviceGray"
        self.stroke_cs: Any = "DeviceGray"
        self.pen_known = True   # is Tm (the pen) defined?
        self.tlm_known = True   # is the text line matrix defined?

    def copy(self) -> "GState":
        g = GState()
        for s in self.__slots__:
            setattr(g, s, getattr(self, s))
        return g


class Glyph:
    __slots__ = ("code", "matrix", "adv", "fontname", "font", "Tfs", "Th", "rise", "fill", "fill_cs", "depth", "pen_known", "index")

    def __repr__(self) -> str:
        return "Glyph(code=%d font=%s depth=%d)" % (self.code, self.fontname, self.depth)


class TextModel:
    """Reference interpreter for the text/graphics-state subset used by C05."""

    def __init__(self, fonts: Dict[str, FontModel], forms: Optional[Dict[str, Any]] = None) -> None:
        self.fonts = fonts          # resource name -> FontModel (page resources)
        self.forms = forms or {}    # xobject name -> {"matrix": Matrix, "ops": [...], "fonts": {...} or None, "forms": {...}}
        self.glyphs: List[Glyph] = []

    def run(self, ops: Sequence[Op], ctm: Matrix = IDENT) -> List[Glyph]:
        gs = GState()
        gs.ctm = ctm
        self._exec(ops, gs, self.fonts, self.forms, 0)
        return self.glyphs

    # ------------------------------------------------------------------
    def _show(self, gs: GState, s: bytes, depth: int) -> None:
        multibyte = isinstance(gs.font, FontModel) and gs.font.multibyte
        for code in (gs.font.codes(s) if isinstance(gs.font, FontModel) else list(s)):
            g = Glyph()
            g.code = code
            g.font = gs.font
            g.fontname = gs.font.fontname if isinstance(gs.font, FontModel) else UNKNOWN
            g.Tfs, g.Th, g.rise, g.fill, g.depth = gs.Tfs, gs.Th, gs.rise, gs.fill, depth
            g.fill_cs = gs.fill_cs
            known = gs.pen_known and isinstance(gs.font, FontModel) and UNKNOWN not in (gs.Tfs, gs.Th, gs.Tc, gs.Tw)
            g.pen_known = gs.pen_known
            g.matrix = mul(gs.Tm, gs.ctm)
            if isinstance(gs.font, FontModel) and gs.Tfs is not UNKNOWN and gs.Th is not UNKNOWN:
                w0 = gs.font.w0(code)
                g.adv = w0 * gs.Tfs * gs.Th
            else:
                g.adv = UNKNOWN
            g.index = len(self.glyphs)
            self.glyphs.append(g)
            if known:
                # word spacing applies to the single-byte code 32 only (9.3.3), never to a two-byte code
                tx = (w0 * gs.Tfs + gs.Tc + (gs.Tw if (code == 32 and not multibyte) else 0)) * gs.Th
                gs.Tm = mul(translate(tx, F(0)), gs.Tm)
            else:
                gs.pen_known = False

    def _exec(self, ops: Sequence[Op], gs: GState, fonts: Dict[str, FontModel], forms: Dict[str, Any], depth: int) -> None:
        stack: List[GState] = []
        for op in ops:
            n, a = op.name, op.args
            if op.bad:
                # a malformed operator affects nothing but (possibly) its own parameter
                if n == "Tc":
                    gs.Tc = UNKNOWN
                elif n == "Tw":
                    gs.Tw = UNKNOWN
                elif n == "Tz":
                    gs.Th = UNKNOWN
                elif n == "TL":
                    gs.TL = UNKNOWN
                elif n == "Ts":
                    gs.rise = UNKNOWN
                elif n == "Tf":
                    gs.font = UNKNOWN
                    gs.Tfs = UNKNOWN
                elif n in ("Tj", "TJ"):
                    gs.pen_known = False        # own parameter: the pen; the line matrix is untouched
                elif n in ("Td", "TD", "Tm", "T*", "'", '"'):
                    gs.pen_known = gs.tlm_known = False
                    if n == "TD":
                        gs.TL = UNKNOWN
                    if n == '"':
                        gs.Tc = gs.Tw = UNKNOWN
                elif n in ("g", "rg", "k"):
                    gs.fill = gs.fill_cs = UNKNOWN
                elif n in ("G", "RG", "K"):
                    gs.stroke = gs.stroke_cs = UNKNOWN
                elif n == "cm":
                    pass  # cm has no parameter of its own that a later cm would reset: must be a no-op
                continue
            if n == "q":
                stack.append(gs.copy())
            elif n == "Q":
                if stack:
                    restored = stack.pop()
                    for s in GState.__slots__:
                        setattr(gs, s, getattr(restored, s))
            elif n == "cm":
                gs.ctm = mul(tuple(F(x) for x in a), gs.ctm)  # type: ignore[arg-type]
            elif n == "BT":
                gs.Tm = gs.Tlm = IDENT
                gs.pen_known = gs.tlm_known = True
            elif n == "ET":
                pass
            elif n == "Tc":
                gs.Tc = F(a[0])
            elif n == "Tw":
                gs.Tw = F(a[0])
            elif n == "Tz":
                gs.Th = F(a[0]) / 100
            elif n == "TL":
                gs.TL = F(a[0])
            elif n == "Ts":
                gs.rise = F(a[0])
            elif n == "Tf":
                gs.font = fonts[a[0].b.decode("latin-1")]
                gs.Tfs = F(a[1])
            elif n in ("Td", "TD"):
                if n == "TD":
                    gs.TL = -F(a[1])
                gs.Tlm = mul(translate(F(a[0]), F(a[1])), gs.Tlm)
                gs.Tm = gs.Tlm
                gs.pen_known = gs.tlm_known
            elif n == "Tm":
                gs.Tm = gs.Tlm = tuple(F(x) for x in a)  # type: ignore[assignment]
                gs.pen_known = gs.tlm_known = True
            elif n == "T*":
                self._nextline(gs)
            elif n == "Tj":
                self._show(gs, a[0], depth)
            elif n == "'":
                self._nextline(gs)
                self._show(gs, a[0], depth)
            elif n == '"':
                gs.Tw = F(a[0])
                gs.Tc = F(a[1])
                self._nextline(gs)
                self._show(gs, a[2], depth)
            elif n == "TJ":
                for el in a[0]:
                    if isinstance(el, (bytes, bytearray)):
                        self._show(gs, bytes(el), depth)
                    else:
                        if gs.Tfs is UNKNOWN or gs.Th is UNKNOWN:
                            gs.pen_known = False
                        else:
                            tx = -F(el) / 1000 * gs.Tfs * gs.Th
                            gs.Tm = mul(translate(tx, F(0)), gs.Tm)
            elif n == "g":
                gs.fill, gs.fill_cs = F(a[0]), "DeviceGray"
            elif n == "rg":
                gs.fill, gs.fill_cs = tuple(F(x) for x in a), "DeviceRGB"
            elif n == "k":
                gs.fill, gs.fill_cs = tuple(F(x) for x in a), "DeviceCMYK"
            elif n == "G":
                gs.stroke, gs.stroke_cs = F(a[0]), "DeviceGray"
            elif n == "RG":
                gs.stroke, gs.stroke_cs = tuple(F(x) for x in a), "DeviceRGB"
            elif n == "K":
                gs.stroke, gs.stroke_cs = tuple(F(x) for x in a), "DeviceCMYK"
            elif n in ("cs", "CS"):
                # the colour becomes the initial colour of the new space (8.6.8); the value is not asserted until set
                if n == "cs":
                    gs.fill_cs, gs.fill = a[0].b.decode("latin-1"), UNKNOWN
                else:
                    gs.stroke_cs, gs.stroke = a[0].b.decode("latin-1"), UNKNOWN
            elif n in ("sc", "scn", "SC", "SCN"):
                # generated with as many operands as the space named by the cs/CS right before it has components
                val: Any = F(a[0]) if len(a) == 1 else tuple(F(x) for x in a)
                if n in ("sc", "scn"):
                    gs.fill = val
                else:
                    gs.stroke = val
            elif n == "Do":
                form = forms[a[0].b.decode("latin-1")]
                inner = gs.copy()           # form = q  Matrix cm  <content>  Q
                inner.ctm = mul(form["matrix"], gs.ctm)
                ffonts = form["fonts"] if form.get("fonts") is not None else fonts
                fforms = form.get("forms") or {}
                self._exec(form["ops"], inner, ffonts, fforms, depth + 1)
                # the caller's state afterwards is what it was before: gs is untouched
            else:
                raise ValueError("model has no operator %r" % n)

    def _nextline(self, gs: GState) -> None:
        if gs.TL is UNKNOWN:
            gs.pen_known = gs.tlm_known = False
            return
        gs.Tlm = mul(translate(F(0), -gs.TL), gs.Tlm)
        gs.Tm = gs.Tlm
        gs.pen_known = gs.tlm_known


# ==========================================================================
# Path / painting model (ISO 32000-1 8.4.3-8.4.4, 8.5, 8.6.8) for C16
# ==========================================================================
CS_COMPONENTS = {"DeviceGray": 1, "DeviceRGB": 3, "DeviceCMYK": 4}
PAINT = {  # operator -> (close first, stroke, fill, evenodd)
    "S": (False, True, False, False), "s": (True, True, False, False),
    "f": (False, False, True, False), "f*": (False, False, True, True),
    "B": (False, True, True, False), "B*": (False, True, True, True),
    "b": (True, True, True, False), "b*": (True, True, True, True),
}


class Shape:
    __slots__ = ("ops", "pts", "pts_elided", "original_path", "klass", "stroke", "fill", "evenodd", "linewidth", "dash",
                 "scolor", "ncolor", "index", "corners")

    def __repr__(self) -> str:
        return "Shape(%s %s pts=%d)" % (self.klass, "".join(self.ops), len(self.pts))


class PathModel:
    """Reference interpreter for path construction/painting with the graphics state that shapes carry."""

    def __init__(self, colorspaces: Optional[Dict[str, int]] = None) -> None:
        self.cs = dict(CS_COMPONENTS)
        self.cs.update(colorspaces or {})     # resource name -> number of components
        self.shapes: List[Shape] = []

    def run(self, ops: Sequence[Op], ctm: Matrix = IDENT) -> List[Shape]:
        gs = GState()
        gs.ctm = ctm
        gs.linewidth = NEVER_SET
        gs.dash = NEVER_SET
        stack: List[GState] = []
        sub: List[Tuple[str, List[F]]] = []   # current path: list of (op, operands)
        for op in ops:
            n, a = op.name, op.args
            if op.bad:
                if n in ("g", "rg", "k", "sc", "scn"):
                    gs.fill = UNKNOWN
                elif n in ("G", "RG", "K", "SC", "SCN"):
                    gs.stroke = UNKNOWN
                elif n == "w":
                    gs.linewidth = UNKNOWN
                elif n == "d":
                    gs.dash = UNKNOWN
                elif n == "cs":
                    gs.fill_cs = UNKNOWN
                    gs.fill = UNKNOWN
                elif n == "CS":
                    gs.stroke_cs = UNKNOWN
                    gs.stroke = UNKNOWN
                continue
            if n == "q":
                stack.append(gs.copy())
            elif n == "Q":
                if stack:
                    r = stack.pop()
                    for s in GState.__slots__:
                        setattr(gs, s, getattr(r, s))
            elif n == "cm":
                gs.ctm = mul(tuple(F(x) for x in a), gs.ctm)  # type: ignore[arg-type]
            elif n == "w":
                gs.linewidth = F(a[0])
            elif n == "d":
                gs.dash = ([F(x) for x in a[0]], F(a[1]))
            elif n in ("g", "G"):
                self._set(gs, n == "g", F(a[0]), "DeviceGray")
            elif n in ("rg", "RG"):
                self._set(gs, n == "rg", tuple(F(x) for x in a), "DeviceRGB")
            elif n in ("k", "K"):
                self._set(gs, n == "k", tuple(F(x) for x in a), "DeviceCMYK")
            elif n in ("cs", "CS"):
                name = a[0].b.decode("latin-1")
                ncomp = self.cs[name]
                # the colour becomes the initial colour of the new space (ISO 32000-1 8.6.8); the generator always
                # sets a colour right afterwards, so the value is recorded as UNKNOWN rather than asserted
                if n == "cs":
                    gs.fill_cs, gs.fill = name, UNKNOWN
                else:
                    gs.stroke_cs, gs.stroke = name, UNKNOWN
            elif n in ("sc", "scn", "SC", "SCN"):
                val: Any = F(a[0]) if len(a) == 1 else tuple(F(x) for x in a)
                if n in ("sc", "scn"):
                    gs.fill = val
                else:
                    gs.stroke = val
            elif n in ("m", "l", "c", "v", "y", "h", "re"):
                sub.append((n, [F(x) for x in a]))
            elif n in ("W", "W*"):
                pass
            elif n == "n":
                sub = []
            elif n in PAINT:
                close, stroke, fill, evenodd = PAINT[n]
                self._paint(gs, sub, close, stroke, fill, evenodd)
                sub = []
            else:
                raise ValueError("path model has no operator %r" % n)
        return self.shapes

    @staticmethod
    def _set(gs: GState, fill: bool, val: Any, cs: str) -> None:
        if fill:
            gs.fill, gs.fill_cs = val, cs
        else:
            gs.stroke, gs.stroke_cs = val, cs

    def _paint(self, gs: GState, path: List[Tuple[str, List[F]]], close: bool, stroke: bool, fill: bool, evenodd: bool) -> None:
        # expand re into m l l l h (ISO 32000-1 table 59)
        ex: List[Tuple[str, List[F]]] = []
        for n, a in path:
            if n == "re":
                x, y, w, h = a
                ex += [("m", [x, y]), ("l", [x + w, y]), ("l", [x + w, y + h]), ("l", [x, y + h]), ("h", [])]
            else:
                ex.append((n, a))
        if close:
            ex.append(("h", []))
        # split into subpaths at every m
        subs: List[List[Tuple[str, List[F]]]] = []
        for n, a in ex:
            if n == "m":
                subs.append([(n, a)])
            elif subs:
                subs[-1].append((n, a))
            # construction operators before the first m are not generated
        for sp in subs:
            segs = [s for s in sp[1:]]
            if not segs:
                continue        # a subpath without a segment yields nothing
            sh = Shape()
            sh.ops = [n for n, _ in sp]
            start = tuple(sp[0][1])
            pts = []
            for n, a in sp:
                p = start if n == "h" else tuple(a[-2:])
                pts.append(apply_pt(gs.ctm, p))  # type: ignore[arg-type]
            sh.pts = pts
            # the documented elision: a redundant closing 'l' right before 'h'
            sh.pts_elided = None
            if len(sp) > 3 and sh.ops[-2:] == ["l", "h"] and pts[-2] == pts[0]:
                sh.pts_elided = pts[:-1]
            sh.original_path = [(n, [apply_pt(gs.ctm, (a[i], a[i + 1])) for i in range(0, len(a), 2)]) for n, a in sp]
            sh.stroke, sh.fill, sh.evenodd = stroke, fill, evenodd
            sh.linewidth, sh.dash, sh.scolor, sh.ncolor = gs.linewidth, gs.dash, gs.stroke, gs.fill
            sh.klass, sh.corners = self._classify(sh)
            sh.index = len(self.shapes)
            self.shapes.append(sh)

    @staticmethod
    def _classify(sh: Shape) -> Tuple[str, Any]:
        ops = "".join(sh.ops)
        pts = sh.pts
        if sh.pts_elided is not None:
            ops = ops[:-2] + "h"
            pts = sh.pts_elided
        if ops == "ml":
            return "line", None
        if ops == "mlh":
            return "line|curve", None      # one segment and its closing segment: the statement does not decide
        if ops in ("mlllh", "mllll") and pts[0] == pts[4]:
            (x0, y0), (x1, y1), (x2, y2), (x3, y3) = pts[:4]
            sq = (x0 == x1 and y1 == y2 and x2 == x3 and y3 == y0) or (y0 == y1 and x1 == x2 and y2 == y3 and x3 == x0)
            if sq and x0 != x2 and y0 != y2:
                return "rect", {(x0, y0), (x1, y1), (x2, y2), (x3, y3)}
            if sq:
                return "rect|curve", None  # degenerate (zero-area) rectangle: not decided
        return "curve", None
