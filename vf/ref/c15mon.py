"""C15 monitors: an interpreter audit hook that records file-system events raised
while a library call is active, a path policy that classifies them, and a
directory snapshot that independently verifies what changed on disk.

Nothing here is derived from pdfminer: the policy is the property statement
(reads only inside the resource directories; creations only inside the chosen
output directory, and only of paths that did not exist).
"""
from __future__ import annotations

import hashlib
import os
import sys
from typing import Any, Dict, List, Optional, Tuple

_WRITE_FLAGS = os.O_WRONLY | os.O_RDWR | os.O_CREAT | os.O_TRUNC | os.O_APPEND

# Events that are themselves a violation whenever the library raises them: a
# text/image extractor has no business renaming, deleting, linking, spawning ...
FORBIDDEN_EVENTS = {
    "os.rename", "os.remove", "os.rmdir", "os.symlink", "os.link", "os.truncate", "os.chmod", "os.chown",
    "os.utime", "os.mkfifo", "os.mknod", "os.chdir", "os.chroot", "os.putenv", "os.unsetenv", "os.system",
    "os.exec", "os.fork", "os.forkpty", "os.posix_spawn", "os.spawn", "os.startfile", "os.kill", "os.setxattr",
    "os.removexattr", "os.chflags", "os.lockf", "subprocess.Popen", "shutil.copyfile", "shutil.copymode",
    "shutil.copystat", "shutil.copytree", "shutil.rmtree", "shutil.move", "shutil.chown", "shutil.make_archive",
    "shutil.unpack_archive", "tempfile.mkstemp", "tempfile.mkdtemp", "socket.connect", "socket.bind",
    "socket.getaddrinfo", "socket.gethostbyname", "urllib.Request", "ctypes.dlopen", "mmap.__new__",
    "webbrowser.open", "ftplib.connect", "http.client.connect", "smtplib.connect", "sqlite3.connect",
    "pty.spawn", "fcntl.flock", "fcntl.lockf",
}
PATH_EVENTS = {"open", "os.mkdir", "os.listdir", "os.scandir", "os.walk", "glob.glob", "glob.glob/2"}


def _is_write(mode: Any, flags: Any) -> bool:
    if isinstance(flags, int) and flags & _WRITE_FLAGS:
        return True
    if isinstance(mode, str) and any(c in mode for c in "wax+"):
        return True
    return False


def inside(directory: str, real: str) -> bool:
    """`real` (a realpath) is `directory` (a realpath) or lies below it."""
    if real == directory:
        return True
    d = directory if directory.endswith(os.sep) else directory + os.sep
    return real.startswith(d)


class AuditMonitor:
    """Installed once per process (audit hooks cannot be removed); records only
    while `active`."""

    def __init__(self, libdir: str) -> None:
        self.active = False
        self.busy = False
        self.installed = False
        self.libdir = libdir
        self.events: List[Dict[str, Any]] = []
        self.names: Dict[str, int] = {}
        self.errors: List[str] = []

    def install(self) -> None:
        if not self.installed:
            sys.addaudithook(self._hook)
            self.installed = True

    def start(self) -> None:
        self.events = []
        self.names = {}
        self.errors = []
        self.active = True

    def stop(self) -> None:
        self.active = False

    # ------------------------------------------------------------------
    def _hook(self, event: str, args: Tuple[Any, ...]) -> None:
        if not self.active or self.busy:
            return
        self.busy = True
        try:
            self.names[event] = self.names.get(event, 0) + 1
            if event in PATH_EVENTS or event in FORBIDDEN_EVENTS or event.startswith(("shutil.", "tempfile.")):
                self._record(event, args)
        except Exception as e:  # noqa: BLE001 - never let the monitor disturb the library
            self.errors.append("%s: %r" % (event, e))
        finally:
            self.busy = False

    def _record(self, event: str, args: Tuple[Any, ...]) -> None:
        ev: Dict[str, Any] = {"event": event}
        importing = False
        origin = None
        f = sys._getframe(2)
        depth = 0
        while f is not None and depth < 200:
            fn = f.f_code.co_filename
            if fn.startswith("<frozen importlib") or fn.startswith("<frozen zipimport"):
                importing = True
            if origin is None and fn.startswith(self.libdir):
                origin = "%s:%s:%d" % (fn[len(self.libdir):], f.f_code.co_name, f.f_lineno)
            f = f.f_back
            depth += 1
        ev["importing"] = importing
        ev["origin"] = origin
        if event in PATH_EVENTS:
            p = args[0] if args else None
            if isinstance(p, int):
                ev["fd"] = p
            elif p is None:
                ev["path"] = None
            else:
                try:
                    ps = os.fsdecode(os.fspath(p))
                except TypeError:
                    ps = repr(p)
                ev["path"] = ps
                if "\0" in ps:
                    ev["nul"] = True  # no system call can be made with this path
                else:
                    full = ps if os.path.isabs(ps) else os.path.join(os.getcwd(), ps)
                    ev["full"] = full
                    ev["existed"] = os.path.lexists(full)
                    ev["real"] = os.path.realpath(full)
            if event == "open":
                ev["mode"] = args[1] if len(args) > 1 else None
                ev["flags"] = args[2] if len(args) > 2 else None
                ev["write"] = _is_write(ev["mode"], ev["flags"])
        else:
            ev["args"] = repr(args)[:300]
        self.events.append(ev)


class Policy:
    """What the property allows for one run.

    read_dirs : realpaths of the directories reads may touch (resource dirs)
    outdir    : realpath of the chosen output directory, or None when image
                export is off (then nothing may be created anywhere)
    """

    def __init__(self, read_dirs: List[str], outdir: Optional[str], input_path: Optional[str] = None) -> None:
        self.read_dirs = [os.path.realpath(d) for d in read_dirs]
        self.outdir = os.path.realpath(outdir) if outdir else None
        self.input_path = os.path.realpath(input_path) if input_path else None   # the document itself, when given by name

    def classify(self, ev: Dict[str, Any]) -> Tuple[str, str]:
        """-> (verdict, kind); verdict in {"ok", "ignore", "violation"}."""
        event = ev["event"]
        if event not in PATH_EVENTS:
            return "violation", "forbidden_event:" + event
        if "fd" in ev or ev.get("path") is None:
            return "ignore", "fd_or_none"
        if ev.get("nul"):
            return "ignore", "nul_path_unopenable"
        real = ev["real"]
        if event == "open":
            if ev["write"]:
                if ev["importing"]:
                    return "ignore", "import_write"  # bytecode caches; PYTHONDONTWRITEBYTECODE makes this unreachable
                if self.outdir is None:
                    return "violation", ("overwrite_outside" if ev["existed"] else "create_outside")
                if not inside(self.outdir, real) or real == self.outdir:
                    return "violation", ("overwrite_outside" if ev["existed"] else "create_outside")
                if ev["existed"]:
                    return "violation", "overwrite"
                return "ok", "create_in_outdir"
            if any(inside(d, real) and real != d for d in self.read_dirs):
                return "ok", "read_resource"
            if self.input_path is not None and real == self.input_path:
                return "ok", "read_input"
            if ev["importing"]:
                return "ignore", "import_read"
            return "violation", "open_outside"
        if event == "os.mkdir":
            if self.outdir is not None and (inside(self.outdir, real) or inside(real, self.outdir)):
                return "ok", "mkdir_outdir"
            return "violation", "mkdir_outside"
        # directory listings
        if ev["importing"]:
            return "ignore", "import_listing"
        if any(inside(d, real) for d in self.read_dirs) or (self.outdir is not None and inside(self.outdir, real)):
            return "ok", "listing_allowed"
        return "violation", "listdir_outside"


# --------------------------------------------------------------------------
# directory snapshots
# --------------------------------------------------------------------------
def snapshot(root: str) -> Dict[str, Tuple[str, str]]:
    """path -> ("d", "") | ("l", target) | ("f", sha1 of content) for everything below root."""
    out: Dict[str, Tuple[str, str]] = {}
    stack = [root]
    while stack:
        d = stack.pop()
        with os.scandir(d) as it:
            for e in it:
                p = e.path
                if e.is_symlink():
                    out[p] = ("l", os.readlink(p))
                elif e.is_dir(follow_symlinks=False):
                    out[p] = ("d", "")
                    stack.append(p)
                else:
                    try:
                        with open(p, "rb") as f:
                            out[p] = ("f", hashlib.sha1(f.read()).hexdigest())
                    except OSError as ex:
                        out[p] = ("?", repr(ex))
    return out


def dir_signature(d: str) -> Tuple[Tuple[str, int, int], ...]:
    """Cheap signature of a flat resource directory: (name, size, mtime_ns) of every entry."""
    sig = []
    with os.scandir(d) as it:
        for e in it:
            st = e.stat(follow_symlinks=False)
            sig.append((e.name, st.st_size, st.st_mtime_ns))
    return tuple(sorted(sig))


def diff_snapshots(before: Dict[str, Tuple[str, str]], after: Dict[str, Tuple[str, str]]):
    created = sorted(p for p in after if p not in before)
    removed = sorted(p for p in before if p not in after)
    changed = sorted(p for p in before if p in after and before[p] != after[p])
    return created, removed, changed
