"""Reference *encoders* for the lossless PDF stream filters and predictors.

Written from ISO 32000-1 7.4 (ASCIIHex 7.4.2, ASCII85 7.4.3, LZW 7.4.4.2, Flate
7.4.4, RunLength 7.4.5, predictors 7.4.4.4), TIFF 6.0 section 14 (horizontal
differencing) and the PNG specification chapter 6 (filter algorithms).  Nothing
here is derived from pdfminer.  Trusted base: binascii, base64.a85encode, zlib.

Every encoder takes an optional `random.Random` and chooses among the spellings
an encoder is *allowed* to produce (white space, case, split points, early
clear-table codes, non-maximal matches, ...).  Each returns the encoded bytes;
`encode_chain` returns them together with a description of what was chosen.
"""
from __future__ import annotations

import base64
import binascii
import random
import zlib
from typing import Any, Dict, List, Optional, Sequence, Tuple

# ISO 32000-1 7.2.2 table 1: the six white-space characters
PDF_WS = b"\x00\t\n\x0c\r "
# the four of them every ASCII-oriented tool agrees on
WS_COMMON = b" \t\n\r"

FULL_NAME = {"AHx": "ASCIIHexDecode", "A85": "ASCII85Decode", "LZW": "LZWDecode", "Fl": "FlateDecode",
             "RL": "RunLengthDecode"}
FILTERS = ("AHx", "A85", "LZW", "Fl", "RL")


# --------------------------------------------------------------------------
# ASCIIHex (7.4.2)
# --------------------------------------------------------------------------
def hex_encode(data: bytes, rng: Optional[random.Random] = None, ws: bytes = b"", case: str = "upper",
               drop_final_zero: bool = False, ws_rate: float = 0.0, wrap: int = 0) -> bytes:
    """2 hex digits per byte, EOD '>'.  ws: white-space characters that may be
    inserted anywhere (also between the two digits of a byte and before '>').
    drop_final_zero: if the last digit is '0', leave it out (an odd number of
    digits before EOD means a final 0 is assumed)."""
    digits = binascii.hexlify(data)
    if case == "upper":
        digits = digits.upper()
    elif case == "mixed":
        assert rng is not None
        digits = bytes((c - 32 if (97 <= c <= 102 and rng.random() < 0.5) else c) for c in digits)
    if drop_final_zero and digits[-1:] == b"0":
        digits = digits[:-1]
    body = digits + b">"
    if wrap:
        body = b"\n".join(body[i:i + wrap] for i in range(0, len(body), wrap))
    if ws and ws_rate > 0:
        assert rng is not None
        out = bytearray()
        if rng.random() < 0.3:
            out += _some_ws(rng, ws)  # leading white space
        for c in body:
            if rng.random() < ws_rate:
                out += _some_ws(rng, ws)
            out.append(c)
        body = bytes(out)
    return body


def _some_ws(rng: random.Random, ws: bytes) -> bytes:
    return bytes(rng.choice(ws) for _ in range(rng.choice((1, 1, 1, 2, 3))))


# --------------------------------------------------------------------------
# ASCII85 (7.4.3)
# --------------------------------------------------------------------------
def a85_encode(data: bytes, rng: Optional[random.Random] = None, lead: bool = False, wrap: int = 0,
               expand_z: float = 0.0, ws: bytes = b"", ws_rate: float = 0.0) -> bytes:
    """base64.a85encode(adobe=True): '<~' body '~>'.  lead=False removes the
    leading '<~' (which 7.4.3 does not define).  expand_z: probability of
    writing an all-zero group as '!!!!!' instead of 'z'.  White space may be put
    between any two characters of the body (never inside the EOD '~>')."""
    enc = base64.a85encode(data, adobe=True)
    assert enc[:2] == b"<~" and enc[-2:] == b"~>"
    body = enc[2:-2]
    if expand_z > 0 and b"z" in body:
        assert rng is not None
        body = b"".join((b"!!!!!" if (c == 0x7A and rng.random() < expand_z) else bytes((c,))) for c in body)
    if ws and ws_rate > 0:
        assert rng is not None
        out = bytearray()
        for c in body:
            if rng.random() < ws_rate:
                out += _some_ws(rng, ws)
            out.append(c)
        if rng.random() < ws_rate:
            out += _some_ws(rng, ws)
        body = bytes(out)
    if wrap:
        body = b"\n".join(body[i:i + wrap] for i in range(0, len(body), wrap))
    return (b"<~" if lead else b"") + body + b"~>"


# --------------------------------------------------------------------------
# Flate (7.4.4: zlib/deflate, RFC 1950/1951)
# --------------------------------------------------------------------------
def flate_encode(data: bytes, rng: Optional[random.Random] = None, level: int = 6, wbits: int = 15,
                 strategy: int = 0, nflush: int = 0) -> bytes:
    """A complete zlib stream.  nflush>0 cuts the input into nflush+1 pieces
    with a sync/full flush between them (several deflate blocks)."""
    co = zlib.compressobj(level, zlib.DEFLATED, wbits, 8, strategy)
    if nflush <= 0 or len(data) < 2:
        return co.compress(data) + co.flush()
    assert rng is not None
    cuts = sorted(rng.randrange(0, len(data) + 1) for _ in range(nflush))
    out = bytearray()
    last = 0
    for c in cuts:
        out += co.compress(data[last:c])
        out += co.flush(rng.choice((zlib.Z_SYNC_FLUSH, zlib.Z_FULL_FLUSH)))
        last = c
    out += co.compress(data[last:])
    out += co.flush()
    return bytes(out)


# --------------------------------------------------------------------------
# RunLength (7.4.5)
# --------------------------------------------------------------------------
def rl_encode(data: bytes, rng: Optional[random.Random] = None, mode: str = "greedy") -> bytes:
    """length byte L: 0..127 -> copy the next L+1 bytes; 129..255 -> repeat
    the next byte 257-L times; 128 -> EOD.

    mode "greedy": maximal repeat runs (>=2 equal bytes), literal runs in
    between, both cut at 128.  mode "random": at every position any legal
    choice (literal of random length, or a repeat of random length 2..128 when
    at least two equal bytes follow).  mode "literal": literal runs only.
    mode "repeat1": like random but a run of equal bytes may also be stored as
    literals."""
    n = len(data)
    out = bytearray()
    i = 0
    while i < n:
        run = 1
        while i + run < n and run < 128 and data[i + run] == data[i]:
            run += 1
        if mode == "greedy":
            if run >= 2:
                out.append(257 - run)
                out.append(data[i])
                i += run
                continue
            j = i + 1
            while j < n and j - i < 128 and not (j + 1 < n and data[j] == data[j + 1]):
                j += 1
            out.append(j - i - 1)
            out += data[i:j]
            i = j
        elif mode == "literal":
            assert rng is not None
            k = min(n - i, rng.choice((1, 2, 3, 127, 128, rng.randint(1, 128))))
            out.append(k - 1)
            out += data[i:i + k]
            i += k
        else:
            assert rng is not None
            if run >= 2 and rng.random() < 0.7:
                k = rng.choice((2, run, rng.randint(2, run)))
                out.append(257 - k)
                out.append(data[i])
                i += k
            else:
                k = min(n - i, rng.choice((1, 1, 2, 5, 128, rng.randint(1, 128))))
                out.append(k - 1)
                out += data[i:i + k]
                i += k
    out.append(128)
    return bytes(out)


# --------------------------------------------------------------------------
# LZW (7.4.4.2), EarlyChange = 1 (the default)
# --------------------------------------------------------------------------
class _BitWriter:
    """Codes are packed into bytes high-order bit first (7.4.4.2)."""

    def __init__(self) -> None:
        self.out = bytearray()
        self.acc = 0
        self.n = 0

    def put(self, code: int, nbits: int) -> None:
        assert 0 <= code < (1 << nbits)
        self.acc = (self.acc << nbits) | code
        self.n += nbits
        while self.n >= 8:
            self.n -= 8
            self.out.append((self.acc >> self.n) & 0xFF)
        self.acc &= (1 << self.n) - 1

    def finish(self) -> bytes:
        if self.n:
            self.out.append((self.acc << (8 - self.n)) & 0xFF)
            self.acc = 0
            self.n = 0
        return bytes(self.out)


CLEAR, EOD = 256, 257


def lzw_encode(data: bytes, rng: Optional[random.Random] = None, stop_p: float = 0.0, clear_p: float = 0.0,
               stats: Optional[Dict[str, int]] = None) -> bytes:
    """LZW as 7.4.4.2 describes the encoder.

    * begins with a clear-table code; codes 0-255 are the bytes, 256 clear-table,
      257 EOD, 258.. the table entries;
    * per output code: (a) accumulate a sequence present in the table (the
      longest one, or - with probability stop_p per step - a shorter one, which
      the text permits: "for maximum compression the encoder looks for the
      longest"), (b) emit its code, (c) create the entry for the first unused
      code: that sequence followed by the next input character;
    * code length 9 bits, 10 from the first code following the creation of entry
      511, 11 after 1023, 12 after 2047 (EarlyChange 1); entry 4095 is the last;
    * a clear-table code when the table becomes full (here: right after entry
      4095 was created, in 12 bits), and - with probability clear_p per code -
      sooner ("it may do so sooner");
    * EOD after the last code.  A decoder adds a table entry for every code it
      receives after the first, including the last one (it cannot know that it
      is the last), so the EOD code length is the one that follows the creation
      of that entry too ("encoder and decoder ... synchronously").

    stats (optional dict) receives: codes, clears_full, clears_early, max_entry,
    widths (bit set of code lengths used), kwkwk (codes emitted that name the
    entry created immediately before them)."""
    bw = _BitWriter()
    st = {"codes": 0, "clears_full": 0, "clears_early": 0, "max_entry": 257, "w9": 0, "w10": 0, "w11": 0, "w12": 0,
          "kwkwk": 0, "short_match": 0}
    table: Dict[Tuple[int, int], int] = {}
    nxt = 258
    nbits = 9

    def emit(code: int) -> None:
        bw.put(code, nbits)
        st["w%d" % nbits] += 1

    emit(CLEAR)
    n = len(data)
    i = 0
    last_created = -1
    while i < n:
        cur = data[i]
        i += 1
        while i < n:
            nx = table.get((cur, data[i]))
            if nx is None:
                break
            if stop_p and rng is not None and rng.random() < stop_p:
                st["short_match"] += 1
                break
            cur = nx
            i += 1
        emit(cur)
        st["codes"] += 1
        if cur == last_created and cur >= 258:
            st["kwkwk"] += 1
        # (c) create the next entry.  After the very last code there is no next
        # character, but the decoder still creates an entry for it (see above).
        entry = nxt
        if i < n:
            key = (cur, data[i])
            if key not in table or (rng is not None and rng.random() < 0.5):
                table[key] = entry
        nxt += 1
        last_created = entry
        if entry > st["max_entry"]:
            st["max_entry"] = entry
        if entry == 511:
            nbits = 10
        elif entry == 1023:
            nbits = 11
        elif entry == 2047:
            nbits = 12
        full = entry == 4095
        early = (not full) and clear_p and rng is not None and rng.random() < clear_p
        if full or early:
            emit(CLEAR)
            st["clears_full" if full else "clears_early"] += 1
            table = {}
            nxt = 258
            nbits = 9
            last_created = -1
    emit(EOD)
    if stats is not None:
        for k, v in st.items():
            stats[k] = stats.get(k, 0) + v if k != "max_entry" else max(stats.get(k, 0), v)
    return bw.finish()


# --------------------------------------------------------------------------
# Predictors (7.4.4.4)
# --------------------------------------------------------------------------
def row_bytes(colors: int, columns: int, bpc: int) -> int:
    """bytes per row: rows are padded to a byte boundary."""
    return (colors * columns * bpc + 7) // 8


def pixel_bytes(colors: int, bpc: int) -> int:
    """PNG 6.2: 'bpp is the number of bytes per complete pixel, rounding up to one'."""
    return max(1, (colors * bpc + 7) // 8)


def tiff2_encode(data: bytes, colors: int, columns: int, bpc: int = 8) -> bytes:
    """TIFF 6.0 section 14, Predictor 2, 8-bit components: each component is
    replaced by its difference to the same component of the pixel to the left
    (mod 256); the first pixel of a row is unchanged."""
    assert bpc == 8
    rb = colors * columns
    assert rb > 0 and len(data) % rb == 0
    out = bytearray(len(data))
    for r in range(0, len(data), rb):
        for k in range(rb):
            v = data[r + k]
            if k >= colors:
                v = (v - data[r + k - colors]) & 0xFF
            out[r + k] = v
    return bytes(out)


def paeth(a: int, b: int, c: int) -> int:
    """PNG 6.6 PaethPredictor(a=left, b=above, c=upper left)."""
    p = a + b - c
    pa = abs(p - a)
    pb = abs(p - b)
    pc = abs(p - c)
    if pa <= pb and pa <= pc:
        return a
    if pb <= pc:
        return b
    return c


def png_filter_row(ftype: int, row: bytes, prior: bytes, bpp: int) -> bytes:
    """PNG 6.2-6.6: filter one row.  Bytes to the left of the row and the row
    above the first one are zero.  All arithmetic is on bytes, mod 256."""
    n = len(row)
    out = bytearray(n)
    for x in range(n):
        left = row[x - bpp] if x >= bpp else 0
        up = prior[x]
        ul = prior[x - bpp] if x >= bpp else 0
        if ftype == 0:
            pr = 0
        elif ftype == 1:
            pr = left
        elif ftype == 2:
            pr = up
        elif ftype == 3:
            pr = (left + up) >> 1
        elif ftype == 4:
            pr = paeth(left, up, ul)
        else:
            raise ValueError(ftype)
        out[x] = (row[x] - pr) & 0xFF
    return bytes(out)


def png_encode(data: bytes, colors: int, columns: int, bpc: int, ftypes: Sequence[int]) -> bytes:
    """Each row is preceded by its filter-type byte (7.4.4.4: 'PNG predictors
    ... each row begins with an explicit algorithm tag').  ftypes[r] is the
    filter of row r."""
    rb = row_bytes(colors, columns, bpc)
    bpp = pixel_bytes(colors, bpc)
    assert rb > 0 and len(data) % rb == 0
    nrows = len(data) // rb
    assert len(ftypes) == nrows
    prior = bytes(rb)
    out = bytearray()
    for r in range(nrows):
        row = data[r * rb:(r + 1) * rb]
        out.append(ftypes[r])
        out += png_filter_row(ftypes[r], row, prior, bpp)
        prior = row
    return bytes(out)


# --------------------------------------------------------------------------
# one randomly-spelled encoding of one filter stage
# --------------------------------------------------------------------------
def encode_stage(f: str, data: bytes, rng: random.Random, features: Dict[str, bool],
                 lzw_stats: Optional[Dict[str, int]] = None) -> Tuple[bytes, str]:
    """Encode `data` for filter f (one of FILTERS) with randomly chosen legal
    spelling.  `features` switches whole groups of spellings on or off:
        ws_nul_ff   allow NUL and FF as white space in ASCIIHex / ASCII85 data
    Returns (encoded, tag describing the spelling)."""
    if f == "AHx":
        ws = b""
        rate = 0.0
        wrap = 0
        k = rng.randrange(5)
        if k == 1:
            ws, rate = WS_COMMON, 0.1
        elif k == 2:
            wrap = rng.choice((1, 2, 3, 16, 64, 77))
        elif k == 3:
            ws, rate = (PDF_WS if features.get("ws_nul_ff") else b" \t\n\r\x0c"), 0.3
        case = rng.choice(("upper", "lower", "mixed"))
        drop = rng.random() < 0.5
        e = hex_encode(data, rng, ws=ws, case=case, drop_final_zero=drop, ws_rate=rate, wrap=wrap)
        odd = drop and data[-1:] != b"" and (data[-1] & 15) == 0
        return e, "hex:%s%s%s%s" % (case, ":ws" if rate else "", ":wrap" if wrap else "", ":odd" if odd else "")
    if f == "A85":
        lead = rng.random() < 0.5
        wrap = rng.choice((0, 0, 1, 5, 64, 75, 80))
        ez = rng.choice((0.0, 0.0, 0.5, 1.0))
        ws = b""
        rate = 0.0
        if rng.random() < 0.35:
            ws = PDF_WS if features.get("ws_nul_ff") else WS_COMMON
            rate = rng.choice((0.05, 0.3))
        e = a85_encode(data, rng, lead=lead, wrap=wrap, expand_z=ez, ws=ws, ws_rate=rate)
        return e, "a85:%s%s%s%s" % ("lead" if lead else "nolead", ":wrap" if wrap else "", ":ws" if rate else "",
                                    ":z" if b"z" in e else "")
    if f == "Fl":
        level = rng.randrange(10)
        wbits = rng.choice((15, 15, 15, 9, 10, 12))
        strategy = rng.choice((zlib.Z_DEFAULT_STRATEGY, zlib.Z_DEFAULT_STRATEGY, zlib.Z_FILTERED, zlib.Z_HUFFMAN_ONLY,
                               zlib.Z_RLE, zlib.Z_FIXED))
        nflush = rng.choice((0, 0, 0, 1, 3))
        e = flate_encode(data, rng, level=level, wbits=wbits, strategy=strategy, nflush=nflush)
        return e, "flate:l%d%s" % (level, ":flush" if nflush else "")
    if f == "RL":
        mode = rng.choice(("greedy", "random", "random", "literal"))
        return rl_encode(data, rng, mode), "rl:" + mode
    if f == "LZW":
        k = rng.randrange(4)
        stop_p = (0.0, 0.0, 0.2, 0.05)[k]
        clear_p = (0.0, 0.002, 0.0, 0.01)[k]
        e = lzw_encode(data, rng, stop_p=stop_p, clear_p=clear_p, stats=lzw_stats)
        return e, "lzw:%s" % ("greedy", "earlyclear", "shortmatch", "both")[k]
    raise ValueError(f)


# --------------------------------------------------------------------------
# Reference *decoders* (same clauses, written independently of the encoders'
# data structures).  The check uses them only to audit its own generator: an
# encoded stream that the reference decoder does not take back to the payload is
# a harness bug (exit 2), never a verdict about pdfminer.
# --------------------------------------------------------------------------
def lzw_decode_ref(enc: bytes) -> bytes:
    bits = 0
    nb = 0
    pos = 0
    out = bytearray()
    table: List[bytes] = []
    prev: Optional[bytes] = None
    width = 9
    while True:
        while nb < width:
            if pos >= len(enc):
                raise ValueError("LZW data ends without EOD")
            bits = (bits << 8) | enc[pos]
            pos += 1
            nb += 8
        code = (bits >> (nb - width)) & ((1 << width) - 1)
        nb -= width
        bits &= (1 << nb) - 1
        if code == EOD:
            if pos != len(enc):
                raise ValueError("data after EOD")
            return bytes(out)
        if code == CLEAR:
            table = [bytes((i,)) for i in range(256)] + [b"", b""]
            prev = None
            width = 9
            continue
        if not table:
            raise ValueError("no initial clear-table code")
        if prev is None:
            s = table[code]
        else:
            if code < len(table):
                s = table[code]
            elif code == len(table):
                s = prev + prev[:1]
            else:
                raise ValueError("code %d beyond table %d" % (code, len(table)))
            table.append(prev + s[:1])
            if len(table) > 4096:
                raise ValueError("table overflow without clear-table")
            # entries 0..len-1 exist here; the encoder is one entry ahead and has
            # just created entry number len(table)
            if len(table) >= 2047:
                width = 12
            elif len(table) >= 1023:
                width = 11
            elif len(table) >= 511:
                width = 10
        out += s
        prev = s


def rl_decode_ref(enc: bytes) -> bytes:
    out = bytearray()
    i = 0
    while True:
        if i >= len(enc):
            raise ValueError("RunLength data ends without EOD")
        L = enc[i]
        i += 1
        if L == 128:
            if i != len(enc):
                raise ValueError("data after EOD")
            return bytes(out)
        if L < 128:
            if i + L + 1 > len(enc):
                raise ValueError("truncated literal run")
            out += enc[i:i + L + 1]
            i += L + 1
        else:
            out += enc[i:i + 1] * (257 - L)
            i += 1


def hex_decode_ref(enc: bytes) -> bytes:
    digits = bytearray()
    for k, c in enumerate(enc):
        if c in PDF_WS:
            continue
        if c == 0x3E:
            if enc[k + 1:].strip(PDF_WS):
                raise ValueError("data after EOD")
            break
        if chr(c) not in "0123456789abcdefABCDEF":
            raise ValueError("bad hex digit %r" % c)
        digits.append(c)
    else:
        raise ValueError("no EOD")
    if len(digits) % 2:
        digits.append(0x30)
    return bytes(int(digits[i:i + 2], 16) for i in range(0, len(digits), 2))


def a85_decode_ref(enc: bytes) -> bytes:
    if enc[:2] == b"<~":
        enc = enc[2:]
    out = bytearray()
    grp: List[int] = []
    k = 0
    while True:
        if k >= len(enc):
            raise ValueError("no EOD")
        c = enc[k]
        k += 1
        if c in PDF_WS:
            continue
        if c == 0x7E:
            if enc[k:k + 1] != b">" or enc[k + 1:]:
                raise ValueError("bad EOD")
            break
        if c == 0x7A:
            if grp:
                raise ValueError("z inside a group")
            out += b"\0\0\0\0"
            continue
        if not 0x21 <= c <= 0x75:
            raise ValueError("bad character %r" % c)
        grp.append(c - 33)
        if len(grp) == 5:
            v = 0
            for d in grp:
                v = v * 85 + d
            if v >= 1 << 32:
                raise ValueError("group overflow")
            out += v.to_bytes(4, "big")
            grp = []
    if grp:
        if len(grp) == 1:
            raise ValueError("final group of one character")
        n = len(grp)
        grp += [84] * (5 - n)
        v = 0
        for d in grp:
            v = v * 85 + d
        out += v.to_bytes(4, "big")[:n - 1]
    return bytes(out)


def tiff2_decode_ref(enc: bytes, colors: int, columns: int) -> bytes:
    rb = colors * columns
    out = bytearray(enc)
    for r in range(0, len(out), rb):
        for k in range(colors, rb):
            out[r + k] = (out[r + k] + out[r + k - colors]) & 0xFF
    return bytes(out)


def png_decode_ref(enc: bytes, colors: int, columns: int, bpc: int) -> bytes:
    rb = row_bytes(colors, columns, bpc)
    bpp = pixel_bytes(colors, bpc)
    if len(enc) % (rb + 1):
        raise ValueError("not a whole number of rows")
    prior = bytearray(rb)
    out = bytearray()
    for r in range(0, len(enc), rb + 1):
        t = enc[r]
        row = bytearray(enc[r + 1:r + 1 + rb])
        for x in range(rb):
            a = row[x - bpp] if x >= bpp else 0
            b = prior[x]
            c = prior[x - bpp] if x >= bpp else 0
            if t == 0:
                p = 0
            elif t == 1:
                p = a
            elif t == 2:
                p = b
            elif t == 3:
                p = (a + b) // 2
            elif t == 4:
                p = paeth(a, b, c)
            else:
                raise ValueError("filter type %d" % t)
            row[x] = (row[x] + p) & 0xFF
        out += row
        prior = row
    return bytes(out)


REF_DECODE = {"AHx": hex_decode_ref, "A85": a85_decode_ref, "LZW": lzw_decode_ref, "RL": rl_decode_ref,
              "Fl": zlib.decompress}
