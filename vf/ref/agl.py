"""Reference model of the Adobe Glyph List *algorithm* (AGL specification, section 2
"The Mapping"), written from the specification text, plus a reference SUBSET of
the glyph list itself whose values are derived independently of
pdfminer/glyphlist.py.

The mapping of a glyph name (AGL specification 2):
  1. drop everything from the first FULL STOP on;
  2. split the rest at LOW LINE into components;
  3. map every component and concatenate:
       - component in the glyph list             -> its listed string
       - 'uni' + upper-case hex digits, the number of digits a multiple of four,
         every group of four in 0000-D7FF or E000-FFFF -> those code points
       - 'u' + four to six upper-case hex digits, value in 0000-D7FF or
         E000-10FFFF                               -> that code point
       - otherwise                               -> empty string

The list subset (`LIST`):
  * ASCII names (space, exclam, ... asciitilde) and the Latin-1 names
    (exclamdown ... ydieresis), transcribed from the character-set tables of
    ISO 32000-1 Annex D / PostScript Language Reference Appendix E;
  * the other names of the PDF Latin character set (Annex D.2): bullet, dagger,
    endash, fi, fl, OE, Scaron, ...;
  * accented Latin letters of U+00C0..U+017F derived from `unicodedata`
    ("LATIN CAPITAL LETTER A WITH ACUTE" -> Aacute); letters WITH CEDILLA that the
    AGL calls '...commaaccent' are left out, except Lcommaaccent/lcommaaccent
    which the AGL specification itself uses as its worked example (U+013B);
  * Greek letters derived from `unicodedata`, with the AGL's documented
    exceptions: Delta -> U+2206, Omega -> U+2126, mu -> U+00B5 (the Greek
    letters proper are Deltagreek/Omegagreek/mugreek, not used here), LAMDA is
    spelled Lambda/lambda, final sigma is left out.
When unsure about a name it is NOT in LIST; names outside LIST are never used
as "list names" by the generators.
"""
from __future__ import annotations

import unicodedata
from typing import Dict, List, Optional

_ASCII_NAMES = (
    "space exclam quotedbl numbersign dollar percent ampersand quotesingle parenleft parenright asterisk plus "
    "comma hyphen period slash zero one two three four five six seven eight nine colon semicolon less equal "
    "greater question at A B C D E F G H I J K L M N O P Q R S T U V W X Y Z bracketleft backslash bracketright "
    "asciicircum underscore grave a b c d e f g h i j k l m n o p q r s t u v w x y z braceleft bar braceright "
    "asciitilde"
).split()
assert len(_ASCII_NAMES) == 95

# U+00A1 .. U+00FF (U+00A0 and U+00AD have no name used here)
_LATIN1_NAMES = {
    0xA1: "exclamdown", 0xA2: "cent", 0xA3: "sterling", 0xA4: "currency", 0xA5: "yen", 0xA6: "brokenbar",
    0xA7: "section", 0xA8: "dieresis", 0xA9: "copyright", 0xAA: "ordfeminine", 0xAB: "guillemotleft",
    0xAC: "logicalnot", 0xAE: "registered", 0xAF: "macron", 0xB0: "degree", 0xB1: "plusminus",
    0xB2: "twosuperior", 0xB3: "threesuperior", 0xB4: "acute", 0xB5: "mu", 0xB6: "paragraph",
    0xB7: "periodcentered", 0xB8: "cedilla", 0xB9: "onesuperior", 0xBA: "ordmasculine", 0xBB: "guillemotright",
    0xBC: "onequarter", 0xBD: "onehalf", 0xBE: "threequarters", 0xBF: "questiondown",
    0xC0: "Agrave", 0xC1: "Aacute", 0xC2: "Acircumflex", 0xC3: "Atilde", 0xC4: "Adieresis", 0xC5: "Aring",
    0xC6: "AE", 0xC7: "Ccedilla", 0xC8: "Egrave", 0xC9: "Eacute", 0xCA: "Ecircumflex", 0xCB: "Edieresis",
    0xCC: "Igrave", 0xCD: "Iacute", 0xCE: "Icircumflex", 0xCF: "Idieresis", 0xD0: "Eth", 0xD1: "Ntilde",
    0xD2: "Ograve", 0xD3: "Oacute", 0xD4: "Ocircumflex", 0xD5: "Otilde", 0xD6: "Odieresis", 0xD7: "multiply",
    0xD8: "Oslash", 0xD9: "Ugrave", 0xDA: "Uacute", 0xDB: "Ucircumflex", 0xDC: "Udieresis", 0xDD: "Yacute",
    0xDE: "Thorn", 0xDF: "germandbls",
    0xE0: "agrave", 0xE1: "aacute", 0xE2: "acircumflex", 0xE3: "atilde", 0xE4: "adieresis", 0xE5: "aring",
    0xE6: "ae", 0xE7: "ccedilla", 0xE8: "egrave", 0xE9: "eacute", 0xEA: "ecircumflex", 0xEB: "edieresis",
    0xEC: "igrave", 0xED: "iacute", 0xEE: "icircumflex", 0xEF: "idieresis", 0xF0: "eth", 0xF1: "ntilde",
    0xF2: "ograve", 0xF3: "oacute", 0xF4: "ocircumflex", 0xF5: "otilde", 0xF6: "odieresis", 0xF7: "divide",
    0xF8: "oslash", 0xF9: "ugrave", 0xFA: "uacute", 0xFB: "ucircumflex", 0xFC: "udieresis", 0xFD: "yacute",
    0xFE: "thorn", 0xFF: "ydieresis",
}

# the remaining names of the PDF Latin character set (ISO 32000-1 Annex D.2)
_LATIN_SET_OTHER = {
    "breve": 0x02D8, "bullet": 0x2022, "caron": 0x02C7, "circumflex": 0x02C6, "dagger": 0x2020,
    "daggerdbl": 0x2021, "dotaccent": 0x02D9, "dotlessi": 0x0131, "ellipsis": 0x2026, "emdash": 0x2014,
    "endash": 0x2013, "Euro": 0x20AC, "fi": 0xFB01, "fl": 0xFB02, "florin": 0x0192, "fraction": 0x2044,
    "guilsinglleft": 0x2039, "guilsinglright": 0x203A, "hungarumlaut": 0x02DD, "Lslash": 0x0141,
    "lslash": 0x0142, "minus": 0x2212, "OE": 0x0152, "oe": 0x0153, "ogonek": 0x02DB, "perthousand": 0x2030,
    "quotedblbase": 0x201E, "quotedblleft": 0x201C, "quotedblright": 0x201D, "quoteleft": 0x2018,
    "quoteright": 0x2019, "quotesinglbase": 0x201A, "ring": 0x02DA, "Scaron": 0x0160, "scaron": 0x0161,
    "tilde": 0x02DC, "trademark": 0x2122, "Ydieresis": 0x0178, "Zcaron": 0x017D, "zcaron": 0x017E,
}

_ACCENTS = {
    "GRAVE": "grave", "ACUTE": "acute", "CIRCUMFLEX": "circumflex", "TILDE": "tilde", "DIAERESIS": "dieresis",
    "RING ABOVE": "ring", "CARON": "caron", "CEDILLA": "cedilla", "OGONEK": "ogonek", "MACRON": "macron",
    "BREVE": "breve", "DOT ABOVE": "dotaccent", "DOUBLE ACUTE": "hungarumlaut",
}


def _build_list() -> Dict[str, str]:
    lst: Dict[str, str] = {}
    for i, n in enumerate(_ASCII_NAMES):
        lst[n] = chr(0x20 + i)
    for cp, n in _LATIN1_NAMES.items():
        lst[n] = chr(cp)
    for n, cp in _LATIN_SET_OTHER.items():
        lst[n] = chr(cp)
    # accented Latin letters U+00C0..U+017F from the Unicode character names
    for cp in range(0xC0, 0x180):
        try:
            un = unicodedata.name(chr(cp))
        except ValueError:
            continue
        for case, pre in (("CAPITAL", "LATIN CAPITAL LETTER "), ("SMALL", "LATIN SMALL LETTER ")):
            if not un.startswith(pre):
                continue
            rest = un[len(pre):]
            if " WITH " not in rest:
                continue
            letter, acc = rest.split(" WITH ", 1)
            if len(letter) != 1 or acc not in _ACCENTS:
                continue
            base = letter if case == "CAPITAL" else letter.lower()
            if acc == "CEDILLA" and letter in "GKLNRT":
                continue  # AGL calls these ...commaaccent; only L is taken (below)
            name = base + _ACCENTS[acc]
            prev = lst.get(name)
            assert prev is None or prev == chr(cp), (name, prev, cp)
            lst[name] = chr(cp)
    lst["Lcommaaccent"] = "Ļ"  # the AGL specification's own example
    lst["lcommaaccent"] = "ļ"
    # Greek
    for cp in list(range(0x391, 0x3AA)) + list(range(0x3B1, 0x3CA)):
        try:
            un = unicodedata.name(chr(cp))
        except ValueError:
            continue
        for pre, cap in (("GREEK CAPITAL LETTER ", True), ("GREEK SMALL LETTER ", False)):
            if un.startswith(pre):
                w = un[len(pre):]
                if " " in w:  # FINAL SIGMA
                    continue
                if w == "LAMDA":
                    w = "LAMBDA"
                name = w.capitalize() if cap else w.lower()
                if name in ("Delta", "Omega", "mu"):
                    continue
                lst[name] = chr(cp)
    lst["Delta"] = "∆"  # INCREMENT   (documented AGL exception)
    lst["Omega"] = "Ω"  # OHM SIGN    (documented AGL exception)
    assert lst["mu"] == "µ"  # MICRO SIGN  (documented AGL exception)
    return lst


LIST: Dict[str, str] = _build_list()

_UPHEX = set("0123456789ABCDEF")


def _component(c: str, lst: Dict[str, str]) -> str:
    if c in lst:
        return lst[c]
    if c.startswith("uni"):
        d = c[3:]
        if all(ch in _UPHEX for ch in d) and len(d) % 4 == 0:
            vals = [int(d[i:i + 4], 16) for i in range(0, len(d), 4)]
            if all(v <= 0xD7FF or 0xE000 <= v <= 0xFFFF for v in vals):
                return "".join(chr(v) for v in vals)
    if c.startswith("u"):
        d = c[1:]
        if 4 <= len(d) <= 6 and all(ch in _UPHEX for ch in d):
            v = int(d, 16)
            if v <= 0xD7FF or 0xE000 <= v <= 0x10FFFF:
                return chr(v)
    return ""


def components(name: str) -> List[str]:
    dot = name.find(".")
    if dot >= 0:
        name = name[:dot]
    return name.split("_")


def to_unicode(name: str, lst: Optional[Dict[str, str]] = None) -> str:
    """The AGL mapping of `name` with the glyph list `lst` (default: the reference subset)."""
    lst = LIST if lst is None else lst
    return "".join(_component(c, lst) for c in components(name))


def has_unmapped_component(name: str, lst: Optional[Dict[str, str]] = None) -> bool:
    lst = LIST if lst is None else lst
    return any(_component(c, lst) == "" for c in components(name))
