"""A strict reader for uncompressed Windows bitmaps (BITMAPFILEHEADER + BITMAPINFOHEADER).

Written from the Windows GDI documentation of the file format (wingdi.h:
BITMAPFILEHEADER, BITMAPINFOHEADER, RGBQUAD; "Bitmap Storage"), independent of
pdfminer.  It accepts exactly the subset a conforming writer of 1-, 4-, 8- and
24-bit BI_RGB bitmaps may produce and reports *every* inconsistency it sees
instead of being lenient, because the point is to decide whether a file is one
that any standard reader decodes to the intended pixels:

* bfType == "BM", bfReserved1 == bfReserved2 == 0
* bfSize == the real length of the file
* biSize == 40, biPlanes == 1, biCompression == BI_RGB (0), biWidth > 0, biHeight != 0
* biBitCount in {1, 4, 8, 24}
* the colour table has biClrUsed entries (2**biBitCount when 0) for <= 8 bits,
  lies directly behind the info header and ends at or before bfOffBits
* stride = ((biWidth * biBitCount + 31) // 32) * 4 ; the pixel array of
  stride * |biHeight| bytes lies completely inside the file
* biSizeImage is 0 or exactly stride * |biHeight|
* rows are stored bottom-up for biHeight > 0 (top-down for < 0)
* 1/4/8-bit pixels are colour-table indices (most significant bits first) and
  must address an existing entry; 24-bit pixels are stored Blue, Green, Red.

`read_bmp(data)` -> BMP(width, height, bitcount, rows, problems) where rows is a
top-down list of rows, each a list of (R, G, B) tuples.  `problems` is a list
of (key, text); it is empty for a conforming file.  Pixels are still decoded as
far as the data allow when there are problems (missing bytes decode as None), so
that a caller can report both.
"""
from __future__ import annotations

import struct
from typing import List, NamedTuple, Optional, Tuple

RGB = Tuple[int, int, int]


class BMP(NamedTuple):
    width: int
    height: int
    bitcount: int
    rows: List[List[Optional[RGB]]]
    problems: List[Tuple[str, str]]
    topdown: bool


def stride_of(width: int, bitcount: int) -> int:
    return ((width * bitcount + 31) // 32) * 4


def read_bmp(data: bytes) -> BMP:
    problems: List[Tuple[str, str]] = []

    def bad(key: str, text: str) -> None:
        problems.append((key, text))

    if len(data) < 54:
        bad("bmp_truncated_header", "file has %d bytes, the two headers need 54" % len(data))
        return BMP(0, 0, 0, [], problems, False)
    bfType, bfSize, r1, r2, bfOffBits = struct.unpack_from("<2sIHHI", data, 0)
    (biSize, biWidth, biHeight, biPlanes, biBitCount, biCompression, biSizeImage,
     _xppm, _yppm, biClrUsed, biClrImportant) = struct.unpack_from("<IiiHHIIiiII", data, 14)
    if bfType != b"BM":
        bad("bmp_magic", "bfType=%r" % bfType)
    if r1 or r2:
        bad("bmp_reserved", "bfReserved=%d,%d" % (r1, r2))
    if bfSize != len(data):
        bad("bmp_bfsize", "bfSize=%d but the file has %d bytes" % (bfSize, len(data)))
    if biSize != 40:
        bad("bmp_bisize", "biSize=%d" % biSize)
        return BMP(0, 0, 0, [], problems, False)
    if biPlanes != 1:
        bad("bmp_planes", "biPlanes=%d" % biPlanes)
    if biCompression != 0:
        bad("bmp_compression", "biCompression=%d" % biCompression)
        return BMP(biWidth, abs(biHeight), biBitCount, [], problems, biHeight < 0)
    if biBitCount not in (1, 4, 8, 24):
        bad("bmp_bitcount", "biBitCount=%d" % biBitCount)
        return BMP(biWidth, abs(biHeight), biBitCount, [], problems, biHeight < 0)
    if biWidth <= 0 or biHeight == 0:
        bad("bmp_dimensions", "biWidth=%d biHeight=%d" % (biWidth, biHeight))
        return BMP(biWidth, abs(biHeight), biBitCount, [], problems, biHeight < 0)
    height = abs(biHeight)
    topdown = biHeight < 0

    palette: List[RGB] = []
    pal_end = 54
    if biBitCount <= 8:
        ncol = biClrUsed if biClrUsed else (1 << biBitCount)
        if ncol > (1 << biBitCount):
            bad("bmp_clrused", "biClrUsed=%d exceeds 2**%d" % (biClrUsed, biBitCount))
            ncol = 1 << biBitCount
        pal_end = 54 + 4 * ncol
        if pal_end > len(data):
            bad("bmp_palette_truncated", "colour table needs bytes up to %d, file has %d" % (pal_end, len(data)))
        for i in range(ncol):
            o = 54 + 4 * i
            if o + 4 <= len(data):
                b, g, r, _res = data[o], data[o + 1], data[o + 2], data[o + 3]
                palette.append((r, g, b))
    else:
        if biClrUsed:
            pal_end = 54 + 4 * biClrUsed  # optional optimisation table; legal, skipped
    if biClrImportant > (biClrUsed if biClrUsed else (1 << min(biBitCount, 8))) and biBitCount <= 8:
        bad("bmp_clrimportant", "biClrImportant=%d" % biClrImportant)
    if bfOffBits < pal_end:
        bad("bmp_offbits", "bfOffBits=%d lies inside the headers/colour table ending at %d" % (bfOffBits, pal_end))
    stride = stride_of(biWidth, biBitCount)
    need = stride * height
    if biSizeImage not in (0, need):
        bad("bmp_sizeimage", "biSizeImage=%d, stride*height=%d" % (biSizeImage, need))
    if bfOffBits + need > len(data):
        bad("bmp_pixels_truncated",
            "pixel array needs bytes [%d,%d) but the file has %d bytes" % (bfOffBits, bfOffBits + need, len(data)))

    rows: List[List[Optional[RGB]]] = []
    index_oob = 0
    for y in range(height):  # y = row in top-down order
        frow = y if topdown else height - 1 - y
        base = bfOffBits + frow * stride
        row: List[Optional[RGB]] = []
        for x in range(biWidth):
            if biBitCount == 24:
                o = base + 3 * x
                if o + 3 <= len(data):
                    row.append((data[o + 2], data[o + 1], data[o]))
                else:
                    row.append(None)
                continue
            if biBitCount == 8:
                o = base + x
                idx = data[o] if o < len(data) else None
            elif biBitCount == 4:
                o = base + (x >> 1)
                idx = ((data[o] >> (4 if x % 2 == 0 else 0)) & 15) if o < len(data) else None
            else:
                o = base + (x >> 3)
                idx = ((data[o] >> (7 - (x & 7))) & 1) if o < len(data) else None
            if idx is None:
                row.append(None)
            elif idx < len(palette):
                row.append(palette[idx])
            else:
                index_oob += 1
                row.append(None)
        rows.append(row)
    if index_oob:
        bad("bmp_index_outside_palette", "%d pixels address a missing colour-table entry" % index_oob)
    return BMP(biWidth, height, biBitCount, rows, problems, topdown)
