"""ITU-T T.6 (Group 4 / MMR) encoder and a small reference decoder.

Written from ITU-T T.4 (run-length code tables 2/T.4, 3a/T.4, 3b/T.4) and
ITU-T T.6 section 2.2 (changing elements a0 a1 a2 b1 b2, pass / vertical /
horizontal mode, EOFB), plus the two framing options ISO 32000-1 Table 11 adds
(EncodedByteAlign, EndOfBlock).  Nothing here is derived from pdfminer.

Pixel convention inside this module: 0 = white, 1 = black (T.4 / T.6 talk about
white and black runs; what *bit value* a decoder returns for white is a PDF
matter - BlackIs1 - and is handled by the check, not here).

Positions: a picture line has pels 0..w-1; a0 = -1 is the imaginary white pel
before the first pel, w is the imaginary changing element after the last pel.

The encoder can be steered: at every coding step it computes which mode codes
are *admissible by the T.6 mode definitions*

    pass        iff b2 lies to the left of a1            (b2 <  a1;  2.2.3.1 -
                "b2 just above a1" is explicitly not a pass mode)
    vertical    iff |a1 - b1| <= 3                       (2.2.3.2)
    horizontal  always                                   (2.2.3.3)

and asks a `choose` callback which one to emit.  The T.6 coding procedure
(figure 7/T.6) is the choice "pass if admissible, else vertical if admissible,
else horizontal" (`choose_std`).
"""
from __future__ import annotations

import random
from bisect import bisect_right
from typing import Callable, Dict, Iterator, List, Optional, Sequence, Tuple

WHITE, BLACK = 0, 1

# --------------------------------------------------------------------------
# T.4 code tables.  Primary transcription: the bit strings in the order of the
# tables of the Recommendation (index = run length for terminating codes).
# --------------------------------------------------------------------------
_WHITE_TERM = """
00110101 000111 0111 1000 1011 1100 1110 1111
10011 10100 00111 01000 001000 000011 110100 110101
101010 101011 0100111 0001100 0001000 0010111 0000011 0000100
0101000 0101011 0010011 0100100 0011000 00000010 00000011 00011010
00011011 00010010 00010011 00010100 00010101 00010110 00010111 00101000
00101001 00101010 00101011 00101100 00101101 00000100 00000101 00001010
00001011 01010010 01010011 01010100 01010101 00100100 00100101 01011000
01011001 01011010 01011011 01001010 01001011 00110010 00110011 00110100
""".split()

_BLACK_TERM = """
0000110111 010 11 10 011 0011 0010 00011
000101 000100 0000100 0000101 0000111 00000100 00000111 000011000
0000010111 0000011000 0000001000 00001100111 00001101000 00001101100 00000110111 00000101000
00000010111 00000011000 000011001010 000011001011 000011001100 000011001101 000001101000 000001101001
000001101010 000001101011 000011010010 000011010011 000011010100 000011010101 000011010110 000011010111
000001101100 000001101101 000011011010 000011011011 000001010100 000001010101 000001010110 000001010111
000001100100 000001100101 000001010010 000001010011 000000100100 000000110111 000000111000 000000100111
000000101000 000001011000 000001011001 000000101011 000000101100 000001011010 000001100110 000001100111
""".split()

# make-up codes 64, 128, ..., 1728 (27 per colour)
_WHITE_MAKEUP = """
11011 10010 010111 0110111 00110110 00110111 01100100 01100101 01101000
01100111 011001100 011001101 011010010 011010011 011010100 011010101 011010110 011010111
011011000 011011001 011011010 011011011 010011000 010011001 010011010 011000 010011011
""".split()

_BLACK_MAKEUP = """
0000001111 000011001000 000011001001 000001011011 000000110011 000000110100 000000110101 0000001101100 0000001101101
0000001001010 0000001001011 0000001001100 0000001001101 0000001110010 0000001110011 0000001110100 0000001110101 0000001110110
0000001110111 0000001010010 0000001010011 0000001010100 0000001010101 0000001011010 0000001011011 0000001100100 0000001100101
""".split()

# extended make-up codes 1792 .. 2560, common to both colours (13)
_EXT_MAKEUP = """
00000001000 00000001100 00000001101 000000010010 000000010011 000000010100 000000010101
000000010110 000000010111 000000011100 000000011101 000000011110 000000011111
""".split()

EOL = "000000000001"
EOFB = EOL + EOL

# T.6 table 1: mode codes
MODE_CODES: Dict[str, str] = {
    "P": "0001",
    "H": "001",
    "V0": "1",
    "VR1": "011",
    "VR2": "000011",
    "VR3": "0000011",
    "VL1": "010",
    "VL2": "000010",
    "VL3": "0000010",
}
EXTENSION_PREFIX = "0000001"  # 0000001xxx, never emitted


def vname(d: int) -> str:
    """a1 - b1 = d  ->  mode name (a1 to the right of b1 is VR)."""
    return "V0" if d == 0 else ("VR%d" % d if d > 0 else "VL%d" % -d)


def _build(term: List[str], makeup: List[str]) -> Dict[int, str]:
    t: Dict[int, str] = {}
    for i, c in enumerate(term):
        t[i] = c
    for i, c in enumerate(makeup):
        t[64 * (i + 1)] = c
    for i, c in enumerate(_EXT_MAKEUP):
        t[1792 + 64 * i] = c
    return t


CODES: Dict[int, Dict[int, str]] = {WHITE: _build(_WHITE_TERM, _WHITE_MAKEUP), BLACK: _build(_BLACK_TERM, _BLACK_MAKEUP)}

# --------------------------------------------------------------------------
# Second, independent transcription used only to validate the first one:
# "length:hex" per code, the compact form in which the same tables are usually
# tabulated in fax software.  A slip in either transcription makes selftest fail.
# --------------------------------------------------------------------------
_CHK_WHITE = (
    "8:35 6:7 4:7 4:8 4:B 4:C 4:E 4:F 5:13 5:14 5:7 5:8 6:8 6:3 6:34 6:35 6:2A 6:2B 7:27 7:C 7:8 7:17 7:3 7:4 "
    "7:28 7:2B 7:13 7:24 7:18 8:2 8:3 8:1A 8:1B 8:12 8:13 8:14 8:15 8:16 8:17 8:28 8:29 8:2A 8:2B 8:2C 8:2D "
    "8:4 8:5 8:A 8:B 8:52 8:53 8:54 8:55 8:24 8:25 8:58 8:59 8:5A 8:5B 8:4A 8:4B 8:32 8:33 8:34 "
    # make-up 64..1728
    "5:1B 5:12 6:17 7:37 8:36 8:37 8:64 8:65 8:68 8:67 9:CC 9:CD 9:D2 9:D3 9:D4 9:D5 9:D6 9:D7 9:D8 9:D9 "
    "9:DA 9:DB 9:98 9:99 9:9A 6:18 9:9B"
).split()
_CHK_BLACK = (
    "10:37 3:2 2:3 2:2 3:3 4:3 4:2 5:3 6:5 6:4 7:4 7:5 7:7 8:4 8:7 9:18 10:17 10:18 10:8 11:67 11:68 11:6C "
    "11:37 11:28 11:17 11:18 12:CA 12:CB 12:CC 12:CD 12:68 12:69 12:6A 12:6B 12:D2 12:D3 12:D4 12:D5 12:D6 "
    "12:D7 12:6C 12:6D 12:DA 12:DB 12:54 12:55 12:56 12:57 12:64 12:65 12:52 12:53 12:24 12:37 12:38 12:27 "
    "12:28 12:58 12:59 12:2B 12:2C 12:5A 12:66 12:67 "
    "10:F 12:C8 12:C9 12:5B 12:33 12:34 12:35 13:6C 13:6D 13:4A 13:4B 13:4C 13:4D 13:72 13:73 13:74 13:75 "
    "13:76 13:77 13:52 13:53 13:54 13:55 13:5A 13:5B 13:64 13:65"
).split()
_CHK_EXT = "11:8 11:C 11:D 12:12 12:13 12:14 12:15 12:16 12:17 12:1C 12:1D 12:1E 12:1F".split()

# code-length histograms of the modified Huffman code (terminating + make-up 64..1728)
_LEN_HIST = {
    WHITE: {4: 6, 5: 6, 6: 9, 7: 12, 8: 42, 9: 16},
    BLACK: {2: 2, 3: 2, 4: 2, 5: 1, 6: 2, 7: 3, 8: 2, 9: 1, 10: 5, 11: 7, 12: 44, 13: 20},
}


def _prefix_free(codes: Sequence[str]) -> Optional[Tuple[str, str]]:
    s = sorted(codes)
    for a, b in zip(s, s[1:]):
        if b.startswith(a):
            return (a, b)
    return None


def selftest() -> Dict[str, object]:
    """Structural validation of the tables; raises AssertionError on any slip."""
    from fractions import Fraction

    assert len(_WHITE_TERM) == 64 and len(_BLACK_TERM) == 64, "64 terminating codes per colour"
    assert len(_WHITE_MAKEUP) == 27 and len(_BLACK_MAKEUP) == 27, "27 make-up codes per colour"
    assert len(_EXT_MAKEUP) == 13, "13 extended make-up codes"
    info: Dict[str, object] = {}
    for colour, chk, name in ((WHITE, _CHK_WHITE, "white"), (BLACK, _CHK_BLACK, "black")):
        tab = CODES[colour]
        assert sorted(tab) == list(range(64)) + list(range(64, 2561, 64)), name
        assert len(tab) == 64 + 27 + 13
        for c in tab.values():
            assert c and set(c) <= {"0", "1"}, c
        # agreement of the two transcriptions
        keys = list(range(64)) + list(range(64, 1729, 64))
        assert len(chk) == len(keys) == 91
        for k, lv in zip(keys, chk):
            ln, hx = lv.split(":")
            assert tab[k] == format(int(hx, 16), "0%db" % int(ln)), (name, k, tab[k], lv)
        for k, lv in zip(range(1792, 2561, 64), _CHK_EXT):
            ln, hx = lv.split(":")
            assert tab[k] == format(int(hx, 16), "0%db" % int(ln)), (name, k, tab[k], lv)
        # distinct and prefix-free together with EOL (the code must stay uniquely decodable in front of EOFB)
        allc = list(tab.values()) + [EOL]
        assert len(set(allc)) == len(allc), name + ": duplicate code"
        assert _prefix_free(allc) is None, (name, _prefix_free(allc))
        hist: Dict[int, int] = {}
        for k in keys:
            hist[len(tab[k])] = hist.get(len(tab[k]), 0) + 1
        assert hist == _LEN_HIST[colour], (name, hist)
        kraft = sum(Fraction(1, 2 ** len(c)) for c in allc)
        # the modified Huffman code is complete except for the words starting with eight zeros, of which only
        # EOL is assigned: Kraft sum = 1 - 2^-8 + 2^-12.  Any one-bit slip breaks this or prefix-freeness.
        assert kraft == 1 - Fraction(1, 256) + Fraction(1, 4096), (name, kraft)
        info["kraft_" + name] = str(kraft)
        # no code word may contain the EOL pattern's 11 zeros or start with 8 zeros
        for c in tab.values():
            assert "0" * 11 not in c and not c.startswith("0" * 8), c
    modes = list(MODE_CODES.values()) + [EXTENSION_PREFIX, EOFB]
    assert _prefix_free(modes) is None, _prefix_free(modes)
    assert len(set(MODE_CODES.values())) == 9
    info["kraft_modes"] = str(sum(Fraction(1, 2 ** len(c)) for c in modes))
    return info


selftest()  # at import: a broken table must never produce verdicts


# --------------------------------------------------------------------------
# run lengths (T.4 4.1.1 and the rule for runs >= 2624 that goes with table 3b)
# --------------------------------------------------------------------------
def run_code_parts(n: int) -> List[int]:
    """Code words (as the run lengths they stand for) that encode a run of n pels."""
    assert n >= 0
    parts: List[int] = []
    if n >= 2624:  # 2560 + 64
        parts.append(2560)
        n -= 2560
        while n >= 2560:
            parts.append(2560)
            n -= 2560
    if n >= 64:
        m = (n // 64) * 64
        parts.append(m)
        n -= m
    parts.append(n)  # terminating code, always present (0..63)
    return parts


def run_bits(colour: int, n: int, stats: Optional[Dict[str, int]] = None) -> str:
    tab = CODES[colour]
    out = []
    for p in run_code_parts(n):
        out.append(tab[p])
        if stats is not None:
            k = "code:%s:%d" % ("W" if colour == WHITE else "B", p)
            stats[k] = stats.get(k, 0) + 1
    return "".join(out)


# --------------------------------------------------------------------------
# changing elements
# --------------------------------------------------------------------------
def changes(line: Sequence[int]) -> List[int]:
    """Positions of the changing elements of a line (first pel compared with the
    imaginary white pel in front of it).  Element k is black iff k is even."""
    out = []
    prev = WHITE
    for i, v in enumerate(line):
        if v != prev:
            out.append(i)
            prev = v
    return out


class Step:
    """One coding step: positions and the admissible mode names."""

    __slots__ = ("a0", "colour", "a1", "a2", "b1", "b2", "adm", "std")

    def __init__(self, a0: int, colour: int, a1: int, a2: int, b1: int, b2: int) -> None:
        self.a0, self.colour, self.a1, self.a2, self.b1, self.b2 = a0, colour, a1, a2, b1, b2
        adm = []
        if b2 < a1:
            adm.append("P")
        if abs(a1 - b1) <= 3:
            adm.append(vname(a1 - b1))
        adm.append("H")
        self.adm = adm
        self.std = adm[0]

    def __repr__(self) -> str:
        return "Step(a0=%d c=%d a1=%d a2=%d b1=%d b2=%d adm=%s)" % (
            self.a0, self.colour, self.a1, self.a2, self.b1, self.b2, self.adm)


def _step(rc: List[int], cc: List[int], w: int, a0: int, colour: int) -> Step:
    # a1: next changing element on the coding line right of a0 (its colour is opposite to a0's)
    j = bisect_right(cc, a0)
    if j < len(cc):
        assert (BLACK if j % 2 == 0 else WHITE) != colour, "coding line: next change must be to the opposite colour"
    a1 = cc[j] if j < len(cc) else w
    a2 = cc[j + 1] if j + 1 < len(cc) else w
    # b1: first changing element on the reference line right of a0 and of opposite colour to a0
    k = bisect_right(rc, a0)
    if k < len(rc) and (BLACK if k % 2 == 0 else WHITE) == colour:
        k += 1
    b1 = rc[k] if k < len(rc) else w
    b2 = rc[k + 1] if k + 1 < len(rc) else w
    return Step(a0, colour, a1, a2, b1, b2)


Chooser = Callable[[Step], str]


def choose_std(st: Step) -> str:
    return st.std


def chooser_random(rng: random.Random, p: float) -> Chooser:
    """With probability p pick uniformly among the admissible modes other than the standard one."""

    def ch(st: Step) -> str:
        if len(st.adm) > 1 and rng.random() < p:
            return rng.choice(st.adm[1:])
        return st.std

    return ch


def choose_horizontal(st: Step) -> str:
    return "H"


def choose_no_pass(st: Step) -> str:
    """Never pass mode: vertical if admissible, else horizontal."""
    for m in st.adm:
        if m != "P":
            return m
    return "H"


def ns_kind(st: Step, mode: str) -> Optional[str]:
    """Name of the deviation from the T.6 flow chart, None for the standard choice."""
    if mode == st.std:
        return None
    return "%s_for_%s" % ("H" if mode == "H" else "V", "P" if st.std == "P" else "V")


def encode_row(ref: Sequence[int], cur: Sequence[int], choose: Chooser = choose_std,
               stats: Optional[Dict[str, int]] = None, trace: Optional[List[Tuple[str, int, int]]] = None) -> str:
    """Bits of one coding line.  trace (optional) receives (mode, from, to): the pels [from, to) fixed by that step."""
    w = len(cur)
    assert len(ref) == w and w >= 1
    rc, cc = changes(ref), changes(cur)
    out: List[str] = []
    a0, colour = -1, WHITE
    while a0 < w:
        st = _step(rc, cc, w, a0, colour)
        mode = choose(st)
        assert mode in st.adm, (mode, st)
        if stats is not None:
            stats["mode:" + mode] = stats.get("mode:" + mode, 0) + 1
            kind = ns_kind(st, mode)
            if kind:
                stats["ns:" + kind] = stats.get("ns:" + kind, 0) + 1
        out.append(MODE_CODES[mode])
        start = max(a0, 0)
        if mode == "P":
            a0 = st.b2
        elif mode == "H":
            first = st.a1 - a0 - (1 if a0 < 0 else 0)  # T.6: the first run of a line is a0a1 - 1
            out.append(run_bits(colour, first, stats))
            out.append(run_bits(1 - colour, st.a2 - st.a1, stats))
            a0 = st.a2
        else:
            a0 = st.a1
            colour = 1 - colour
        if trace is not None:
            trace.append((mode, start, a0))
    return "".join(out)


def enum_row_encodings(ref: Sequence[int], cur: Sequence[int]) -> Iterator[Tuple[str, Tuple[str, ...]]]:
    """Every admissible encoding of `cur` against `ref`: (bits, modes).  Small widths only."""
    w = len(cur)
    rc, cc = changes(ref), changes(cur)

    def rec(a0: int, colour: int) -> Iterator[Tuple[str, Tuple[str, ...]]]:
        if a0 >= w:
            yield "", ()
            return
        st = _step(rc, cc, w, a0, colour)
        for mode in st.adm:
            if mode == "P":
                bits, na0, nc = MODE_CODES[mode], st.b2, colour
            elif mode == "H":
                first = st.a1 - a0 - (1 if a0 < 0 else 0)
                bits = MODE_CODES[mode] + run_bits(colour, first) + run_bits(1 - colour, st.a2 - st.a1)
                na0, nc = st.a2, colour
            else:
                bits, na0, nc = MODE_CODES[mode], st.a1, 1 - colour
            for rest, modes in rec(na0, nc):
                yield bits + rest, (mode,) + modes

    return rec(-1, WHITE)


def pack_bits(bits: str) -> bytes:
    """Bit string -> bytes, most significant bit first, zero pad bits at the end."""
    if len(bits) % 8:
        bits += "0" * (8 - len(bits) % 8)
    return int(bits, 2).to_bytes(len(bits) // 8, "big") if bits else b""


def frame(row_bits: Sequence[str], byte_align: bool = False, eofb: bool = True) -> bytes:
    """Concatenate coded lines into a T.6 block.

    byte_align: zero bits are inserted in front of every coded line so that it
    starts on a byte boundary (ISO 32000-1 Table 11 EncodedByteAlign); the EOFB,
    when present, is aligned in the same way.  eofb: append EOFB (T.6 2.4.1.1).
    Zero pad bits complete the last byte (T.6 2.4.1.2)."""
    out: List[str] = []
    n = 0
    for rb in row_bits:
        if byte_align and n % 8:
            pad = 8 - n % 8
            out.append("0" * pad)
            n += pad
        out.append(rb)
        n += len(rb)
    if eofb:
        if byte_align and n % 8:
            out.append("0" * (8 - n % 8))
        out.append(EOFB)
    return pack_bits("".join(out))


def encode(rows: Sequence[Sequence[int]], width: int, choose: Chooser = choose_std, byte_align: bool = False,
           eofb: bool = True, stats: Optional[Dict[str, int]] = None,
           traces: Optional[List[List[Tuple[str, int, int]]]] = None) -> bytes:
    ref: Sequence[int] = [WHITE] * width  # T.6 2.2.1: the first reference line is an imaginary white line
    rbits = []
    for cur in rows:
        assert len(cur) == width
        tr: Optional[List[Tuple[str, int, int]]] = [] if traces is not None else None
        rbits.append(encode_row(ref, cur, choose, stats, tr))
        if traces is not None and tr is not None:
            traces.append(tr)
        ref = cur
    return frame(rbits, byte_align, eofb)


# --------------------------------------------------------------------------
# reference decoder (definitional, slow) - used to validate the encoder itself
# --------------------------------------------------------------------------
class DecodeError(Exception):
    pass


_INV = {c: {v: k for k, v in CODES[c].items()} for c in (WHITE, BLACK)}
_INV_MODE = {v: k for k, v in MODE_CODES.items()}


def decode(data: bytes, width: int, rows: Optional[int] = None, byte_align: bool = False) -> List[List[int]]:
    """Decode a T.6 block into rows of 0 (white) / 1 (black).  Stops at EOFB, after `rows` lines, or at the end
    of data (trailing zero pad bits allowed)."""
    bits = "".join(format(b, "08b") for b in data)
    pos = 0
    out: List[List[int]] = []
    ref = [WHITE] * width

    def read(table: Dict[str, object], maxlen: int) -> object:
        nonlocal pos
        for ln in range(1, maxlen + 1):
            v = table.get(bits[pos:pos + ln])
            if v is not None and pos + ln <= len(bits):
                pos += ln
                return v
        raise DecodeError("no code at bit %d: %s" % (pos, bits[pos:pos + 26]))

    def read_run(colour: int) -> int:
        total = 0
        while True:
            n = read(_INV[colour], 13)  # type: ignore[arg-type]
            total += n  # type: ignore[operator]
            if n < 64:  # type: ignore[operator]
                return total

    def pel(line: Sequence[int], i: int) -> int:
        return WHITE if i < 0 else line[i]

    while rows is None or len(out) < rows:
        if byte_align and pos % 8:
            pos += 8 - pos % 8
        if bits.startswith(EOFB, pos):
            break
        if set(bits[pos:]) <= {"0"}:
            break  # end of data (pad bits only)
        cur = [WHITE] * width
        a0, colour = -1, WHITE
        while a0 < width:
            mode = read(_INV_MODE, 7)  # type: ignore[arg-type]
            # b1, b2 by the definition, scanning the reference line
            b1 = a0 + 1
            while b1 < width and not (ref[b1] != colour and pel(ref, b1 - 1) == colour):
                b1 += 1
            b2 = b1 + 1 if b1 < width else width
            while b2 < width and ref[b2] == ref[b2 - 1]:
                b2 += 1
            b2 = min(b2, width)
            if mode == "P":
                for x in range(max(a0, 0), b2):
                    cur[x] = colour
                a0 = b2
            elif mode == "H":
                r1 = read_run(colour)
                r2 = read_run(1 - colour)
                x = max(a0, 0)
                if x + r1 + r2 > width:
                    raise DecodeError("runs exceed the line")
                for i in range(x, x + r1):
                    cur[i] = colour
                for i in range(x + r1, x + r1 + r2):
                    cur[i] = 1 - colour
                a0 = x + r1 + r2
            else:
                d = 0 if mode == "V0" else int(mode[2]) * (1 if mode[1] == "R" else -1)  # type: ignore[index]
                a1 = b1 + d
                if a1 <= a0 or a1 > width:
                    raise DecodeError("vertical mode leaves the line")
                for x in range(max(a0, 0), a1):
                    cur[x] = colour
                a0 = a1
                colour = 1 - colour
        out.append(cur)
        ref = cur
    return out


def selftest_roundtrip(max_w: int = 5, nrandom: int = 60) -> int:
    """Encoder against the reference decoder above: every (reference, coding) line pair up to max_w with every
    admissible mode sequence, both alignments, with and without EOFB; plus random wide lines with a deviating
    chooser.  Returns the number of round trips; raises AssertionError on the first mismatch."""
    import itertools

    n = 0
    for w in range(1, max_w + 1):
        lines = [list(x) for x in itertools.product((WHITE, BLACK), repeat=w)]
        for ref in lines:
            rb = encode_row([WHITE] * w, ref)
            for cur in lines:
                for bits, modes in enum_row_encodings(ref, cur):
                    for al in (False, True):
                        for eo in (False, True):
                            got = decode(frame([rb, bits], al, eo), w, None if eo else 2, al)
                            assert got == [ref, cur], (ref, cur, modes, al, eo, got)
                            n += 1
    rng = random.Random("t6-selftest")
    for _ in range(nrandom):
        w = rng.choice([1, 7, 8, 9, 63, 64, 65, 300, 1728, 2560, 2700, 5200])
        rows = []
        for _r in range(rng.randint(1, 3)):
            row: List[int] = []
            c = rng.randint(0, 1)
            while len(row) < w:
                row += [c] * rng.randint(1, rng.choice([2, 5, 70, 3000]))
                c = 1 - c
            rows.append(row[:w])
        al, eo = rng.random() < 0.5, rng.random() < 0.5
        data = encode(rows, w, chooser_random(rng, rng.choice([0.0, 0.3, 1.0])), al, eo)
        assert decode(data, w, None if eo else len(rows), al) == rows, (w, al, eo)
        n += 1
    return n
