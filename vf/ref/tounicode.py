"""Reference model of ToUnicode CMaps (ISO 32000-1 9.10.3) for check C07.

A ToUnicode program is described by a *structure* (so that the generator, the
serialiser and this evaluator share nothing with pdfminer's parser):

    prog = {
      "nbytes": 1 | 2,                    # length of the source codes (codespace <00>-<FF> / <0000>-<FFFF>)
      "header": "full" | "min" | "bare",  # standard Adobe wrapper / begincmap..endcmap only / no begincmap at all
      "usecmap": None | "<name>",         # a "/<name> usecmap" line
      "style": int,                       # spelling variations (hex case, white space, comments)
      "blocks": [
         ["bfchar",  [[src, dst], ...]],
         ["bfrange", [[lo, hi, dst], ...]]            # dst: bytes  -> increment form
                                                      #      list   -> array form, one dst per code
      ],
    }

src/lo/hi are ints (written with `nbytes` bytes); every dst is a ``bytes``
value holding big-endian UTF-16 (one BMP character, a surrogate pair, or
several characters).

Semantics implemented here, with the clause it comes from:

* bfchar  `<src> <dst>`: code src -> the UTF-16BE string dst.
* bfrange `<lo> <hi> <dst>`: "the last byte of the string shall be incremented
  for each consecutive code in the source code range".  The clause requires
  last_byte(dst) <= 255 - (hi - lo) ("otherwise the result of mapping is
  undefined"), so `evaluate` refuses programs that violate it instead of
  guessing a carry rule.
* bfrange `<lo> <hi> [<d0> <d1> ...]`: code lo+i -> d_i; the array has exactly
  hi-lo+1 elements.
* consecutive codes of a range are consecutive integers lo, lo+1, ..., hi of
  the same byte length (a two-byte range may therefore cross a low-byte
  boundary, e.g. <00F0>..<0110>).
* at most 100 entries per block (Adobe TN 5014 limit kept by producers).
* a source code is defined at most once in the whole program (the spec does not
  say which of two definitions wins, so such programs are not generated).
"""
from __future__ import annotations

import zlib
from typing import Any, Dict, List, Tuple


class NotConformant(ValueError):
    pass


def utf16(dst: bytes) -> str:
    """Strict UTF-16BE (no lone surrogates, even length, non-empty)."""
    if len(dst) == 0 or len(dst) % 2:
        raise NotConformant("destination is not UTF-16BE: %r" % (dst,))
    try:
        return dst.decode("utf-16-be", "strict")
    except UnicodeDecodeError as e:
        raise NotConformant(str(e))


def evaluate(prog: Dict[str, Any]) -> Dict[int, str]:
    """code -> Unicode text defined by the program."""
    nbytes = prog["nbytes"]
    top = 1 << (8 * nbytes)
    out: Dict[int, str] = {}

    def put(code: int, text: str) -> None:
        if not (0 <= code < top):
            raise NotConformant("code %x outside the codespace" % code)
        if code in out:
            raise NotConformant("code %x defined twice" % code)
        out[code] = text

    for kind, entries in prog["blocks"]:
        if not (1 <= len(entries) <= 100):
            raise NotConformant("block with %d entries" % len(entries))
        if kind == "bfchar":
            for src, dst in entries:
                put(src, utf16(dst))
        elif kind == "bfrange":
            for lo, hi, dst in entries:
                if hi < lo:
                    raise NotConformant("empty range")
                n = hi - lo + 1
                if isinstance(dst, (bytes, bytearray)):
                    dst = bytes(dst)
                    if dst[-1] + (n - 1) > 255:
                        raise NotConformant("last byte of dstString would overflow (undefined by 9.10.3)")
                    for i in range(n):
                        put(lo + i, utf16(dst[:-1] + bytes([dst[-1] + i])))
                else:
                    if len(dst) != n:
                        raise NotConformant("array length != range length")
                    for i, d in enumerate(dst):
                        put(lo + i, utf16(bytes(d)))
        else:
            raise NotConformant("unknown block kind %r" % (kind,))
    return out


# --------------------------------------------------------------------------
# serialiser (PostScript-flavoured CMap text)
# --------------------------------------------------------------------------
def _hex(b: bytes, style: int) -> bytes:
    h = b.hex()
    if style & 1:
        h = h.upper()
    if style & 2 and len(h) > 2:
        # white space is allowed (and ignored) inside hexadecimal strings (7.3.4.3)
        h = h[:2] + " " + h[2:]
    return b"<" + h.encode() + b">"


def _code(c: int, nbytes: int, style: int) -> bytes:
    return _hex(c.to_bytes(nbytes, "big"), style & 1)  # no blanks inside source codes


def serialise(prog: Dict[str, Any]) -> bytes:
    nbytes = prog["nbytes"]
    style = int(prog.get("style", 0))
    sep = b"\n" if not style & 4 else b"\r\n"
    gap = b" " if not style & 8 else b"  \t"
    out: List[bytes] = []
    header = prog.get("header", "full")
    if header == "full":
        out += [b"/CIDInit /ProcSet findresource begin", b"12 dict begin", b"begincmap",
                b"/CIDSystemInfo << /Registry (Adobe) /Ordering (UCS) /Supplement 0 >> def",
                b"/CMapName /Adobe-Identity-UCS def", b"/CMapType 2 def"]
    elif header == "min":
        out += [b"begincmap"]
    if prog.get("usecmap"):
        out.append(b"/" + prog["usecmap"].encode("ascii") + b" usecmap")
    if header != "bare" or style & 16:
        lo = b"00" * nbytes
        hi = b"FF" * nbytes
        out += [b"1 begincodespacerange", b"<" + lo + b">" + gap + b"<" + hi + b">", b"endcodespacerange"]
    for kind, entries in prog["blocks"]:
        if style & 32:
            out.append(b"%% block of %d" % len(entries))
        if kind == "bfchar":
            out.append(b"%d beginbfchar" % len(entries))
            for src, dst in entries:
                out.append(_code(src, nbytes, style) + gap + _hex(bytes(dst), style))
            out.append(b"endbfchar")
        else:
            out.append(b"%d beginbfrange" % len(entries))
            for lo_, hi_, dst in entries:
                head = _code(lo_, nbytes, style) + gap + _code(hi_, nbytes, style) + gap
                if isinstance(dst, (bytes, bytearray)):
                    out.append(head + _hex(bytes(dst), style))
                else:
                    out.append(head + b"[" + gap.join(_hex(bytes(d), style) for d in dst) + b"]")
            out.append(b"endbfrange")
    if header == "full":
        out += [b"endcmap", b"CMapName currentdict /CMap defineresource pop", b"end", b"end"]
    elif header == "min":
        out += [b"endcmap"]
    return sep.join(out) + sep


def stream_parts(prog: Dict[str, Any]) -> Tuple[Dict[str, Any], bytes]:
    """(extra stream-dict entries, encoded data); style bit 64 = FlateDecode."""
    data = serialise(prog)
    if int(prog.get("style", 0)) & 64:
        return {"Filter": "FlateDecode"}, zlib.compress(data)
    return {}, data
