"""Sharded runner, verdicts, known-finding classification and evidence writer.

A check module (vf/checks/cNN.py) provides

    ID, LEVEL, RULE, ASSUMPTIONS, DESIGN_REF
    shards(tier, seed)  -> list of JSON-able shard specs
    run_shard(spec, rec)   runs one shard, reporting to a common.Recorder
    replay(case)        -> list of (key, detail) for a stored failing case
    minimums(tier)      -> {counter_name: minimum}  (vacuity thresholds;
                           'evaluations' and 'distinct' are understood too)
    optional: finish(agg) -> extra coverage dict computed from the aggregate

Exit codes: 0 held on everything explored (known findings allowed);
1 at least one unlisted violation (VIOLATION lines printed);
2 vacuous / inconclusive run (thresholds not met, worker died or timed out).
"""
from __future__ import annotations

import importlib
import json
import os
import shutil
import subprocess
import sys
import tempfile
import time
from typing import Any, Dict, List

from vf import REPO, VERIF_ROOT
from vf.common import chash, dec, enc

PY = sys.executable
KF_PATH = os.environ.get("VERIF_KF") or os.path.join(VERIF_ROOT, "known_findings.json")


def load_known(pid: str) -> List[Dict[str, Any]]:
    try:
        with open(KF_PATH) as f:
            data = json.load(f)
    except FileNotFoundError:
        return []
    return [e for e in data.get("findings", []) if e.get("property") == pid and e.get("status") == "known"]


def load_module(pid: str):
    return importlib.import_module("vf.checks." + pid.lower())


def _worker_env() -> Dict[str, str]:
    env = dict(os.environ)
    env["PYTHONDONTWRITEBYTECODE"] = "1"
    env["PYTHONHASHSEED"] = "0"
    env["PYTHONPATH"] = VERIF_ROOT + os.pathsep + env.get("PYTHONPATH", "")
    env.pop("COVERAGE_PROCESS_START", None)
    return env


def run_shards(pid: str, specs: List[Dict[str, Any]], jobs: int, timeout: float, workdir: str):
    """Run every spec in its own subprocess, at most `jobs` at a time."""
    pending = list(enumerate(specs))
    running: Dict[int, Any] = {}
    results: Dict[int, Dict[str, Any]] = {}
    env = _worker_env()
    while pending or running:
        while pending and len(running) < jobs:
            i, spec = pending.pop(0)
            sp = os.path.join(workdir, "spec%05d.json" % i)
            op = os.path.join(workdir, "out%05d.json" % i)
            ep = os.path.join(workdir, "err%05d.txt" % i)
            with open(sp, "w") as f:
                json.dump(spec, f)
            errf = open(ep, "wb")
            p = subprocess.Popen(
                [PY, "-m", "vf.worker", pid, sp, op],
                cwd=VERIF_ROOT,
                env=env,
                stdout=errf,
                stderr=subprocess.STDOUT,
            )
            running[i] = (p, time.time(), op, ep, errf)
        done = []
        for i, (p, t0, op, ep, errf) in running.items():
            rc = p.poll()
            if rc is None:
                if time.time() - t0 > timeout:
                    p.kill()
                    p.wait()
                    errf.close()
                    results[i] = {"status": "timeout", "wall_s": time.time() - t0}
                    done.append(i)
                continue
            errf.close()
            if rc == 0 and os.path.exists(op):
                with open(op) as f:
                    results[i] = json.load(f)
                results[i]["status"] = "ok"
            else:
                with open(ep, "rb") as f:
                    tail = f.read()[-3000:].decode("utf-8", "replace")
                results[i] = {"status": "crash", "rc": rc, "stderr": tail}
            done.append(i)
        for i in done:
            del running[i]
        if running and not done:
            time.sleep(0.02)
    return [results[i] for i in range(len(specs))]


def aggregate(results: List[Dict[str, Any]]) -> Dict[str, Any]:
    agg: Dict[str, Any] = {
        "evaluations": 0,
        "hashes": set(),
        "counters": {},
        "seen": {},
        "samples": [],
        "failures": [],
        "fail_counts": {},
        "inconclusive": {},
        "shards_ok": 0,
        "shards_timeout": 0,
        "shards_crash": 0,
        "crash_msgs": [],
    }
    for r in results:
        st = r.get("status")
        if st == "timeout":
            agg["shards_timeout"] += 1
            continue
        if st == "crash":
            agg["shards_crash"] += 1
            agg["crash_msgs"].append(r.get("stderr", ""))
            continue
        agg["shards_ok"] += 1
        agg["evaluations"] += r["evaluations"]
        agg["hashes"].update(r["hashes"])
        for k, v in r["counters"].items():
            agg["counters"][k] = agg["counters"].get(k, 0) + v
        for k, v in r["seen"].items():
            agg["seen"].setdefault(k, set()).update(v)
        for s in r["samples"]:
            if len(agg["samples"]) < 6:
                agg["samples"].append(s)
        agg["failures"].extend(r["failures"])
        for k, v in r["fail_counts"].items():
            agg["fail_counts"][k] = agg["fail_counts"].get(k, 0) + v
        for k, v in r["inconclusive"].items():
            agg["inconclusive"][k] = agg["inconclusive"].get(k, 0) + v
    return agg


def run_check(pid: str, tier: str, seed: int, jobs: int) -> int:
    t0 = time.time()
    mod = load_module(pid)
    known = load_known(pid)
    known_keys = {e["key"] for e in known}
    workdir = tempfile.mkdtemp(prefix="vf-%s-" % pid, dir=os.environ.get("VERIF_WORK", None))
    try:
        specs = []
        # witnesses of listed findings are re-run on every invocation
        for e in known:
            specs.append({"__witness__": e["witness"], "key": e["key"], "tier": tier, "seed": seed})
        nwit = len(specs)
        for s in mod.shards(tier, seed):
            s = dict(s)
            s["tier"] = tier
            s["seed"] = seed
            specs.append(s)
        timeout = getattr(mod, "SHARD_TIMEOUT", {"quick": 900, "thorough": 7200})[tier]
        results = run_shards(pid, specs, jobs, timeout, workdir)
    finally:
        shutil.rmtree(workdir, ignore_errors=True)

    if os.environ.get("VERIF_DEBUG"):
        slow = sorted(((r.get("wall_s", 0), json.dumps(sp)[:120]) for r, sp in zip(results, specs)), reverse=True)[:6]
        for w, sp in slow:
            print("debug: shard %.1fs %s" % (w, sp))
    wit_results = results[:nwit]
    agg = aggregate(results[nwit:])

    # ---- known findings: does each witness still fail?
    reproduced = []
    for e, r in zip(known, wit_results):
        keys = set()
        if r.get("status") == "ok":
            keys = {f["key"] for f in r["failures"]}
        if e["key"] in keys:
            print("KNOWN-FINDING: property=%s %s [%s]" % (pid, e["what"], e["key"]))
            reproduced.append(e["key"])
        else:
            print(
                "note: listed finding %s/%s did not reproduce on this tree (status=%s, keys=%s)"
                % (pid, e["key"], r.get("status"), sorted(keys))
            )
        # a witness that fails with a *different* key is reported like any other failure
        if r.get("status") == "ok":
            for f in r["failures"]:
                if f["key"] != e["key"]:
                    agg["failures"].append(f)
                    agg["fail_counts"][f["key"]] = agg["fail_counts"].get(f["key"], 0) + 1

    # ---- classify workload failures
    by_key: Dict[str, List[Dict[str, Any]]] = {}
    for f in agg["failures"]:
        by_key.setdefault(f["key"], []).append(f)
    suppressed = {k: agg["fail_counts"].get(k, len(v)) for k, v in by_key.items() if k in known_keys}
    unlisted = {k: v for k, v in by_key.items() if k not in known_keys}

    rdir = os.path.join(VERIF_ROOT, "replays", pid)
    shutil.rmtree(rdir, ignore_errors=True)  # replay files always belong to the latest run
    nviol = 0
    if unlisted:
        os.makedirs(rdir, exist_ok=True)
    for k in sorted(unlisted):
        f = unlisted[k][0]
        path = os.path.join(rdir, "%s.json" % chash(k))
        with open(path, "w") as fh:
            json.dump({"property": pid, "key": k, "case": f["case"], "detail": f["detail"],
                       "count": agg["fail_counts"].get(k, len(unlisted[k])), "seed": seed, "tier": tier}, fh, indent=1)
        nviol += 1
        if nviol <= 40:
            print("VIOLATION property=%s replay=%s" % (pid, path))
            print("  key=%s count=%d detail=%s" % (k, agg["fail_counts"].get(k, 0), f["detail"][:600].replace("\n", " | ")))

    # ---- vacuity / inconclusive
    mins = mod.minimums(tier)
    short: List[str] = []
    for name, m in mins.items():
        if name == "evaluations":
            v = agg["evaluations"]
        elif name == "distinct":
            v = len(agg["hashes"])
        elif name.startswith("seen:"):
            v = len(agg["seen"].get(name[5:], ()))
        else:
            v = agg["counters"].get(name, 0)
        if v < m:
            short.append("%s=%d<%d" % (name, v, m))
    bad_shards = agg["shards_timeout"] + agg["shards_crash"]

    coverage: Dict[str, Any] = {
        "evaluations": agg["evaluations"],
        "distinct_nontrivial": len(agg["hashes"]),
        "rule": mod.RULE,
        "samples": agg["samples"],
        "counters": dict(sorted(agg["counters"].items())),
        "seen": {k: (sorted(v) if len(v) <= 64 else {"n": len(v), "first": sorted(v)[:64]}) for k, v in sorted(agg["seen"].items())},
        "inconclusive": agg["inconclusive"],
        "shards": {"ok": agg["shards_ok"], "timeout": agg["shards_timeout"], "crash": agg["shards_crash"]},
        "known_findings_reproduced": reproduced,
        "known_findings_suppressed_counts": suppressed,
        "minimums": mins,
        "minimums_missed": short,
        "repo": REPO,
    }
    if hasattr(mod, "finish"):
        coverage.update(mod.finish(agg, tier))
    ev = {
        "property_id": pid,
        "tier": tier,
        "seed": seed,
        "level": mod.LEVEL,
        "coverage": coverage,
        "assumptions": list(mod.ASSUMPTIONS),
        "wall_s": round(time.time() - t0, 2),
        "violations": nviol,
    }
    edir = os.environ.get("VERIF_EVIDENCE_DIR", os.path.join(VERIF_ROOT, "evidence"))
    os.makedirs(edir, exist_ok=True)
    tmp = os.path.join(edir, ".%s.json.tmp" % pid)
    with open(tmp, "w") as f:
        json.dump(ev, f, indent=1, sort_keys=False)
    os.replace(tmp, os.path.join(edir, "%s.json" % pid))

    print(
        "%s tier=%s seed=%d: evaluations=%d distinct_nontrivial=%d violations=%d known=%d suppressed=%s inconclusive=%s shards=%d/%d wall=%.1fs"
        % (pid, tier, seed, agg["evaluations"], len(agg["hashes"]), nviol, len(reproduced), suppressed,
           agg["inconclusive"], agg["shards_ok"], len(specs) - nwit, time.time() - t0)
    )
    for m in agg["crash_msgs"][:3]:
        print("worker crashed:\n" + m)
    if nviol:
        return 1
    if bad_shards or short:
        print("INCONCLUSIVE property=%s: shards timeout=%d crash=%d; minimums missed: %s"
              % (pid, agg["shards_timeout"], agg["shards_crash"], short))
        return 2
    return 0


def run_replay(pid: str, path: str) -> int:
    mod = load_module(pid)
    with open(path) as f:
        data = json.load(f)
    case = dec(data["case"]) if "case" in data else dec(data)
    fails = mod.replay(case)
    for k, d in fails:
        print("REPLAY-FAIL property=%s key=%s detail=%s" % (pid, k, str(d)[:3000]))
    if not fails:
        print("replay: no violation on this tree")
    return 1 if fails else 0
