"""C10 — decryption: either password opens the document to exactly the original content.

Workload: a plaintext document model (strings of every length 0..40 and longer, in
dictionaries / arrays / nested / as bare indirect objects, literal and hex; data
streams raw and Flate; page content; Info; /Metadata) is rendered unencrypted
(the twin) and encrypted by the reference encryptor `vf.gen.crypt` (written from
ISO 32000-1 7.6 / ISO 32000-2 7.6, own RC4, seeded IVs) for every handler
configuration, password pair, /P, /ID mode, EncryptMetadata, cross-reference
form, object streams, large object numbers and non-zero generations.

Monitor (per document): PDFDocument(parser, password) with the user and with the
owner password must succeed; every object number of the model is fetched with
getobj(n) and compared exactly (strings, names, numbers, references; for streams
the dictionary and get_data()); object-stream members are compared the same way
(a second decryption turns them into garbage); the trailer /ID, the Encrypt
dictionary and the cross-reference stream's dictionary are compared after all
objects were fetched; is_printable/is_modifiable/is_extractable must equal bits
3/4/5 of /P; extract_text(password=) must equal the text of the unencrypted twin.
Every password of a set of other passwords must raise exactly
PDFPasswordIncorrect.
"""
from __future__ import annotations

import io
import random
import re
import warnings
import zlib
from typing import Any, Dict, List, Optional, Tuple

from vf.common import chash, short
from vf.gen import crypt as C
from vf.gen.pdfw import Doc, HexStr, N, Name, Real, Ref, Stream, font_type1, page_doc

ID = "C10"
LEVEL = "exploration"
DESIGN_REF = "DESIGN.md#C10"
TECHNIQUE = "round trip through an independent reference encryptor, exact comparison with the plaintext model"
RULE = (
    "one case = one generated document x one password attempt. Configurations cycle deterministically through "
    "V1/R2-40, V1/R3-40, V2/R3 with every key length 40..128 step 8 (with and without /Length when 40), V4/R4 with "
    "CFM V2 / AESV2 / Identity, V5/R5 and V5/R6 with AESV3 / Identity (V4/V5: Encrypt /Length absent or 128/256, "
    "crypt filter /Length present, or absent for the AES methods); everything else is drawn from "
    "Random('C10/seed/sub/j'): password pair categories (empty, ascii, 31/32/33 bytes, long, Latin-1, non-Latin-1 and "
    "Hebrew for R5/R6, owner==user, no owner password), /P with random permission bits and the reserved bits as "
    "Table 22 requires, /ID present (16 or odd lengths) / two empty strings / absent, EncryptMetadata true/false "
    "with a catalog /Metadata stream, Encrypt dictionary indirect or direct, table / xref stream / object streams, cross-reference streams "
    "(45% of the classic-table files have their cross-reference damaged in one of three ways - startxref beyond EOF / not "
    "a number / pointing at the header - so that the table is rebuilt from the body; the "
    "expectation stays the intact twin; generations > 0 also on content streams and Info) with /W third width 0 (then no generation > 0 and one object per object stream), 1 or 2 and second width minimal or 4, "
    "object numbers up to 8388607 and generations up to 65534, strings of all lengths 0..40 in every document plus "
    "longer ones, streams with lengths around the AES block boundaries, raw and Flate. Wrong passwords: prefix, "
    "extension, case swap, doubled, empty, random, 32nd/127th-byte variants, non-Latin-1, not PDFDocEncodable. "
    "Narrowings: R2-R4 passwords only over characters where PDFDocEncoding and Latin-1 agree (0x20-0x7E, 0xA1-0xFF "
    "without 0xAD); R5/R6 real passwords only SASLprep-stable strings (mapping cases are a fixed list from RFC 4013 "
    "section 3 and RFC 3454 B.1/C.1.2); wrong passwords never equal a valid one after padding/truncation; a V2 crypt filter inside V4 "
    "always says /Length 16 (other lengths are read differently by different readers); no /Crypt filters, StmF == StrF; absent /ID only as documented by pdfminer (read as empty "
    "strings); no strings in the dictionary of an unencrypted /Metadata stream; tagged sub-families: strings in "
    "stream dictionaries, Identity by default (StmF/StrF absent), R6 SASLprep mappings, R6 unpreparable passwords. "
    "distinct = distinct (file bytes, password); non-trivial = a wrong-password attempt, or a valid open of a "
    "document whose strings/streams are really encrypted (not Identity)."
)
LEVEL_TEXT = (
    "Every generated document is decrypted by pdfminer and compared object by object with the plaintext it was made "
    "from by an encryptor that shares no code with pdfminer; the configuration space (V, R, key length, crypt filter "
    "method) is enumerated completely, the other dimensions are sampled."
)
ASSUMPTIONS = [
    "the reference encryptor vf/gen/crypt.py implements ISO 32000-1 Algorithms 1-5 and ISO 32000-2 Algorithms 1.A, 2.A, 2.B, "
    "8, 9, 10 correctly (cross-checked at run time against the third-party files in samples/encryption: same file key, U and O)",
    "hashlib (MD5, SHA-2), zlib, the stdlib stringprep tables and AES from the `cryptography` package are correct",
    "vf.gen.pdfw writes conformant files",
]
SHARD_TIMEOUT = {"quick": 600, "thorough": 3600}

TAG_STREAMDICT = "streamdict_strings_not_deciphered"
TAG_IDDEFAULT = "identity_default_crypt_filter"
TAG_SASLMAP = "r6_saslprep_mapping"
TAG_UNPREP = "r6_unpreparable_password"

TAGS = (TAG_STREAMDICT, TAG_IDDEFAULT, TAG_SASLMAP, TAG_UNPREP)

# (V, R, bits, cfm)
CONFIGS: List[Tuple[int, int, int, Optional[str]]] = (
    [(1, 2, 40, None), (1, 3, 40, None)]
    + [(2, 3, b, None) for b in range(40, 129, 8)]
    + [(4, 4, 128, "V2"), (4, 4, 128, "AESV2"), (4, 4, 128, "V2"), (4, 4, 128, "AESV2"), (4, 4, 128, "AESV2"),
       (4, 4, 128, "AESV2"), (4, 4, 128, "Identity")]
    + [(5, 5, 256, "AESV3")] * 4 + [(5, 6, 256, "AESV3")] * 4 + [(5, 5, 256, "Identity"), (5, 6, 256, "Identity")]
    + [(2, 3, 128, None), (2, 3, 128, None)]
)


def cfg_name(cfg: Tuple[int, int, int, Optional[str]]) -> str:
    return "V%dR%d/%d/%s" % (cfg[0], cfg[1], cfg[2], cfg[3] or "RC4")


def minimums(tier: str) -> Dict[str, int]:
    # about half of what an intact tree yields with any seed (counts scale with the number of documents)
    q = {"evaluations": 9000, "distinct": 8000, "docs": 1700, "seen:config": 21, "seen:string_len": 42,
         "strings_compared": 80000, "streams_compared": 14000, "objstm_members_compared": 7000,
         "streamdict_strings_compared": 400, "open_user_ok": 1700, "open_owner_ok": 1700, "wrong_rejected": 7000,
         "wrong_rejected:unpreparable": 30, "text_compared": 3400, "trailer_id_checked": 3400,
         "xrefstream_dict_checked": 1000, "encrypt_dict_checked": 1000, "perms_checked": 10000, "seen:perm_bits": 8,
         "metadata_plain_checked": 400, "large_objnum_objects": 2000, "nonzero_gen_objects": 2000,
         "seen:large_objnums": 13, "seen:generations": 7, "ref_selftest_agree": 9, "seen:xref_kind": 3,
         "seen:id_mode": 3, "seen:user_pw_category": 11, "tagged:%s" % TAG_STREAMDICT: 60,
         "tagged:%s" % TAG_IDDEFAULT: 20, "tagged:%s" % TAG_SASLMAP: 10, "tagged:%s" % TAG_UNPREP: 6,
         "encrypt_length:V4:absent": 80, "encrypt_length:V4:written": 80, "encrypt_length:V5:absent": 150,
         "encrypt_length:V5:written": 150, "encrypt_length:V2:absent": 8,
         "damaged_xref_docs": 90, "fallback_xref_opens": 180, "seen:damage_mode": 3,
         "damaged_xref_docs:per_object_key_with_gen": 50, "damaged_xref_docs:per_object_key_with_gen_on_content_or_info": 40,
         "intact_docs_with_gen_on_content_or_info": 100,
         "xref_w3:0:per_object_key_docs": 100, "xref_w3:1:per_object_key_docs": 60, "xref_w3:2:per_object_key_docs": 150,
         "xref_w3:1:per_object_key_docs_with_gen": 40, "xref_w3:2:per_object_key_docs_with_gen": 100}
    if tier == "quick":
        return q
    f = (256 * 100) // (48 * 36)
    keep = {k: v for k, v in q.items() if k.startswith("seen:") or k == "ref_selftest_agree"}
    out = {k: v * f for k, v in q.items()}
    out.update(keep)
    return out


def shards(tier: str, seed: int) -> List[Dict[str, Any]]:
    nsh, per = (48, 36) if tier == "quick" else (256, 100)
    out: List[Dict[str, Any]] = [{"kind": "docs", "sub": k, "n": per} for k in range(nsh)]
    out.append({"kind": "selftest", "sub": 0})
    return out


# --------------------------------------------------------------------------
# normal forms (model side and pdfminer side)
# --------------------------------------------------------------------------
def norm_model(o: Any) -> Any:
    if o is None or isinstance(o, (bool, int)):
        return o
    if isinstance(o, (bytes, bytearray)):       # includes HexStr
        return ("s", bytes(o))
    if isinstance(o, Name):
        return ("n", o.b.decode("ascii"))
    if isinstance(o, Ref):
        return ("r", o.n)
    if isinstance(o, Real):
        return ("f", repr(float(o.text)))
    if isinstance(o, float):
        return ("f", repr(o))
    if isinstance(o, (list, tuple)):
        return [norm_model(v) for v in o]
    if isinstance(o, dict):
        return {(k.b.decode("ascii") if isinstance(k, Name) else k): norm_model(v) for k, v in o.items()}
    raise TypeError(repr(o))


def norm_pm(o: Any) -> Any:
    from pdfminer.pdftypes import PDFObjRef, PDFStream
    from pdfminer.psparser import PSKeyword, PSLiteral

    if o is None or isinstance(o, (bool, int)):
        return o
    if isinstance(o, bytes):
        return ("s", o)
    if isinstance(o, PSLiteral):
        return ("n", o.name if isinstance(o.name, str) else repr(o.name))
    if isinstance(o, PDFObjRef):
        return ("r", o.objid)
    if isinstance(o, float):
        return ("f", repr(o))
    if isinstance(o, list):
        return [norm_pm(v) for v in o]
    if isinstance(o, dict):
        return {str(k): norm_pm(v) for k, v in o.items()}
    if isinstance(o, PDFStream):
        return ("stream", norm_pm(o.attrs))
    if isinstance(o, PSKeyword):
        return ("kw", repr(o.name))
    return ("?", repr(o))


def _strings_of(x: Any, path: str = "") -> List[Tuple[str, bytes]]:
    """All string leaves of a normal form, with their paths."""
    out: List[Tuple[str, bytes]] = []
    if isinstance(x, tuple) and len(x) == 2 and x[0] == "s":
        out.append((path, x[1]))
    elif isinstance(x, list):
        for i, v in enumerate(x):
            out += _strings_of(v, "%s[%d]" % (path, i))
    elif isinstance(x, dict):
        for k, v in x.items():
            out += _strings_of(v, "%s/%s" % (path, k))
    return out


def _is_padded(got: bytes, want: bytes) -> bool:
    """got == want followed by the PKCS#5 padding of want."""
    n = 16 - len(want) % 16
    return got == want + bytes([n]) * n


# --------------------------------------------------------------------------
# generation
# --------------------------------------------------------------------------
LEGACY_ALPHA = "".join(chr(c) for c in list(range(0x20, 0x7F)) + [c for c in range(0xA1, 0x100) if c != 0xAD])
ASCII_ALPHA = "".join(chr(c) for c in range(0x21, 0x7F))
UNI_POOLS = {
    "latin1": "éüñßÆøçÅîÖ",
    "greek": "αβγδεζηθλμ",
    "cyrillic": "парольдляфйщ",
    "cjk": "日本語密码文書鍵開",
}
HEBREW = "אבגדהוזחטשלום"

LARGE_OBJNUMS = [255, 256, 257, 4095, 65535, 65536, 65537, 70000, 0x010203, 1000000, 0x123456, 0x7FFF00, 0x7FFFF0]
GENS = [1, 2, 7, 255, 256, 0x1234, 65534]

# (typed password, SASLprep result) - RFC 4013 section 3 examples and RFC 3454 tables B.1, C.1.2, NFKC
SASL_MAP = [
    ("I\u00adX", "IX"), ("\u00aa", "a"), ("\u2168", "IX"), ("a\u00a0b", "a b"), ("e\u0301x", "\u00e9x"),
    ("\ufb01le", "file"), ("\u2003x\u200c", " x"), ("\u00ad", ""), ("pw\u1806\u180b", "pw"), ("\uff21\uff42\uff11", "Ab1"),
]
# passwords SASLprep cannot prepare: prohibited control (C.2.1), bidi violation (RFC 3454 s.6), unassigned in
# Unicode 3.2 (allowed in a query, RFC 3454 s.7), private use (C.3), non-character (C.4)
UNPREPARABLE = ["a\u0007b", "\u0627\u0031", "pass\U0001F600", "x\ue000y", "q\ufdd0"]
for _t, _p in SASL_MAP:
    assert C.saslprep_ref(_t, stored=False) == _p, (_t, _p)
for _t in UNPREPARABLE:
    assert not C.saslprep_stable(_t)


def _pw_from(rng: random.Random, alpha: str, n: int) -> str:
    return "".join(rng.choice(alpha) for _ in range(n))


def gen_password(rng: random.Random, R: int, cat: str) -> str:
    legacy = R <= 4
    if cat == "empty":
        return ""
    if cat == "ascii":
        return _pw_from(rng, ASCII_ALPHA, rng.randint(1, 12))
    if cat in ("len31", "len32", "len33"):
        n = int(cat[3:])
        return _pw_from(rng, LEGACY_ALPHA if legacy and rng.random() < 0.5 else ASCII_ALPHA, n)
    if cat == "long":
        n = rng.choice([34, 40, 64, 100, 126, 127, 128, 129, 200])
        return _pw_from(rng, ASCII_ALPHA, n)
    if cat == "latin1":
        if not legacy:
            return _pw_from(rng, UNI_POOLS["latin1"] + "abc019", rng.randint(1, 14))
        return _pw_from(rng, LEGACY_ALPHA[95:] + "abcXYZ019", rng.randint(1, 14))
    if cat == "nonlatin":      # R5/R6 only
        pool = UNI_POOLS[rng.choice(sorted(UNI_POOLS))] + "ab1"
        return _pw_from(rng, pool, rng.randint(1, 12))
    if cat == "longuni":       # R5/R6: UTF-8 longer than 127 bytes, cut possibly inside a character
        pool = UNI_POOLS[rng.choice(sorted(UNI_POOLS))] + "ab"
        return _pw_from(rng, pool, rng.randint(64, 90))
    if cat == "hebrew":
        return _pw_from(rng, HEBREW, rng.randint(1, 10))
    raise ValueError(cat)


def prep(R: int, pw: str) -> bytes:
    return C.prep_legacy(pw) if R <= 4 else C.prep_utf8(pw)


def effective(R: int, pw: str) -> Optional[bytes]:
    """The byte string the algorithms really use (None: no such byte string exists)."""
    try:
        if R <= 4:
            return C.pad32(pw.encode("latin-1")) if C.legacy_password_ok(pw) else None
        return C.prep_utf8(pw)
    except ValueError:
        return None


def gen_wrong(rng: random.Random, R: int, valid: List[str]) -> List[Tuple[str, str]]:
    cands: List[Tuple[str, str]] = []
    for p in valid:
        if p:
            cands.append(("prefix", p[:-1]))
            cands.append(("doubled", p + p))
            if p.swapcase() != p:
                cands.append(("caseswap", p.swapcase()))
            cands.append(("firstchar", ("b" if p[0] != "b" else "c") + p[1:]))
        cands.append(("extended", p + "x"))
        cands.append(("nonlatin1_ext", p + "密"))
        if R <= 4 and len(p) >= 32:
            cands.append(("byte32", p[:31] + ("Z" if p[31] != "Z" else "Y") + p[32:]))
        if R >= 5:
            if len(p.encode("utf-8")) >= 127:
                acc = k = 0                       # change the character that holds the 127th byte
                for k, ch in enumerate(p):
                    acc += len(ch.encode("utf-8"))
                    if acc >= 127:
                        break
                cands.append(("byte127", p[:k] + ("Z" if p[k] != "Z" else "Y") + p[k + 1:]))
    cands.append(("empty", ""))
    cands.append(("random", _pw_from(rng, ASCII_ALPHA, rng.randint(1, 10))))
    cands.append(("cyrillic", "пароль"))
    cands.append(("cjk", "密码文"))
    if R <= 4:
        cands.append(("pdfdoc_not_latin1", (valid[0] or "pw") + "•"))   # U+2022 is 0x80 in PDFDocEncoding
        cands.append(("latin1_random", _pw_from(rng, LEGACY_ALPHA, rng.randint(1, 33))))
    else:
        cands.append(("greek", "κλειδί"))
    veff = [effective(R, v) for v in valid]
    out: List[Tuple[str, str]] = []
    seen = set()
    for cat, w in cands:
        if w in seen:
            continue
        if R >= 5 and not C.saslprep_stable(w):
            continue                      # only unambiguous candidates (mapping cases have their own sub-family)
        e = effective(R, w)
        if e is not None and e in veff:
            continue                      # the same password after padding / truncation
        seen.add(w)
        out.append((cat, w))
    rng.shuffle(out)
    return out[:8]


def _rand_bytes(rng: random.Random, n: int) -> bytes:
    return bytes(rng.getrandbits(8) for _ in range(n))


class _Ids:
    def __init__(self, docid: str) -> None:
        self.docid = docid
        self.k = 0

    def payload(self, rng: random.Random, n: int) -> bytes:
        """A string of exactly n bytes starting (as far as it fits) with a unique id."""
        self.k += 1
        head = b"%s.%d|" % (self.docid.encode(), self.k)
        r = rng.random()
        if r < 0.4:
            fill = _rand_bytes(rng, n)
        elif r < 0.7:
            fill = bytes(rng.choice(b"abcdefghijklmnopqrstuvwxyz ()\\\r\n") for _ in range(n))
        else:
            fill = bytes([rng.choice([0, 1, 15, 16, 0x28, 0x29, 0x5C, 0x0D, 0x0A, 255])]) * n
        return (head + fill)[:n] if n >= len(head) else (head[-n:] if n and rng.random() < 0.5 else fill[:n])


def _wrap_string(rng: random.Random, b: bytes) -> Any:
    return HexStr(b) if rng.random() < 0.3 else bytes(b)


def gen_carrier(rng: random.Random, strings: List[bytes]) -> Any:
    """An object holding the given strings in a random structure."""
    items = [_wrap_string(rng, s) for s in strings]
    if len(items) == 1 and rng.random() < 0.5:
        return items[0]                          # an indirect object that is just a string
    shape = rng.choice(["dict", "array", "nested", "nested"])

    def filler() -> Any:
        return rng.choice([0, -1, 42, N("Nm"), True, False, Real("1.5"), Ref(1)])

    if shape == "dict":
        d: Dict[str, Any] = {"Type": N("VfCarrier")}
        for i, s in enumerate(items):
            d["K%d" % i] = s
            if rng.random() < 0.3:
                d["F%d" % i] = filler()
        return d
    if shape == "array":
        a: List[Any] = []
        for s in items:
            a.append(s)
            if rng.random() < 0.3:
                a.append(filler())
        return a
    # nested: distribute over a random tree of dicts and arrays
    root: Dict[str, Any] = {"Type": N("VfNested")}
    nodes: List[Any] = [root]
    for i, s in enumerate(items):
        node = rng.choice(nodes)
        if rng.random() < 0.5 and len(nodes) < 12:
            new: Any = {} if rng.random() < 0.5 else []
            if isinstance(node, dict):
                node["C%d" % i] = new
            else:
                node.append(new)
            nodes.append(new)
            node = new
        if isinstance(node, dict):
            node["S%d" % i] = s
        else:
            node.append(s)
            if rng.random() < 0.2:
                node.append(filler())
    return root


# Only damages after which pdfminer really rebuilds the table (PDFXRefFallback) are generated: a garbled "xref"
# keyword is read tolerantly without a rebuild, and a garbled "startxref" keyword is not recovered at all
# ("No /Root object"); damaged files are not conformant, so nothing is demanded for those two.
DAMAGE_MODES = ["startxref_beyond_eof", "startxref_not_a_number", "startxref_stale_header"]


def damage_xref(pdf: bytes, mode: str) -> bytes:
    """Damage the cross-reference information of a classic-table file (same length where possible) so that a
    reader has to rebuild the table by scanning the body for 'n g obj' lines."""
    m = re.search(rb"startxref\n(\d+)\n%%EOF\n$", pdf)
    assert m, "no startxref"
    off = int(m.group(1))
    assert pdf[off:off + 5] == b"xref\n"
    if mode == "startxref_beyond_eof":
        return pdf[:m.start(1)] + b"%d" % (len(pdf) + 1000) + pdf[m.end(1):]
    if mode == "startxref_not_a_number":
        return pdf[:m.start(1)] + b"x" * len(m.group(1)) + pdf[m.end(1):]
    if mode == "xref_keyword_garbled":
        return pdf[:off] + b"xrex\n" + pdf[off + 5:]
    if mode == "startxref_stale_header":
        return pdf[:m.start(1)] + b"0" + pdf[m.end(1):]
    if mode == "startxref_keyword_garbled":
        return pdf[:m.start()] + b"startxrex" + pdf[m.start() + 9:]
    raise ValueError(mode)


STREAM_LENGTHS = list(range(0, 41)) + [47, 48, 49, 63, 64, 65, 255, 256, 257, 1000, 2047, 2048, 4096 + 5]


def gen_case(seed: int, sub: int, j: int, tier: str = "quick") -> Dict[str, Any]:
    """Build one document (twin + encrypted) and its expectation."""
    rng = random.Random("C10/%d/%d/%d" % (seed, sub, j))
    idx = sub * 1000 + j
    cfg = CONFIGS[(sub * 7 + j) % len(CONFIGS)]
    V, R, bits, cfm = cfg
    docid = "d%d_%d_%d" % (seed, sub, j)
    ids = _Ids(docid)

    # ---- sub-family
    tag = None
    r = rng.random()
    really_encrypted = cfm != "Identity"
    if really_encrypted and r < 0.10:
        tag = TAG_STREAMDICT
    elif cfm == "Identity" and r < 0.35:
        tag = TAG_IDDEFAULT
    elif R == 6 and cfm == "AESV3" and 0.10 <= r < 0.28:
        tag = TAG_SASLMAP
    elif R == 6 and cfm == "AESV3" and 0.28 <= r < 0.40:
        tag = TAG_UNPREP

    # ---- passwords
    legacy_cats = ["empty", "ascii", "ascii", "len31", "len32", "len33", "long", "latin1", "latin1"]
    modern_cats = ["empty", "ascii", "ascii", "len32", "long", "latin1", "nonlatin", "nonlatin", "longuni", "hebrew"]
    cats = legacy_cats if R <= 4 else modern_cats
    ucat = rng.choice(cats)
    ocat = rng.choice(cats + ["same", "none" if R <= 4 else "empty"])
    typed_user: Optional[str] = None     # what is typed to open when it differs from the stored password
    if tag == TAG_SASLMAP:
        typed_user, user = rng.choice(SASL_MAP)
        ucat = "saslmap"
    else:
        user = gen_password(rng, R, ucat)
    if ocat == "same":
        owner: Optional[str] = user
    elif ocat == "none":
        owner = None
    else:
        owner = gen_password(rng, R, ocat)
    if R <= 4 and not owner:
        owner = None                      # Algorithm 3 (a): no owner password -> the user password is used
        ocat = "none"
    if R >= 5:
        assert C.saslprep_stable(user) and (owner is None or C.saslprep_stable(owner)), (user, owner)
    eff_owner = owner if owner is not None else user
    valid: List[Tuple[str, str]] = [("user", typed_user if typed_user is not None else user), ("owner", eff_owner)]
    P = C.make_P(rng, R)

    # ---- ID
    rr = rng.random()
    if rr < 0.70:
        id_mode, id0, id1 = "present", _rand_bytes(rng, 16), _rand_bytes(rng, 16)
    elif rr < 0.80:
        id_mode, id0, id1 = "present", _rand_bytes(rng, rng.choice([1, 5, 15, 17, 32, 40])), _rand_bytes(rng, rng.choice([0, 1, 16]))
    elif rr < 0.90:
        id_mode, id0, id1 = "empty", b"", b""
    else:
        id_mode, id0, id1 = "absent", b"", b""
    encrypt_metadata = True if V < 4 else rng.random() < 0.5
    xref_kind = rng.choice(["table", "stream", "objstm", "objstm"])
    # /W of the cross-reference stream: third width 0 (field absent = generation 0 / index 0), 1 or 2
    w3 = 2 if xref_kind == "table" else rng.choice([0, 0, 1, 2] if xref_kind == "stream" else [0, 1, 2, 2, 2, 2])
    w2: Optional[int] = None if rng.random() < 0.5 else 4
    gens_allowed = [] if w3 == 0 else ([g for g in GENS if g < 256] if w3 == 1 else GENS)
    large = rng.random() < 0.35
    caching = rng.random() < 0.8

    # ---- the document
    doc = Doc()
    lines_total = 0
    pages = []
    for pno in range(rng.randint(1, 2)):
        contents = []
        for cno in range(rng.randint(1, 2)):
            ops = []
            y = 720
            for ln in range(rng.randint(1, 4)):
                lines_total += 1
                txt = "%s p%d c%d l%d %s" % (docid, pno, cno, ln, _pw_from(rng, "abcdefghijklmnopqrstuvwxyz0123456789", rng.randint(0, 30)))
                ops.append("BT /F1 12 Tf 72 %d Td (%s) Tj ET" % (y - 40 * cno * 4 - 16 * ln, txt))
            data = ("\n".join(ops) + "\n").encode("ascii")
            if rng.random() < 0.5:
                contents.append(Stream({"Filter": N("FlateDecode")}, zlib.compress(data)))
            else:
                contents.append(Stream({}, data))
        pages.append({"content": contents, "resources": {"Font": {"F1": Ref(0)}}})
    info = {"Title": ids.payload(rng, rng.randint(8, 60)), "Producer": HexStr(ids.payload(rng, rng.randint(8, 40))),
            "CreationDate": b"D:20240101000000Z"}
    page_doc(pages, doc=doc, info=info)
    font_ref = doc.add(font_type1("Helvetica"))
    for n, o in doc.objs.items():
        if isinstance(o, dict) and o.get("Type") == N("Page"):
            o["Resources"] = {"Font": {"F1": font_ref}}
    # generation > 0 on content streams and the Info dictionary (references carry the generation)
    damage = rng.choice(DAMAGE_MODES) if xref_kind == "table" and rng.random() < 0.45 else None
    if gens_allowed and rng.random() < (0.9 if damage else 0.3):
        for n, o in list(doc.objs.items()):
            if isinstance(o, dict) and o.get("Type") == N("Page"):
                c = o["Contents"]
                refs = c if isinstance(c, list) else [c]
                new = []
                for r_ in refs:
                    if rng.random() < 0.7:
                        doc.gens[r_.n] = rng.choice(gens_allowed)
                    new.append(Ref(r_.n, doc.gens.get(r_.n, 0)))
                o["Contents"] = new if isinstance(c, list) else new[0]
        if rng.random() < 0.7:
            inf = doc.trailer["Info"]
            doc.gens[inf.n] = rng.choice(gens_allowed)
            doc.trailer["Info"] = Ref(inf.n, doc.gens[inf.n])
    # plaintext bookkeeping
    stream_plain: Dict[int, Tuple[bytes, str]] = {}
    for n, o in doc.objs.items():
        if isinstance(o, Stream):
            flate = o.d.get("Filter") == N("FlateDecode")
            stream_plain[n] = (zlib.decompress(o.data) if flate else o.data, "content_flate" if flate else "content_raw")

    # object numbers / generations for the carriers and data streams
    pool = list(LARGE_OBJNUMS)
    rng.shuffle(pool)

    seq = [max(doc.objs) + 1]

    def free_seq() -> int:
        while seq[0] in doc.objs:
            seq[0] += 1
        return seq[0]

    def place(o: Any, allow_gen: bool = True) -> Ref:
        n = None
        if large and pool and rng.random() < 0.5:
            n = pool.pop()
            if n in doc.objs or n <= seq[0] + 60:
                n = None
        ref = doc.add(o, n if n is not None else free_seq())
        if allow_gen and gens_allowed and rng.random() < 0.2:
            doc.gens[ref.n] = rng.choice(gens_allowed)
            ref = Ref(ref.n, doc.gens[ref.n])
        return ref

    lengths = list(range(0, 41)) + [rng.randint(41, 300) for _ in range(rng.randint(1, 4))]
    rng.shuffle(lengths)
    payloads = [ids.payload(rng, L) for L in lengths]
    carriers: List[Ref] = []
    i = 0
    while i < len(payloads):
        k = rng.choice([1, 1, 2, 3, 5, 8, 13])
        carriers.append(place(gen_carrier(rng, payloads[i:i + k])))
        i += k

    data_refs: List[Ref] = []
    for _ in range(rng.randint(3, 7)):
        L = rng.choice(STREAM_LENGTHS)
        plain = ids.payload(rng, L)
        d: Dict[str, Any] = {"Type": N("VfData"), "VfLen": L}
        if rng.random() < 0.5:
            d["Filter"] = N("FlateDecode")
            st = Stream(d, zlib.compress(plain))
            kind = "flate"
        else:
            st = Stream(d, plain)
            kind = "raw"
        ref = place(st)
        stream_plain[ref.n] = (plain, kind)
        data_refs.append(ref)

    sd_nums: List[int] = []
    if tag == TAG_STREAMDICT:
        for _ in range(rng.randint(1, 3)):
            plain = ids.payload(rng, rng.choice([0, 12, 16, 33, 100]))
            which = rng.choice(["indexed", "params", "plainkey"])
            if which == "indexed":
                d = {"Type": N("XObject"), "Subtype": N("Image"), "Width": 2, "Height": 2, "BitsPerComponent": 8,
                     "ColorSpace": [N("Indexed"), N("DeviceRGB"), 3, _wrap_string(rng, ids.payload(rng, 12))]}
            elif which == "params":
                d = {"Type": N("EmbeddedFile"), "Params": {"Size": len(plain), "CheckSum": HexStr(ids.payload(rng, 16)),
                                                           "ModDate": b"D:20240102030405Z"}}
            else:
                d = {"Type": N("VfData"), "VfNote": _wrap_string(rng, ids.payload(rng, rng.choice([1, 15, 16, 17, 40])))}
            if rng.random() < 0.5:
                d["Filter"] = N("FlateDecode")
                st = Stream(d, zlib.compress(plain))
            else:
                st = Stream(d, plain)
            ref = place(st)
            stream_plain[ref.n] = (plain, "streamdict")
            sd_nums.append(ref.n)
            data_refs.append(ref)

    meta_n = None
    if rng.random() < (0.85 if V >= 4 else 0.4):
        xml = b"<?xpacket begin='' id='W5M0MpCehiHzreSzNTczkc9d'?><x:xmpmeta xmlns:x='adobe:ns:meta/'>" + ids.payload(rng, rng.randint(20, 90)).hex().encode() + b"</x:xmpmeta><?xpacket end='w'?>"
        mref = doc.add(Stream({"Type": N("Metadata"), "Subtype": N("XML")}, xml), free_seq())
        meta_n = mref.n
        stream_plain[meta_n] = (xml, "metadata")
        doc.objs[doc.trailer["Root"].n]["Metadata"] = mref
    doc.objs[doc.trailer["Root"].n]["VfCarriers"] = list(carriers) + list(data_refs)

    # expectation, taken before the encryptor adds its own object
    expect_objs = {n: norm_model(o) for n, o in doc.objs.items() if not isinstance(o, Stream)}
    expect_streams = {n: {"data": stream_plain[n][0], "kind": stream_plain[n][1],
                          "attrs": {k: v for k, v in norm_model(o.d).items()}}
                      for n, o in doc.objs.items() if isinstance(o, Stream)}

    # which objects go into object streams
    groups: List[List[int]] = []
    if xref_kind == "objstm":
        cand = [n for n, o in doc.objs.items() if not isinstance(o, Stream) and doc.gens.get(n, 0) == 0]
        rng.shuffle(cand)
        take = cand[: max(1, int(len(cand) * rng.choice([0.4, 0.7, 1.0])))]
        if w3 == 0:
            groups = [[n] for n in take[: rng.randint(1, 3)]]     # index inside the object stream must be 0
        elif large and len(take) > 3 and rng.random() < 0.5:
            cut = rng.randint(1, len(take) - 1)
            groups = [take[:cut], take[cut:]]
        else:
            groups = [take]

    twin = C.build_sparse(doc, xref="table")[0]

    # ---- encrypt
    opts = {"encrypt_objnum": free_seq() if rng.random() < 0.7 else None, "write_length": not ((V >= 4 or (V == 2 and bits == 40)) and rng.random() < 0.5), "cf_length": rng.random() < 0.6, "cf_absent": rng.random() < 0.5,
            "identity_default": tag == TAG_IDDEFAULT, "encrypt_direct": rng.random() < 0.2,
            "hex_id": rng.random() < 0.7, "hex_ou": rng.random() < 0.5, "write_em_true": rng.random() < 0.3}
    enc = C.StdEncryptor(V, R, bits, cfm, prep(R, user), None if owner is None else prep(R, owner), P,
                         random.Random("C10enc/%d/%d/%d" % (seed, sub, j)), id_mode=id_mode, id0=id0, id1=id1,
                         encrypt_metadata=encrypt_metadata, **opts)
    xk = "table" if xref_kind == "table" else "stream"
    if large or len(groups) > 1 or (xk == "stream" and (w3 != 2 or w2 is None)) or rng.random() < 0.3:
        pdf, binfo = C.build_sparse(doc, xref=xk, objstm=groups, encryptor=enc, w=(1, w2, w3))
        members = binfo["members"]
        builder = "sparse"
    else:
        pdf = doc.build(xref=xk, objstm=groups[0] if groups else None, encryptor=enc)
        members = sorted(n for n in (groups[0] if groups else []) if n in expect_objs)
        builder = "pdfw"
    if damage:
        assert xk == "table"
        pdf = damage_xref(pdf, damage)
    xref_objnum = None
    if xk == "stream":
        m = re.search(rb"startxref\s+(\d+)\s+%%EOF\s*$", pdf)
        assert m
        m2 = re.match(rb"(\d+) 0 obj", pdf[int(m.group(1)):])
        assert m2
        xref_objnum = int(m2.group(1))

    wrong = gen_wrong(rng, R, [v for _, v in valid] + ([user] if typed_user is not None else []))
    if tag == TAG_UNPREP:
        wrong = [("unpreparable", w) for w in UNPREPARABLE] + wrong[:3]

    return {
        "gen": [seed, sub, j], "cfg": cfg_name(cfg), "tag": tag, "pdf": pdf, "twin": twin, "damage": damage,
        "valid": [list(v) for v in valid], "wrong": [list(w) for w in wrong],
        "objects": expect_objs, "streams": expect_streams, "members": members, "sd_nums": sd_nums,
        "id": None if id_mode == "absent" else [enc.id[0], enc.id[1]], "P": P,
        "enc_objnum": enc.enc_ref.n if enc.enc_ref is not None else None, "enc_O": enc.O, "enc_U": enc.U,
        "xref_objnum": xref_objnum, "caching": caching, "encrypt_metadata": encrypt_metadata, "meta_n": meta_n,
        "features": {"ucat": ucat, "ocat": ocat, "id_mode": id_mode, "xref_kind": xref_kind, "builder": builder,
                     "large": large, "encrypt_direct": opts["encrypt_direct"], "length_written": opts["write_length"] and V >= 2,
                     "w3": w3 if xk == "stream" else None, "damage": damage,
                     "gen_content_or_info": any(doc.gens.get(n, 0) for n, o in doc.objs.items() if isinstance(o, Stream) and stream_plain[n][1].startswith("content")) or bool(doc.gens.get(doc.trailer["Info"].n, 0)), "per_object_key": V < 5 and cfm != "Identity",
                     "W": (binfo.get("W") if builder == "sparse" and xk == "stream" else ([1, 4, 2] if xk == "stream" else None)), "lines": lines_total,
                     "really_encrypted": really_encrypted, "gens": sorted(set(doc.gens.values())), "n_gen_objects": len(doc.gens),
                     "objnums_large": sorted(n for n in doc.objs if n >= 255)},
    }


# --------------------------------------------------------------------------
# the monitor
# --------------------------------------------------------------------------
def _exc_key(e: BaseException) -> str:
    tb = e.__traceback__
    fn = "?"
    while tb is not None:
        if "pdfminer" in tb.tb_frame.f_code.co_filename:
            fn = tb.tb_frame.f_code.co_name
        tb = tb.tb_next
    return "%s:%s" % (type(e).__name__, fn)


def _extract_text(pdf: bytes, password: str) -> str:
    from pdfminer.high_level import extract_text

    with warnings.catch_warnings():
        warnings.simplefilter("ignore")
        return extract_text(io.BytesIO(pdf), password=password)


def _open(pdf: bytes, password: str, caching: bool = True):
    from pdfminer.pdfdocument import PDFDocument
    from pdfminer.pdfparser import PDFParser

    return PDFDocument(PDFParser(io.BytesIO(pdf)), password=password, caching=caching)


def check_valid(case: Dict[str, Any], role: str, pw: str, obs: Dict[str, Any]) -> List[Tuple[str, str]]:
    """Open with a valid password and compare everything with the model."""
    from pdfminer.pdftypes import PDFStream

    cfg = case["cfg"]
    fails: List[Tuple[str, str]] = []
    where = "cfg=%s role=%s pw=%r gen=%s" % (cfg, role, pw, case["gen"])
    try:
        doc = _open(case["pdf"], pw, case["caching"])
    except Exception as e:  # noqa: BLE001
        return [("open_valid_password:%s" % _exc_key(e), "%s: %r" % (where, e))]
    obs["open_%s_ok" % role] = obs.get("open_%s_ok" % role, 0) + 1
    if case.get("damage"):
        used = bool(doc.xrefs) and type(doc.xrefs[0]).__name__ == "PDFXRefFallback"
        obs["fallback_xref_opens" if used else "fallback_xref_not_used"] = obs.get("fallback_xref_opens" if used else "fallback_xref_not_used", 0) + 1
    members = set(case["members"])

    # objects
    for n, want in sorted(case["objects"].items()):
        kind = "objstm_member" if n in members else "object"
        try:
            got = norm_pm(doc.getobj(n))
        except Exception as e:  # noqa: BLE001
            fails.append(("getobj:%s:%s" % (kind, _exc_key(e)), "%s objid=%d: %r" % (where, n, e)))
            continue
        ws = _strings_of(want)
        obs["strings_compared"] = obs.get("strings_compared", 0) + len(ws)
        if kind == "objstm_member":
            obs["objstm_members_compared"] = obs.get("objstm_members_compared", 0) + 1
        for _, s in ws:
            obs.setdefault("string_len", set()).add(min(len(s), 41))
        if got == want:
            continue
        gs = _strings_of(got)
        if [p for p, _ in gs] == [p for p, _ in ws]:
            bad = [(p, g, w) for (p, g), (_, w) in zip(gs, ws) if g != w]
            rest_equal = _strip_strings(got) == _strip_strings(want)
            if bad and rest_equal:
                if all(_is_padded(g, w) for _, g, w in bad):
                    fails.append(("string_pkcs_padding_kept:%s" % kind,
                                  "%s objid=%d %s: got %r want %r" % (where, n, bad[0][0], bad[0][1], bad[0][2])))
                else:
                    fails.append(("string_mismatch:%s" % kind,
                                  "%s objid=%d %s: got %r want %r" % (where, n, bad[0][0], bad[0][1], bad[0][2])))
                continue
        fails.append(("object_mismatch:%s" % kind, "%s objid=%d: got %s want %s" % (where, n, short(got, 500), short(want, 500))))

    # streams
    for n, w in sorted(case["streams"].items()):
        kind = w["kind"]
        try:
            st = doc.getobj(n)
            if not isinstance(st, PDFStream):
                fails.append(("stream_mismatch:not_a_stream", "%s objid=%d: %r" % (where, n, st)))
                continue
            attrs = norm_pm(st.attrs)
            data = st.get_data()
        except Exception as e:  # noqa: BLE001
            fails.append(("stream:%s:%s" % (kind, _exc_key(e)), "%s objid=%d: %r" % (where, n, e)))
            continue
        obs["streams_compared"] = obs.get("streams_compared", 0) + 1
        obs["streams_%s" % kind] = obs.get("streams_%s" % kind, 0) + 1
        obs.setdefault("stream_len", set()).add(len(w["data"]) if len(w["data"]) <= 65 else 99)
        if kind == "metadata" and not case["encrypt_metadata"]:
            obs["metadata_plain_checked"] = obs.get("metadata_plain_checked", 0) + 1
        if data != w["data"]:
            if _is_padded(data, w["data"]):
                fails.append(("stream_pkcs_padding_kept", "%s objid=%d kind=%s: got %r want %r" % (where, n, kind, short(data, 200), short(w["data"], 200))))
            else:
                fails.append(("stream_mismatch:%s" % kind, "%s objid=%d: got %r want %r" % (where, n, short(data, 200), short(w["data"], 200))))
        attrs.pop("Length", None)
        wa = dict(w["attrs"])
        wa.pop("Length", None)
        if attrs != wa:
            gs, ws = _strings_of(attrs), _strings_of(wa)
            if ws and [p for p, _ in gs] == [p for p, _ in ws] and _strip_strings(attrs) == _strip_strings(wa):
                obs["streamdict_strings_compared"] = obs.get("streamdict_strings_compared", 0) + len(ws)
                bad = [(p, g, w_) for (p, g), (_, w_) in zip(gs, ws) if g != w_]
                fails.append(("string_mismatch:stream_dict", "%s objid=%d %s: got %r want %r" % (where, n, bad[0][0], bad[0][1], bad[0][2])))
            else:
                fails.append(("stream_dict_mismatch:%s" % kind, "%s objid=%d: got %s want %s" % (where, n, short(attrs, 400), short(wa, 400))))
        elif _strings_of(wa):
            obs["streamdict_strings_compared"] = obs.get("streamdict_strings_compared", 0) + len(_strings_of(wa))

    # trailer, Encrypt dictionary, cross-reference stream dictionary: after everything was fetched
    try:
        if case["xref_objnum"] is not None:
            xs = doc.getobj(case["xref_objnum"])
            if case["id"] is not None:
                got = norm_pm(xs.attrs.get("ID")) if isinstance(xs, PDFStream) else ("?", repr(xs))
                obs["xrefstream_dict_checked"] = obs.get("xrefstream_dict_checked", 0) + 1
                if got != [("s", case["id"][0]), ("s", case["id"][1])]:
                    fails.append(("xref_stream_dict_deciphered", "%s: ID in getobj(xref stream) = %r want %r" % (where, got, case["id"])))
        tr = doc.xrefs[0].get_trailer()
        got = norm_pm(tr.get("ID")) if "ID" in tr else None
        want = None if case["id"] is None else [("s", case["id"][0]), ("s", case["id"][1])]
        obs["trailer_id_checked"] = obs.get("trailer_id_checked", 0) + 1
        if got != want:
            fails.append(("trailer_id_changed", "%s: trailer ID %r want %r" % (where, got, want)))
        if case["enc_objnum"] is not None and case["caching"]:
            ed = doc.getobj(case["enc_objnum"])
            obs["encrypt_dict_checked"] = obs.get("encrypt_dict_checked", 0) + 1
            if not isinstance(ed, dict) or ed.get("O") != case["enc_O"] or ed.get("U") != case["enc_U"]:
                fails.append(("encrypt_dict_deciphered", "%s: getobj(Encrypt) = %s" % (where, short(ed, 400))))
    except Exception as e:  # noqa: BLE001
        fails.append(("trailer_check:%s" % _exc_key(e), "%s: %r" % (where, e)))

    # permissions
    P = case["P"] & 0xFFFFFFFF
    for name, bit in (("is_printable", 3), ("is_modifiable", 4), ("is_extractable", 5)):
        want_b = bool(P >> (bit - 1) & 1)
        got_b = getattr(doc, name)
        obs["perms_checked"] = obs.get("perms_checked", 0) + 1
        if got_b is not want_b:
            fails.append(("permission:%s" % name, "%s: P=%d %s=%r want %r" % (where, case["P"], name, got_b, want_b)))
    obs.setdefault("perm_bits", set()).add((P >> 2) & 7)

    # text
    try:
        if "twin_text" not in case:
            case["twin_text"] = _extract_text(case["twin"], "")
        txt = _extract_text(case["pdf"], pw)
        obs["text_compared"] = obs.get("text_compared", 0) + 1
        obs["text_lines"] = obs.get("text_lines", 0) + case["twin_text"].count("d%d_%d_%d" % tuple(case["gen"]))
        if txt != case["twin_text"]:
            fails.append(("extract_text_mismatch", "%s: got %r want %r" % (where, short(txt, 300), short(case["twin_text"], 300))))
    except Exception as e:  # noqa: BLE001
        fails.append(("extract_text:%s" % _exc_key(e), "%s: %r" % (where, e)))
    return fails


def _strip_strings(x: Any) -> Any:
    if isinstance(x, tuple) and len(x) == 2 and x[0] == "s":
        return ("s",)
    if isinstance(x, list):
        return [_strip_strings(v) for v in x]
    if isinstance(x, dict):
        return {k: _strip_strings(v) for k, v in x.items()}
    return x


def check_wrong(case: Dict[str, Any], cat: str, pw: str, obs: Dict[str, Any]) -> List[Tuple[str, str]]:
    from pdfminer.pdfdocument import PDFPasswordIncorrect

    where = "cfg=%s wrong password (%s) %r gen=%s valid=%r" % (case["cfg"], cat, pw, case["gen"], case["valid"])
    try:
        _open(case["pdf"], pw, True)
    except PDFPasswordIncorrect as e:
        if type(e) is PDFPasswordIncorrect:
            obs["wrong_rejected"] = obs.get("wrong_rejected", 0) + 1
            obs["wrong_rejected:%s" % cat] = obs.get("wrong_rejected:%s" % cat, 0) + 1
            return []
        return [("wrong_password_exception:%s" % _exc_key(e), "%s: %r" % (where, e))]
    except Exception as e:  # noqa: BLE001
        return [("wrong_password_exception:%s" % _exc_key(e), "%s: %r" % (where, e))]
    return [("wrong_password_accepted", where)]


def check_case(case: Dict[str, Any], obs: Optional[Dict[str, Any]] = None,
               attempts: Optional[List[Tuple[str, List[Tuple[str, str]]]]] = None) -> List[Tuple[str, str]]:
    """All monitors on one document; `attempts` (if given) receives (password, fails) per attempt."""
    obs = obs if obs is not None else {}
    fails: List[Tuple[str, str]] = []
    tag = case.get("tag")
    for role, pw in case["valid"]:
        f = check_valid(case, role, pw, obs)
        if tag == TAG_STREAMDICT and f and all(k == "string_mismatch:stream_dict" for k, _ in f):
            f = [(TAG_STREAMDICT, f[0][1])]
        elif tag == TAG_IDDEFAULT and f and all(k.startswith("open_valid_password:") for k, _ in f):
            f = [(TAG_IDDEFAULT, f[0][1])]
        elif tag == TAG_SASLMAP and role == "user" and f and all(k.startswith("open_valid_password:") for k, _ in f):
            f = [(TAG_SASLMAP, f[0][1])]
        if case.get("damage"):
            f = [(k if k in TAGS else k + "@rebuilt_xref", d) for k, d in f]
        if attempts is not None:
            attempts.append((pw, f))
        fails += f
    if tag == TAG_IDDEFAULT and case["valid"] and fails and all(k == TAG_IDDEFAULT for k, _ in fails):
        return fails                 # the document cannot be opened at all: other passwords cannot be judged
    for cat, pw in case["wrong"]:
        f = check_wrong(case, cat, pw, obs)
        if tag == TAG_UNPREP and cat == "unpreparable" and f and all(k.startswith("wrong_password_exception:PDFValueError") for k, _ in f):
            f = [(TAG_UNPREP, f[0][1])]
        if attempts is not None:
            attempts.append((pw, f))
        fails += f
    return fails


def _slim(case: Dict[str, Any]) -> Dict[str, Any]:
    c = dict(case)
    c.pop("twin_text", None)
    return c


# --------------------------------------------------------------------------
# self-test of the reference against third-party files
# --------------------------------------------------------------------------
def selftest(rec) -> None:
    """samples/encryption/*.pdf were written by other software: the reference key derivation must
    reproduce their U (and O) values and the file key.  Only the Encrypt dictionary is read through pdfminer."""
    import glob
    import os

    from vf import REPO

    pws = {"aes-256-r6.pdf": ["usersecret", "ownersecret"], "encrypted_doc_no_id.pdf": [""]}
    for f in sorted(glob.glob(os.path.join(REPO, "samples", "encryption", "*.pdf"))):
        name = os.path.basename(f)
        if name == "base.pdf":
            continue
        for pw in pws.get(name, ["foo"]):
            try:
                from pdfminer.pdfdocument import PDFDocument
                from pdfminer.pdfparser import PDFParser
                from pdfminer.pdftypes import resolve1

                with open(f, "rb") as fh:
                    doc = PDFDocument(PDFParser(io.BytesIO(fh.read())), password=pw)
                ids, p = doc.encryption  # type: ignore[misc]
                p = {k: resolve1(v) for k, v in p.items()}
            except Exception as e:  # noqa: BLE001
                rec.count("ref_selftest_unreadable")
                rec.see("ref_selftest_error", "%s: %r" % (name, e))
                continue
            V, R, P, O, U = p["V"], p["R"], p["P"], p["O"], p["U"]
            em = bool(p.get("EncryptMetadata", True))
            ok = False
            if R <= 4:
                n = 5 if V == 1 else (p.get("Length", 40) // 8 if V == 2 else 16)
                b = pw.encode("latin-1")
                # as user
                key = C.alg2_key(b, O, P, ids[0], R, n, em)
                u = C.alg4_U(key) if R == 2 else C.alg5_U(key, ids[0], b"\0" * 16)
                ok = u == U if R == 2 else u[:16] == U[:16]
                if not ok:
                    # as owner: undo Algorithm 3 to get the padded user password, then redo Algorithms 2-5 and 3
                    d = C.md5(C.pad32(b))
                    if R >= 3:
                        for _ in range(50):
                            d = C.md5(d)
                    k = d[:n]
                    up = O
                    if R == 2:
                        up = C.rc4(k, up)
                    else:
                        for i in range(19, -1, -1):
                            up = C.rc4(bytes(x ^ i for x in k), up)
                    key = C.alg2_key(up, O, P, ids[0], R, n, em)
                    u = C.alg4_U(key) if R == 2 else C.alg5_U(key, ids[0], b"\0" * 16)
                    ok = (u == U if R == 2 else u[:16] == U[:16])
                    user_pw = up[: up.index(C.PAD[:4])] if C.PAD[:4] in up else up
                    ok = ok and C.alg3_O(b, user_pw, R, n) == O
            else:
                H = C.hash_2B if R == 6 else C.hash_r5
                b = C.prep_utf8(pw)
                if H(b, U[32:40]) == U[:32]:
                    key = C.aes_cbc_decrypt(H(b, U[40:48]), b"\0" * 16, p["UE"])
                    ok = C.alg8_U_UE(b, key, U[32:40], U[40:48], R) == (U[:48], p["UE"])
                elif H(b, O[32:40], U[:48]) == O[:32]:
                    key = C.aes_cbc_decrypt(H(b, O[40:48], U[:48]), b"\0" * 16, p["OE"])
                    ok = C.alg9_O_OE(b, key, O[32:40], O[40:48], U[:48], R) == (O[:48], p["OE"])
                if ok:
                    perms = aes_ecb_decrypt(key, p["Perms"])
                    ok = C.alg10_perms(P, em, key, perms[12:16]) == p["Perms"]
            rec.count("ref_selftest_agree" if ok else "ref_selftest_disagree")
            rec.see("ref_selftest_files", "%s/%s:%s" % (name, pw, "agree" if ok else "DISAGREE"))
            if not ok:
                rec.inconclusive("reference encryptor disagrees with sample %s" % name)


def aes_ecb_decrypt(key: bytes, data: bytes) -> bytes:
    from cryptography.hazmat.primitives.ciphers import Cipher, algorithms, modes

    d = Cipher(algorithms.AES(key), modes.ECB()).decryptor()
    return d.update(data) + d.finalize()


# --------------------------------------------------------------------------
def run_shard(spec: Dict[str, Any], rec) -> None:
    if spec["kind"] == "selftest":
        selftest(rec)
        return
    for j in range(spec["n"]):
        case = gen_case(spec["seed"], spec["sub"], j, spec["tier"])
        obs: Dict[str, Any] = {}
        attempts: List[Tuple[str, List[Tuple[str, str]]]] = []
        check_case(case, obs, attempts)
        feat = case["features"]
        rec.count("docs")
        rec.count("docs:%s" % case["cfg"])
        rec.see("config", case["cfg"])
        if case["tag"]:
            rec.count("tagged:%s" % case["tag"])
        rec.see("user_pw_category", feat["ucat"])
        rec.see("owner_pw_category", feat["ocat"])
        rec.see("id_mode", feat["id_mode"])
        rec.see("xref_kind", feat["xref_kind"])
        rec.see("builder", feat["builder"])
        rec.count("id_mode:%s" % feat["id_mode"])
        rec.count("xref:%s" % feat["xref_kind"])
        rec.count("large_objnum_objects", len(feat["objnums_large"]))
        rec.count("nonzero_gen_objects", feat["n_gen_objects"])
        for g in feat["gens"]:
            rec.see("generations", g)
        for n in feat["objnums_large"]:
            if n in LARGE_OBJNUMS:
                rec.see("large_objnums", n)
        if feat["encrypt_direct"]:
            rec.count("encrypt_dict_direct")
        if feat["damage"]:
            rec.count("damaged_xref_docs")
            rec.see("damage_mode", feat["damage"])
            if feat["per_object_key"] and feat["n_gen_objects"]:
                rec.count("damaged_xref_docs:per_object_key_with_gen")
                if feat["gen_content_or_info"]:
                    rec.count("damaged_xref_docs:per_object_key_with_gen_on_content_or_info")
        elif feat["gen_content_or_info"]:
            rec.count("intact_docs_with_gen_on_content_or_info")
        if feat["w3"] is not None:
            rec.count("xref_w3:%d" % feat["w3"])
            rec.see("xref_W", "%d %d %d" % tuple(feat["W"]))
            if feat["per_object_key"]:
                rec.count("xref_w3:%d:per_object_key_docs" % feat["w3"])
                if feat["n_gen_objects"]:
                    rec.count("xref_w3:%d:per_object_key_docs_with_gen" % feat["w3"])
        rec.count("encrypt_length:%s:%s" % (case["cfg"][:2], "written" if feat["length_written"] else "absent"))
        if not case["caching"]:
            rec.count("caching_off_docs")
        for k, v in obs.items():
            if isinstance(v, set):
                for x in v:
                    rec.see(k, x)
            else:
                rec.count(k, v)
        nvalid = len(case["valid"])
        for i, (pw, f) in enumerate(attempts):
            nontrivial = feat["really_encrypted"] if i < nvalid else True
            rec.case(chash(case["pdf"], pw), nontrivial)
            for key, detail in f:
                c = _slim(case)
                # keep only the failing attempt so that the replay shows exactly this mechanism
                if i < nvalid:
                    c["valid"] = [case["valid"][i]]
                    c["wrong"] = []
                else:
                    c["valid"] = []
                    c["wrong"] = [case["wrong"][i - nvalid]]
                rec.fail(key, c, detail)
        if rec.want_sample() and j % 7 == 3:
            rec.sample({"gen": case["gen"], "cfg": case["cfg"], "tag": case["tag"], "features": feat,
                        "valid": case["valid"], "wrong": case["wrong"], "P": case["P"], "pdf_bytes": len(case["pdf"]),
                        "n_objects": len(case["objects"]), "n_streams": len(case["streams"])})


def replay(case: Dict[str, Any]) -> List[Tuple[str, str]]:
    case = dict(case)
    case["valid"] = [tuple(v) for v in case["valid"]]
    case["wrong"] = [tuple(v) for v in case["wrong"]]
    return check_case(case)
