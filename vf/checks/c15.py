"""C15 — filesystem confinement.

Whatever names and strings a document contains, processing it opens no file
other than the input and the character-map resources inside the library's own
resource directories; with image export enabled it creates files only inside
the chosen output directory and never overwrites an existing file.

Monitors (two, independent):
  * an interpreter audit hook (vf.ref.c15mon.AuditMonitor) records every `open`
    (path, mode, flags, did-the-path-exist, realpath), os.mkdir, directory
    listing and every renaming/removing/linking/spawning event raised WHILE
    extract_text_to_fp runs; vf.ref.c15mon.Policy classifies each one against
    the property (reads: realpath inside a resource directory; writes: realpath
    inside realpath(output_dir) and the path did not exist);
  * a snapshot of a private scratch tree (content hashes) taken before and after
    the call: new entries must lie inside the output directory, no pre-existing
    entry (decoys, sentinels named like the images a document would produce) may
    change or disappear; the library's cmap directory must be unchanged.

Workload: generated documents (vf.gen.pdfw) in which exactly ONE document field
(the slot) carries a hostile string and everything else is benign, plus control
documents without any hostile string (so the hook is seen to observe the
legitimate opens and creations).  Decoys are planted where the hostile strings
point, because a traversal only becomes an `open` when the target exists.
"""
from __future__ import annotations

import atexit
import contextlib
import gzip
import io
import os
import pickle
import random
import shutil
import tempfile
import unicodedata
import warnings
import zlib
from typing import Any, Dict, List, Optional, Tuple

from vf import REPO
from vf.common import chash
from vf.gen.pdfw import Doc, N, Name, Raw, Stream, font_widths, page_doc, ser_name, ser_string
from vf.ref.c15mon import AuditMonitor, Policy, diff_snapshots, dir_signature, inside, snapshot

ID = "C15"
LEVEL = "exploration"
DESIGN_REF = "DESIGN.md#C15"
TECHNIQUE = ("runtime monitoring: interpreter audit hook + before/after snapshot of a private scratch tree with planted "
             "decoys and sentinels; path policy written from the property statement")
RULE = (
    "documents with a Type0 font, a simple font with ToUnicode, and 1-3 images (XObject, inside a form, inline); exactly one "
    "slot (Encoding name, CMapName of an Encoding stream/dict, usecmap operand in a CID/simple ToUnicode stream as name, "
    "string or raw PostScript, usecmap in an Encoding stream, Registry, Ordering, BaseFont/FontName, image /Name entry, "
    "inline /CS name, form XObject name, image XObject name, image name inside a form) carries a hostile string: absolute "
    "paths, ../ chains (#2F-escaped in names), .pickle.gz suffixes, NULs (also NULs that only produce '..' once stripped), "
    "300-byte names, names of existing files (also symbolic links, dangling or not), '.', '..', empty, doubled separators, "
    "compatibility forms that Unicode normalisation turns into separators or dots (U+FF0F, U+FF3C, U+FF1A, U+FF0E, U+2024, U+FE52), "
    "'....//' (a '../' left behind by a one-pass filter), prefix-confusion siblings (<dir>_evil), traversals that stay inside one "
    "allowed directory but leave the other (sibling of CMAP_PATH named like the bundled cmap directory, and the converse), "
    "Windows separators, ~ and $VAR, non-UTF-8 bytes; enumerated over output types text/xml/html and output-directory "
    "modes (absolute, relative, odd spelling, symlinked, not yet existing, none), CMAP_PATH set/unset/mirror and with an empty "
    "os.pathsep component; the same image-name strings as /F and /UF of Filespecs extracted by tools/dumppdf.py -E; plus seeded random "
    "strings built from the same fragments and random slot/image-kind/xref combinations; control documents carry no hostile "
    "string. distinct = distinct (slot, string template, output type, output mode, env mode, variant); non-trivial = the "
    "slot string is hostile (not a control)."
)
LEVEL_TEXT = (
    "Every generated document is processed by the real extract_text_to_fp while every file-system audit event of the "
    "interpreter is recorded and judged against the property; a before/after snapshot of the scratch tree confirms the "
    "effects independently. Exploration of a finite, hand-chosen and seeded-random family of hostile strings over all "
    "document fields that reach a path computation; not a proof for all strings."
)
ASSUMPTIONS = [
    "CPython raises the audit events open / os.mkdir / os.rename / os.remove / ... for every way Python code can touch the "
    "file system (PEP 578 audit table); C extensions that bypass it are not used by pdfminer (pure Python)",
    "os.path.realpath and os.path.lexists evaluated inside the hook (before the system call) describe the path the call will act on "
    "(no concurrent modification of the private scratch tree)",
    "read-only opens and directory listings made by the import system (a frame of importlib on the stack) are not document-steered; "
    "all pdfminer modules are imported and one extraction per output type is run before monitoring starts",
    "existence probes (os.stat / os.path.exists) are not opens and are not judged; decoys are planted so that a probe that would "
    "lead to an open does lead to one",
    "Pillow is not installed in the venv: image kinds that need it raise ImportError after the output file was opened (the open is judged)",
]
SHARD_TIMEOUT = {"quick": 600, "thorough": 5400}

LIB_DIR = os.path.join(REPO, "pdfminer") + os.sep
LIB_CMAP_DIR = os.path.realpath(os.path.join(REPO, "pdfminer", "cmap"))
DEFAULT_ENV_CMAP_DIR = "/usr/share/pdfminer/"   # the documented default of CMAP_PATH

MON = AuditMonitor(LIB_DIR)

# --------------------------------------------------------------------------
# decoy / resource payloads (plain data, nothing executable)
# --------------------------------------------------------------------------
DECOY_MARK = "DECOYED"
DECOY_DATA = {
    "IS_VERTICAL": False,
    "CODE2CID": {0x41: 4242, 0x81: {0x40: 4242}},
    "CID2UNICHR_H": {cid: DECOY_MARK for cid in range(1000)},
    "CID2UNICHR_V": {cid: DECOY_MARK for cid in range(1000)},
}
CUSTOM_CMAP = {"IS_VERTICAL": False, "CODE2CID": {0x41: 65, 0x42: 66, 0x81: {0x40: 67}}}
CUSTOM_UMAP = {"CID2UNICHR_H": {65: "a", 66: "b", 67: "c"}, "CID2UNICHR_V": {65: "a", 66: "b", 67: "c"}}


def _gz(obj: Any) -> bytes:
    return gzip.compress(pickle.dumps(obj, 2), mtime=0)


_DECOY_GZ = _gz(DECOY_DATA)
_CUSTOM_CMAP_GZ = _gz(CUSTOM_CMAP)
_CUSTOM_UMAP_GZ = _gz(CUSTOM_UMAP)

DECOY_BASES = ["decoy", "decoy.pickle.gz", "decoy ", "dec\u00f6y"]
DECOY_SUFFIXES = ["", "-x", "-Japan1"]
IMAGE_EXTS = [".bmp", ".jpg", ".jb2", ".4.2x2.img", ".8.2x2.img"]
UPS = 6          # deepest ../ chain generated for image names
OUT_DEPTH = 8    # directory levels between the scratch root and the output directory

OTYPES = ["text", "xml", "html"]
OUTMODES = ["abs", "rel", "odd", "link", "missing", "none"]

# --------------------------------------------------------------------------
# hostile strings.  (tag, template); placeholders are substituted per run:
#   @DECOY@   absolute path of <root>/res/decoys/decoy (no suffix)
#   @REL_LIB@ the same file relative to <repo>/pdfminer/cmap
#   @RELX@    16 x "../" followed by the absolute path without its leading "/"
#   @ROOT@    the scratch root;  @ABS@ an existing directory deep inside it
#   @OUTBASE@ last component of output_dir as passed
#   @REL_LIB_M@ a second decoy (<root>/res/decoys/m/1/2/3/decoy) relative to <repo>/pdfminer/cmap
#   @LIBBASE@ / @ENVBASE@ last component of the bundled cmap directory / of the CMAP_PATH directory
# --------------------------------------------------------------------------
READ_STRINGS: List[Tuple[str, bytes]] = [
    ("abs", b"@DECOY@"),
    ("abs_suffix", b"@DECOY@.pickle.gz"),
    ("abs_dslash", b"/@DECOY@"),
    ("rel_lib", b"@REL_LIB@"),
    ("rel_pad", b"@RELX@"),
    ("rel_env", b"../decoys/decoy"),
    ("rel_env_dot", b"./../decoys/decoy"),
    ("rel_env_dslash", b".//..//decoys//decoy"),
    ("nested_dotdot", b"....//decoys/decoy"),          # "../decoys/decoy" once a filter has removed "../"
    ("rel_env_sub", b"to-unicode-vf/../../decoys/decoy"),
    ("rel_env_missing_component", b"nonexistent/../../decoys/decoy"),
    ("nul_in_chain", b"..\x00/decoys/decoy"),
    ("nul_makes_dotdot", b".\x00./decoys/decoy"),
    ("nul_tail", b"../decoys\x00/decoy\x00"),
    ("prefix_confusion", b"../cmapenv_evil/decoy"),
    ("long_300", b"A" * 300),
    ("long_chain", b"./" * 140 + b"../decoys/decoy"),
    ("existing_file", b"90ms-RKSJ-H.pickle.gz"),
    ("existing_umap_as_cmap", b"to-unicode-Adobe-Japan1"),
    # inside one allowed directory, outside the other: <CMAP_PATH>/../<basename of the bundled directory>/ is a planted
    # sibling holding decoys (one named like a real CMap), so a confinement test made against the wrong directory opens it
    ("sibling_named_like_lib_dir", b"../@LIBBASE@/decoy"),
    ("sibling_named_like_lib_dir_real_name", b"../@LIBBASE@/90ms-RKSJ-H"),
    ("sibling_named_like_lib_dir_dot", b"./../@LIBBASE@/./decoy"),
    # the converse (inside CMAP_PATH, outside the bundled directory); its target <repo>/pdfminer/<basename of CMAP_PATH>/ is never
    # created (nothing is written into the repository), so only an attempted open there would be seen
    ("sibling_named_like_env_dir", b"../@ENVBASE@/VF-Custom-H"),
    ("sibling_named_like_env_dir_decoy", b"../@ENVBASE@/decoy"),
    # reachable converse: with CMAP_PATH = <root>/mirror/<first components of the decoy path> (env mode "mirror") this name stays
    # inside CMAP_PATH (where nothing has that name) but from the bundled directory it leads to a decoy outside both
    ("mirror_inside_env_outside_lib", b"@REL_LIB_M@"),
    # harmless pickles planted under these names in the working directory (and its sub/): nothing may make the working
    # directory a resource directory, in particular not an unset CMAP_PATH
    ("cwd_file", b"Planted"),
    ("cwd_file_dot", b"./Planted"),
    ("cwd_sub_file", b"sub/Planted"),
    # the CMAP_PATH directory holds a symbolic link "vendor" to a directory outside it and a linked file; the files that
    # these names resolve to (real path) are planted outside every resource directory
    ("env_dirlink", b"vendor/EvilA"),
    ("env_dirlink_nested", b"vendor/deep/EvilB"),
    ("env_dirlink_up", b"vendor/../EvilC"),
    ("env_dirlink_dot", b"./vendor/./EvilA"),
    ("env_filelink", b"LinkedFile"),
    ("dot", b"."),
    ("dotdot", b".."),
    ("empty", b""),
    ("slash", b"/"),
    ("dotdot_slash", b"../"),
    ("win_rel", b"..\\decoys\\decoy"),
    ("win_abs", b"C:\\decoys\\decoy"),
    ("win_unc", b"\\\\host\\share\\decoy"),
    ("tilde", b"~/decoy"),
    ("envvar", b"$HOME/decoy"),
    ("url", b"file://@DECOY@"),
    ("space", b"../decoys/decoy "),
    ("utf8", "../decoys/dec\u00f6y".encode("utf-8")),
    ("not_utf8", b"../decoys/dec\xf6y"),
    ("etc_passwd", b"/etc/passwd"),
    ("proc_environ", b"../../../../../../../../proc/self/environ"),
    ("percent", b"..%2F..%2Fdecoys%2Fdecoy"),
]
REACHABLE_READ_TAGS = {
    "abs", "abs_suffix", "abs_dslash", "rel_lib", "rel_pad", "rel_env", "rel_env_dot", "rel_env_dslash", "nested_dotdot",
    "rel_env_sub", "nul_in_chain", "nul_makes_dotdot", "nul_tail", "prefix_confusion", "sibling_named_like_lib_dir",
    "sibling_named_like_lib_dir_real_name", "sibling_named_like_lib_dir_dot", "sibling_named_like_env_dir",
    "sibling_named_like_env_dir_decoy", "mirror_inside_env_outside_lib",
}
CWD_TAGS = ["cwd_file", "cwd_file_dot", "cwd_sub_file"]
LINK_TAGS = ["env_dirlink", "env_dirlink_nested", "env_dirlink_up", "env_dirlink_dot", "env_filelink"]
READ_CONTROLS: List[Tuple[str, bytes]] = [
    ("ctl_90ms", b"90ms-RKSJ-H"), ("ctl_unijis", b"UniJIS-UCS2-H"), ("ctl_identity", b"Identity-H"),
    ("ctl_env_custom", b"VF-Custom-H"), ("ctl_H", b"H"), ("ctl_gbk", b"GBK-EUC-H"), ("ctl_unknown", b"NoSuchCMap-H"),
]

WRITE_STRINGS: List[Tuple[str, bytes]] = (
    [("up%d" % k, b"../" * k + b"escaped") for k in range(1, UPS + 1)]
    + [
        ("up_dot", b"./../escaped"),
        ("up_via_sub", b"sub/../../escaped"),
        ("up_via_missing", b"nosub/../../escaped"),
        ("up_dslash", b"..//..//escaped"),
        ("nested_dotdot", b"....//....//escaped"),      # "../../escaped" once a filter has removed "../"
        ("nested_dotdot_abs", b"/@ABS@/....//escaped"),
        ("abs", b"@ABS@/escaped"),
        ("abs_nodir", b"@ROOT@/nodir/escaped"),
        ("abs_dslash", b"/@ABS@/escaped"),
        ("prefix_confusion", b"../@OUTBASE@_evil/img"),
        ("into_sub", b"sub/img"),
        ("into_missing_sub", b"nosub/img"),
        ("victim_up", b"../victim"),
        ("victim_abs", b"@ABS@/victim"),
        ("existing", b"Im0"),
        ("existing_with_ext", b"Im0.bmp"),
        ("existing_first_alt", b"Im0.0"),
        ("existing_dangling_link", b"Lnk1"),     # <outdir>/Lnk1<ext> is a symbolic link to a missing file outside
        ("existing_link_to_victim", b"Lnk2"),
        # <outdir>/Pre_1<ext> exists: these names equal it only once separators, colon or NUL have become "_"
        ("sanitised_name_exists_colon", b"Pre:1"),
        ("sanitised_name_exists_slash", b"Pre/1"),
        ("sanitised_name_exists_backslash", b"Pre\\1"),
        ("sanitised_name_exists_nul", b"Pre\x001"),    # <outdir>/Lnk2<ext> is a symbolic link to an existing file outside
        ("dot", b"."),
        ("dotdot", b".."),
        ("empty", b""),
        ("root_slash", b"@ROOT@/"),
        ("dotdot_slash", b"../"),
        ("dotdot_dotdot", b"../.."),
        ("nul", b"Im\x00x"),
        ("nul_in_chain", b"..\x00/escaped"),
        ("nul_makes_dotdot", b".\x00./escaped"),
        ("long_300", b"B" * 300),
        ("long_up", b"../" * 3 + b"C" * 200),
        ("win_rel", b"..\\..\\escaped"),
        ("win_abs", b"C:\\escaped"),
        ("tilde", b"~/escaped"),
        ("dash", b"-rf"),
        ("space", b"my image"),
        ("newline", b"a\nb"),
        ("utf8", "bild\u00e4".encode("utf-8")),
        ("not_utf8", b"../esc\xff"),
        ("percent", b"..%2Fescaped"),
        # compatibility forms of the separators and of the dot (UTF-8 in the name): Unicode normalisation NFKC/NFKD turns
        # U+FF0F into "/", U+FF3C into "\\", U+FF1A into ":", U+FF0E / U+2024 / U+FE52 into "."
        ("nfkc_solidus_up1", "..\uff0fescaped".encode()),
        ("nfkc_solidus_up2", "..\uff0f..\uff0fescaped".encode()),
        ("nfkc_solidus_up3", "..\uff0f..\uff0f..\uff0fescaped".encode()),
        ("nfkc_fullwidth_dots_up1", "\uff0e\uff0e\uff0fescaped".encode()),
        ("nfkc_fullwidth_dots_up3", ("\uff0e\uff0e\uff0f" * 3 + "escaped").encode()),
        ("nfkc_fullwidth_dots_real_slash", "\uff0e\uff0e/escaped".encode()),
        ("nfkc_dot_leader_up1", "\u2024\u2024\uff0fescaped".encode()),
        ("nfkc_small_full_stop_up1", "\ufe52\ufe52\uff0fescaped".encode()),
        ("nfkc_mixed_dots_up2", ".\uff0e\uff0f\u2024.\uff0fescaped".encode()),
        ("nfkc_solidus_abs", b"@ABS_FW@" + "\uff0fescaped".encode()),
        ("nfkc_solidus_victim", "..\uff0fvictim".encode()),
        ("nfkc_into_sub", "sub\uff0fimg".encode()),
        ("nfkc_reverse_solidus", "..\uff3c..\uff3cescaped".encode()),
        ("nfkc_colon", "C\uff1a\uff3cescaped".encode()),
        ("nfkc_division_slash", "..\u2215escaped".encode()),
        ("nfkc_fraction_slash", "..\u2044escaped".encode()),
    ]
)
WRITE_CONTROLS: List[Tuple[str, bytes]] = [("ctl_Im1", b"Im1"), ("ctl_Image7", b"Image7"), ("ctl_dotted", b"fig.a"), ("ctl_X", b"X")]

# two image names in one document that differ as written but may become the same file name once unsafe characters are
# replaced ("_" for / \\ : NUL) or only the last path component is kept; each pair is run in both orders
COLLIDING_PAIRS: List[Tuple[bytes, bytes]] = [
    (b"Im_1", b"Im:1"), (b"a_b", b"a/b"), (b"a_b", b"a\\b"), (b"x_y", b"x\x00y"), (b"p:q", b"p/q"), (b"p\\q", b"p\x00q"),
    (b"Img", b"sub/Img"), (b"Img", b"../Img"), (b".._e", b"../e"), (b"Pre_1", b"Pre:1"),
]
PAIR_KINDS = ["gray8", "rgb8", "bw1", "dct", "raw4", "cmyk8", "flate_gray8", "jbig2"]   # kinds whose export completes

READ_SLOTS = ["encoding_name", "cmapname_stream", "cmapname_dict", "usecmap_cid", "usecmap_simple", "usecmap_string",
              "usecmap_raw", "usecmap_encstream", "registry", "registry_sub", "ordering", "ordering_sub"]
NAME_SLOTS = ["basefont", "image_dict_name", "inline_cs", "form_name"]
WRITE_SLOTS = ["xobject_image", "form_inner_image"]
ALL_SLOTS = READ_SLOTS + NAME_SLOTS + WRITE_SLOTS
# dumppdf -E names a file "<6-digit object number>-<name>": the first component of <name> fuses with that prefix, so these
# spellings leave DIR with fewer "../" than an image name needs (when joined unreduced)
EMBED_STRINGS: List[Tuple[str, bytes]] = [
    ("embed_dot_up2", b"./../../escaped"),
    ("embed_dir_up2", b"a/../../escaped"),
    ("embed_dir_up3", b"a/b/../../../escaped"),
    ("embed_up3_existing", b"../../../000002-victim"),
    ("embed_dir_up2_existing", b"x/../../000002-victim"),
    ("embed_up_then_abs", b"../../..@ABS@/escaped"),
    ("embed_backslash_up", b"a\\..\\..\\escaped"),
]
EMBED_SLOTS = ["embedded_f", "embedded_uf", "embedded_uf_utf16"]   # enumerated only: tools/dumppdf.py extractembedded (-E DIR)
EMPTY_COMPONENT_ENVS = ["trail", "lead", "double"]                  # CMAP_PATH = "<dir>:", ":<dir>", "<dir>::/nonexistent"
PAIR_SLOT = "image_pair"
# enumerated only: the output directory already holds Run<ext> and Run.0<ext> .. Run.<n-1><ext>; one image named Run is exported.
# n ranges over bounds a maintainer might put on the search for an unused name; one image kind per exported extension.
NUMBERED_SLOT = "numbered_run"
NUMBERED_RUNS = [10, 100, 255, 256, 1000, 1001, 4096]
NUMBERED_GAP_RUNS = [0, 1, 2, 9, 10, 11]
NUMBERED_KINDS = [("gray8", ".bmp"), ("dct", ".jpg"), ("jbig2", ".jb2"), ("raw4", ".4.2x2.img"), ("cmyk8", ".8.2x2.img")]    # enumerated only: case["h"] and case["h2"] name two page-level images of the same kind

IMAGE_KINDS = ["gray8", "rgb8", "bw1", "dct", "raw4", "cmyk8", "flate_gray8", "flate_cmyk", "jbig2"]
BENIGN_ENC = [b"90ms-RKSJ-H", b"UniJIS-UCS2-H", b"VF-Custom-H", b"Identity-H", b"H", b"KSC-EUC-H"]
BENIGN_CSI = [(b"Adobe", b"Japan1"), (b"VF", b"Test"), (b"Adobe", b"Identity"), (b"Adobe", b"Korea1"), (b"Nobody", b"Nothing")]


def minimums(tier: str) -> Dict[str, int]:
    q = tier == "quick"
    return {
        "evaluations": 4400 if q else 125000,
        "distinct": 3800 if q else 100000,
        "legit_lib_cmap_opens": 2500 if q else 70000,
        "legit_env_cmap_opens": 500 if q else 15000,
        "images_created": 4000 if q else 100000,
        "mkdir_outdir_observed": 400 if q else 15000,
        "hook_selftests_passed": 32 if q else 80,
        "naive_read_hits": 200 if q else 3500,
        "naive_write_escapes": 200 if q else 2500,
        "hostile_image_name_runs_with_file_in_outdir": 400 if q else 8000,
        # the three families below are enumerated (seed-independent): CMAP_PATH unset with planted files in the working
        # directory, names routed through symbolic links inside CMAP_PATH, image names that collide after sanitising
        "cwd_family_runs": 60,
        "cwd_family_planted_file_reachable": 50,
        "link_family_runs": 80,
        "link_family_target_reachable": 80,
        "pair_family_runs": 100,
        "pair_family_two_files_created": 80,
        "sanitised_name_exists_runs": 30,
        # CMAP_PATH values with an empty component (one odd directory name for the library as it stands; never the cwd)
        "empty_component_family_runs": 45,
        "empty_component_family_planted_file_reachable": 40,
        # tools/dumppdf.py -E DIR on documents whose Filespecs carry hostile /F and /UF names
        "embed_family_runs": 190,
        "embed_family_runs_with_file_in_dir": 100,
        "embed_family_names_that_leave_dir_if_joined_unreduced": 45,
        "embed_input_reads_observed": 190,
        # every run of the numbered-files family must end with exactly one new file and no existing file opened for writing
        "numbered_run_family_runs": len(NUMBERED_RUNS) * len(NUMBERED_KINDS),
        "numbered_run_exactly_one_new_file": len(NUMBERED_RUNS) * len(NUMBERED_KINDS),
        "numbered_run_preexisting_files": sum(n + 1 for n in NUMBERED_RUNS) * len(NUMBERED_KINDS),
        "numbered_gap_family_runs": len(NUMBERED_GAP_RUNS) * len(NUMBERED_KINDS),
        "numbered_gap_three_new_files_at_the_free_numbers": len(NUMBERED_GAP_RUNS) * len(NUMBERED_KINDS),
        # names with compatibility forms of separators/dots, through the image slots and the dumppdf -E slots
        "nfkc_family_runs": 200,
        "nfkc_family_names_that_leave_dir_once_normalised": 100,
        "nfkc_family_runs_with_file_in_dir": 150,
        "seen:slots": len(ALL_SLOTS) + 3 + len(EMBED_SLOTS),
        "seen:otypes": 3,
        "seen:outmodes": len(OUTMODES),
        "seen:envmodes": 6,
        "seen:image_kinds": len(IMAGE_KINDS),
        "seen:read_tags": len(READ_STRINGS) + len(READ_CONTROLS),
        "seen:write_tags": len(WRITE_STRINGS) + len(WRITE_CONTROLS),
    }


# --------------------------------------------------------------------------
# shards
# --------------------------------------------------------------------------
def shards(tier: str, seed: int) -> List[Dict[str, Any]]:
    out: List[Dict[str, Any]] = []
    nenum = 16
    for i in range(nenum):
        out.append({"kind": "enum", "part": i, "of": nenum})
    nrand = 16 if tier == "quick" else 64
    per = 150 if tier == "quick" else 2000
    for k in range(nrand):
        out.append({"kind": "rand", "sub": k, "n": per})
    return out


def enum_cases() -> List[Dict[str, Any]]:
    """The deterministic part: every (slot, string) pair that makes sense, with
    output type / output mode / env mode / variant cycling so that each value
    occurs with each slot."""
    cases: List[Dict[str, Any]] = []
    i = 0

    def add(slot: str, tag: str, h: bytes, otype: Optional[str] = None, outmode: Optional[str] = None,
            env: Optional[str] = None, v: Optional[int] = None) -> None:
        nonlocal i
        cases.append({
            "slot": slot, "tag": tag, "h": h,
            "otype": otype or OTYPES[i % 3],
            "outmode": outmode or ("abs" if i % 2 == 0 else OUTMODES[(i // 2) % len(OUTMODES)]),
            "env": env or ("unset" if i % 7 == 3 else "set"),
            "v": i if v is None else v,
        })
        i += 1

    # read-type strings through every slot that feeds a resource lookup, and through the pure-name slots
    for slot in READ_SLOTS + ["basefont"]:
        for tag, h in READ_STRINGS + READ_CONTROLS:
            add(slot, tag, h)
    # the reachable traversals with every output type and with CMAP_PATH unset
    for slot in ["encoding_name", "cmapname_stream", "usecmap_cid", "usecmap_simple", "registry_sub", "ordering_sub"]:
        for tag, h in [x for x in READ_STRINGS if x[0] in REACHABLE_READ_TAGS]:
            for ot in OTYPES:
                add(slot, tag, h, otype=ot, env="set")
            add(slot, tag, h, env="unset")
    # CMAP_PATH pointing at the mirror directory: the name that is inside it but leads outside from the bundled directory
    for slot in ["encoding_name", "cmapname_stream", "cmapname_dict", "usecmap_cid", "usecmap_simple", "usecmap_string"]:
        for ot in OTYPES:
            add(slot, "mirror_inside_env_outside_lib", b"@REL_LIB_M@", otype=ot, env="mirror")
            add(slot, "abs", b"@DECOY@", otype=ot, env="mirror")
            add(slot, "ctl_env_custom", b"VF-Custom-H", otype=ot, env="mirror")
    # write-type strings through the slots that name an image, every output type, two image kinds each
    for slot in WRITE_SLOTS:
        for tag, h in WRITE_STRINGS + WRITE_CONTROLS:
            for ot in OTYPES:
                add(slot, tag, h, otype=ot, outmode="abs")
            for om in OUTMODES[1:]:
                add(slot, tag, h, outmode=om)
    for slot in NAME_SLOTS:
        for tag, h in WRITE_STRINGS + WRITE_CONTROLS:
            add(slot, tag, h)
    # cross: read strings as image names (e.g. absolute decoy path as a file name), write strings as cmap names
    for tag, h in READ_STRINGS:
        if tag not in ("etc_passwd", "proc_environ", "slash", "win_unc"):     # an image name must never point outside the scratch root
            add("xobject_image", tag, h, outmode="abs")
    for tag, h in WRITE_STRINGS:
        add("encoding_name", tag, h)
    # CMAP_PATH unset, planted files in the working directory (absolute and relative output directory: two different cwds)
    for slot in ["encoding_name", "cmapname_stream", "cmapname_dict", "usecmap_cid", "usecmap_simple", "usecmap_string",
                 "registry", "ordering"]:
        for tag in CWD_TAGS:
            for k, ot in enumerate(OTYPES):
                add(slot, tag, dict(READ_STRINGS)[tag], otype=ot, outmode=["abs", "rel", "none"][k], env="unset")
            add(slot, tag, dict(READ_STRINGS)[tag], outmode="rel", env="set")
    # CMAP_PATH with an empty component: still one (odd) directory name, and never the working directory
    for slot in ["encoding_name", "cmapname_stream", "usecmap_cid", "usecmap_simple", "registry", "ordering"]:
        for tag in CWD_TAGS:
            for k, em in enumerate(EMPTY_COMPONENT_ENVS):
                add(slot, tag, dict(READ_STRINGS)[tag], outmode=["abs", "rel", "none"][(k + len(cases)) % 3], env=em)
        for em in EMPTY_COMPONENT_ENVS:
            add(slot, "ctl_env_custom", b"VF-Custom-H", env=em)
            add(slot, "rel_env", b"../decoys/decoy", env=em)
    # embedded-file extraction of tools/dumppdf.py: every image-name string as /F, as /UF and as UTF-16BE /UF
    for slot in EMBED_SLOTS:
        for k, (tag, h) in enumerate(WRITE_STRINGS + WRITE_CONTROLS + EMBED_STRINGS):
            add(slot, tag, h, otype="text", outmode=["abs", "rel", "odd", "link", "missing", "abs"][k % 6], env="set")
        for tag, h in EMBED_STRINGS:
            add(slot, tag, h, otype="text", outmode="abs", env="set")
    # an output directory full of numbered files for the image's name
    for k, n in enumerate(NUMBERED_RUNS):
        for j, (kind, ext) in enumerate(NUMBERED_KINDS):
            add(NUMBERED_SLOT, "numbered_%d" % n, b"Run", otype=OTYPES[(k + j) % 3], outmode="abs", env="set", v=4 * (k + j))
            cases[-1].update({"n": n, "kind": kind, "ext": ext})
    # the same with a hole in the numbering: Run, Run.0 .. Run.(n-1) and Run.(n+1), Run.(n+3) exist, the name is painted three
    # times - every export has to find a free name of its own (n, n+2, n+4) and leave the existing files alone
    for k, n in enumerate(NUMBERED_GAP_RUNS):
        for j, (kind, ext) in enumerate(NUMBERED_KINDS):
            add(NUMBERED_SLOT, "numbered_gap_%d" % n, b"Run", otype=OTYPES[(k + j) % 3], outmode="abs", env="set", v=4 * (k + j))
            cases[-1].update({"n": n, "kind": kind, "ext": ext, "gap": True})
    # names routed through the symbolic links inside the CMAP_PATH directory
    for slot in ["encoding_name", "cmapname_stream", "cmapname_dict", "usecmap_cid", "usecmap_simple", "registry_sub",
                 "ordering_sub"]:
        for tag in LINK_TAGS:
            for ot in OTYPES:
                add(slot, tag, dict(READ_STRINGS)[tag], otype=ot, env="set")
    # pairs of image names that collide only after sanitising, both orders, every output type
    for a, b in COLLIDING_PAIRS:
        for first, second in ((a, b), (b, a)):
            for k, ot in enumerate(OTYPES):
                for om in ("abs", "link", "rel"):
                    add(PAIR_SLOT, "pair", first, otype=ot, outmode=om, env="set")
                    cases[-1]["h2"] = second
    # every image kind and output mode with controls; duplicates of one name within a document
    for k in range(len(IMAGE_KINDS) * len(OUTMODES) * 3):
        add("control", "ctl_images", b"", otype=OTYPES[k % 3], outmode=OUTMODES[(k // 3) % len(OUTMODES)], v=k)
    return cases


# --------------------------------------------------------------------------
# scratch tree
# --------------------------------------------------------------------------
class Scratch:
    """A private tree under the system temp directory.  One tree serves all output
    modes (built once per worker because directory removal is slow here); every
    run is preceded by a snapshot that must equal the pristine one."""

    def __init__(self) -> None:
        self.root = os.path.realpath(tempfile.mkdtemp(prefix="vfC15-"))
        r = self.root
        self.envdir = os.path.join(r, "res", "cmapenv")
        self.decoydir = os.path.join(r, "res", "decoys")
        self.evildir = os.path.join(r, "res", "cmapenv_evil")
        self.libtwin = os.path.join(r, "res", os.path.basename(LIB_CMAP_DIR))   # sibling of CMAP_PATH named like the bundled dir
        self.cwd = os.path.join(r, "c", *[str(k) for k in range(1, OUT_DEPTH - 1)], "cwd")
        self.work = os.path.join(r, "w", *[str(k) for k in range(1, OUT_DEPTH - 1)])
        self.physical_out = os.path.join(self.work, "out")
        self.decoy_files: List[str] = []
        self.absdir = os.path.join(r, "a", *[str(k) for k in range(1, OUT_DEPTH - 1)], "abs")
        for d in (self.envdir, self.decoydir, self.evildir, self.libtwin, self.cwd, self.physical_out, self.absdir):
            os.makedirs(d)
        # a configured resource directory with two legitimate custom maps and sub-directories
        self._w(os.path.join(self.envdir, "VF-Custom-H.pickle.gz"), _CUSTOM_CMAP_GZ)
        self._w(os.path.join(self.envdir, "to-unicode-VF-Test.pickle.gz"), _CUSTOM_UMAP_GZ)
        for sub in ("to-unicode-vf", "to-unicode-vf-"):
            os.mkdir(os.path.join(self.envdir, sub))
        for base in DECOY_BASES:
            for sfx in DECOY_SUFFIXES:
                p = os.path.join(self.decoydir, base + sfx + ".pickle.gz")
                self._w(p, _DECOY_GZ)
                self.decoy_files.append(p)
        for sfx in DECOY_SUFFIXES:
            for p in (os.path.join(self.evildir, "decoy" + sfx + ".pickle.gz"),
                      os.path.join(self.libtwin, "decoy" + sfx + ".pickle.gz"),
                      os.path.join(self.libtwin, "90ms-RKSJ-H" + sfx + ".pickle.gz")):
                self._w(p, _DECOY_GZ)
                self.decoy_files.append(p)
        self.decoy_base = os.path.join(self.decoydir, "decoy")
        self.inputdir = os.path.join(r, "in")        # where a document is put for tools that take a file name
        os.mkdir(self.inputdir)
        # planted in both working directories (self.cwd; self.work when output_dir is relative)
        self.cwd_decoys: List[str] = []
        for d in (self.cwd, self.work):
            os.makedirs(os.path.join(d, "sub"), exist_ok=True)
            for nm in ("Planted", "sub/Planted", "to-unicode-Planted-x", "to-unicode-Adobe-Planted",
                       "to-unicode-sub/Planted-x", "to-unicode-Adobe-sub/Planted"):
                p = os.path.join(d, nm + ".pickle.gz")
                os.makedirs(os.path.dirname(p), exist_ok=True)
                self._w(p, _DECOY_GZ)
                self.cwd_decoys.append(p)
        self.decoy_files.extend(self.cwd_decoys)
        # symbolic links inside the configured resource directory that lead out of it
        self.vendor = os.path.join(r, "res", "vendor_outside")
        os.makedirs(os.path.join(self.vendor, "deep"))
        os.symlink("../vendor_outside", os.path.join(self.envdir, "vendor"))
        os.symlink("../decoys/decoy.pickle.gz", os.path.join(self.envdir, "LinkedFile.pickle.gz"))
        os.symlink("../decoys/decoy-x.pickle.gz", os.path.join(self.envdir, "LinkedFile-x.pickle.gz"))
        self.link_decoys: List[str] = []
        for sfx in DECOY_SUFFIXES:
            for p in (os.path.join(self.vendor, "EvilA" + sfx + ".pickle.gz"),
                      os.path.join(self.vendor, "deep", "EvilB" + sfx + ".pickle.gz"),
                      os.path.join(r, "res", "EvilC" + sfx + ".pickle.gz")):
                self._w(p, _DECOY_GZ)
                self.link_decoys.append(p)
        self.decoy_files.extend(self.link_decoys)
        # "mirror" resource directory: <root>/mirror/<t1>/../<tu> where ../ x u + t1/t2/... is the way from the bundled
        # directory to a second decoy; that relative name, joined onto the mirror directory, stays inside it
        self.mdecoy_base = os.path.join(self.decoydir, "m", "1", "2", "3", "decoy")
        os.makedirs(os.path.dirname(self.mdecoy_base))
        for sfx in DECOY_SUFFIXES:
            p = self.mdecoy_base + sfx + ".pickle.gz"
            self._w(p, _DECOY_GZ)
            self.decoy_files.append(p)
        self.rel_lib_m = os.path.relpath(self.mdecoy_base, LIB_CMAP_DIR)
        parts = self.rel_lib_m.split(os.sep)
        ups = len([x for x in parts if x == ".."])
        tail = parts[ups:]
        self.mirror_env = self.envdir
        if 0 < ups < len(tail):
            self.mirror_env = os.path.join(r, "mirror", *tail[:ups])
            os.makedirs(self.mirror_env)
            self._w(os.path.join(self.mirror_env, "VF-Custom-H.pickle.gz"), _CUSTOM_CMAP_GZ)
            self._w(os.path.join(self.mirror_env, "to-unicode-VF-Test.pickle.gz"), _CUSTOM_UMAP_GZ)
        # sentinels: files named like the images a document would produce, in and next to the output directory
        os.symlink("out", os.path.join(self.work, "outlink"))
        self._w(os.path.join(self.absdir, "victim.bmp"), b"SENTINEL abs victim")
        self._w(os.path.join(self.absdir, "victim.jpg"), b"SENTINEL abs victim")
        os.mkdir(os.path.join(self.work, "out_evil"))
        os.mkdir(os.path.join(self.work, "outlink_evil"))
        for ext in IMAGE_EXTS:
            for nm in ("Im0", "Im0.0"):
                self._w(os.path.join(self.physical_out, nm + ext), b"SENTINEL " + (nm + ext).encode())
            self._w(os.path.join(self.work, "victim" + ext), b"SENTINEL next to outdir")
            os.symlink("../../dangling" + ext, os.path.join(self.physical_out, "Lnk1" + ext))
            os.symlink("../victim" + ext, os.path.join(self.physical_out, "Lnk2" + ext))
        self._w(os.path.join(self.physical_out, "Im0.bmp.bmp"), b"SENTINEL Im0.bmp.bmp")
        for nm in ("000002-Im0", "000002-b'Im0'", "000002-victim"):       # what dumppdf -E would name an embedded file
            self._w(os.path.join(self.physical_out, nm), b"SENTINEL " + nm.encode())
        self._w(os.path.join(self.work, "000002-victim"), b"SENTINEL next to DIR")
        for ext in IMAGE_EXTS:
            self._w(os.path.join(self.physical_out, "Pre_1" + ext), b"SENTINEL Pre_1" + ext.encode())
        os.mkdir(os.path.join(self.physical_out, "sub"))
        self._w(os.path.join(self.physical_out, "sub", "img.bmp"), b"SENTINEL sub/img.bmp")
        up = self.work
        for _ in range(2):
            up = os.path.dirname(up)
            self._w(os.path.join(up, "escaped.bmp"), b"SENTINEL escaped")
        self.pristine = snapshot(self.root)
        self.configure("abs", "set")

    def configure(self, outmode: str, env: str) -> None:
        self.outmode = outmode
        self.env = env
        self.run_cwd = self.cwd
        if outmode == "abs":
            self.output_dir: Optional[str] = self.physical_out
        elif outmode == "rel":
            self.output_dir = "out"
            self.run_cwd = self.work
        elif outmode == "odd":
            self.output_dir = self.work + "/./out//"
        elif outmode == "link":
            self.output_dir = os.path.join(self.work, "outlink")
        elif outmode == "missing":
            self.output_dir = os.path.join(self.physical_out, "new", "deep")
        else:
            self.output_dir = None
        if self.output_dir is None:
            self.eff_out: Optional[str] = None
            self.outbase = "out"
        else:
            full = self.output_dir if os.path.isabs(self.output_dir) else os.path.join(self.run_cwd, self.output_dir)
            self.eff_out = os.path.realpath(full)
            self.outbase = os.path.basename(self.output_dir.rstrip("/"))

    def restore(self, created: List[str], dirty: bool) -> bool:
        """Undo what a run created; -> False if the tree cannot be trusted any more."""
        if dirty:
            return False
        for p in sorted(created, key=len, reverse=True):
            if not inside(self.root, p) or p == self.root:
                return False
            try:
                if os.path.isdir(p) and not os.path.islink(p):
                    shutil.rmtree(p)
                else:
                    os.remove(p)
            except OSError:
                return False
        return True

    @staticmethod
    def _w(path: str, data: bytes) -> None:
        with open(path, "wb") as f:
            f.write(data)

    def subst(self, t: bytes) -> bytes:
        if b"@" not in t:
            return t
        dec = os.fsencode(self.decoy_base)
        t = t.replace(b"@DECOY@", dec)
        t = t.replace(b"@REL_LIB@", os.fsencode(os.path.relpath(self.decoy_base, LIB_CMAP_DIR)))
        t = t.replace(b"@RELX@", b"../" * 16 + dec.lstrip(b"/"))
        t = t.replace(b"@ROOT@", os.fsencode(self.root))
        t = t.replace(b"@ABS_FW@", os.fsencode(self.absdir).replace(b"/", "\uff0f".encode()))
        t = t.replace(b"@ABS@", os.fsencode(self.absdir))
        t = t.replace(b"@OUTBASE@", os.fsencode(self.outbase))
        t = t.replace(b"@REL_LIB_M@", os.fsencode(self.rel_lib_m))
        t = t.replace(b"@LIBBASE@", os.fsencode(os.path.basename(LIB_CMAP_DIR)))
        t = t.replace(b"@ENVBASE@", os.fsencode(os.path.basename(self.envdir)))
        return t

    def read_dirs(self) -> List[str]:
        v = self.env_path()
        if v is None:
            return [LIB_CMAP_DIR, DEFAULT_ENV_CMAP_DIR]
        # the value as one directory name (the library as it stands) and, generously, each non-empty os.pathsep component;
        # an EMPTY component is never a resource directory
        return [LIB_CMAP_DIR, v] + [c for c in v.split(os.pathsep) if c and c != v]

    def env_path(self) -> Optional[str]:
        """The value of CMAP_PATH for this run (None: unset)."""
        return {"set": self.envdir, "mirror": self.mirror_env, "trail": self.envdir + os.pathsep,
                "lead": os.pathsep + self.envdir,
                "double": self.envdir + os.pathsep * 2 + os.path.join(self.root, "nonexistent")}.get(self.env)

    def cleanup(self) -> None:
        shutil.rmtree(self.root, ignore_errors=True)


# --------------------------------------------------------------------------
# documents
# --------------------------------------------------------------------------
def _tounicode(usecmap: Optional[bytes], how: str = "name") -> bytes:
    if usecmap is None:
        use = b""
    elif how == "string":
        use = ser_string(usecmap) + b" usecmap\n"
    elif how == "raw":
        use = b"/" + usecmap + b" usecmap\n"
    else:
        use = ser_name(usecmap) + b" usecmap\n"
    return (b"/CIDInit /ProcSet findresource begin\n12 dict begin\nbegincmap\n"
            b"/CIDSystemInfo << /Registry (Adobe) /Ordering (UCS) /Supplement 0 >> def\n"
            b"/CMapName /Adobe-Identity-UCS def\n/CMapType 2 def\n" + use +
            b"1 begincodespacerange\n<00> <FFFF>\nendcodespacerange\n"
            b"2 beginbfchar\n<41> <0041>\n<8140> <3000>\nendbfchar\nendcmap\n"
            b"CMapName currentdict /CMap defineresource pop\nend\nend\n")


def _enc_cmap_stream(cmapname: bytes, usecmap: Optional[bytes]) -> Stream:
    use = (ser_name(usecmap) + b" usecmap\n") if usecmap is not None else b""
    body = (b"/CIDInit /ProcSet findresource begin\n12 dict begin\nbegincmap\n"
            b"/CIDSystemInfo << /Registry (Adobe) /Ordering (Japan1) /Supplement 0 >> def\n"
            b"/CMapName " + ser_name(cmapname) + b" def\n/CMapType 1 def\n" + use +
            b"1 begincodespacerange\n<00> <FF>\nendcodespacerange\n1 begincidrange\n<00> <FF> 0\nendcidrange\nendcmap\n"
            b"CMapName currentdict /CMap defineresource pop\nend\nend\n")
    return Stream({"Type": N("CMap"), "CMapName": Name(cmapname),
                   "CIDSystemInfo": {"Registry": b"Adobe", "Ordering": b"Japan1", "Supplement": 0}}, body)


def _image(kind: str, doc: Doc, dictname: Optional[bytes] = None) -> Stream:
    d: Dict[str, Any] = {"Type": N("XObject"), "Subtype": N("Image"), "Width": 2, "Height": 2, "BitsPerComponent": 8,
                         "ColorSpace": N("DeviceGray")}
    data = b"\x00\x80\xff\x10"
    if kind == "rgb8":
        d["ColorSpace"] = N("DeviceRGB")
        data = bytes(range(12))
    elif kind == "bw1":
        d.update({"Width": 8, "BitsPerComponent": 1})
        data = b"\xa5\x5a"
    elif kind == "dct":
        d["Filter"] = N("DCTDecode")
        d["ColorSpace"] = N("DeviceRGB")
        data = b"\xff\xd8\xff\xe0\x00\x10JFIF\x00not really a jpeg\xff\xd9"
    elif kind == "raw4":
        d["BitsPerComponent"] = 4
        data = b"\x12\x34"
    elif kind == "cmyk8":
        d["ColorSpace"] = N("DeviceCMYK")
        data = bytes(range(16))
    elif kind == "flate_gray8":
        d["Filter"] = N("FlateDecode")
        data = zlib.compress(data)
    elif kind == "flate_cmyk":
        d["ColorSpace"] = N("DeviceCMYK")
        d["Filter"] = N("FlateDecode")
        data = zlib.compress(bytes(range(16)))
    elif kind == "jbig2":
        d.update({"BitsPerComponent": 1, "Filter": N("JBIG2Decode"),
                  "DecodeParms": {"JBIG2Globals": doc.add(Stream({}, b""))}})
        # one page-information segment (type 48): number 0, no referred segments, page 1, 19 data bytes
        data = (b"\x00\x00\x00\x00" b"\x30" b"\x00" b"\x01" b"\x00\x00\x00\x13"
                b"\x00\x00\x00\x08\x00\x00\x00\x02" + b"\x00" * 11)
    if dictname is not None:
        d["Name"] = Name(dictname)
    return Stream(d, data)


def build_doc(case: Dict[str, Any], h: bytes) -> Tuple[bytes, Dict[str, Any]]:
    """Render the document of `case`; `h` is the materialised slot string.
    -> (file bytes, facts about it used for counters)."""
    slot = case["slot"]
    v = case["v"]
    doc = Doc()
    enc_name = BENIGN_ENC[v % len(BENIGN_ENC)]
    registry, ordering = BENIGN_CSI[(v // 2) % len(BENIGN_CSI)]
    base1, base2 = b"VF-Gothic", b"VF-Sans"
    cid_tounicode: Optional[bytes] = None
    simple_tounicode = _tounicode(None)
    encoding: Any = None

    if slot == "encoding_name":
        enc_name = h
    elif slot == "cmapname_stream":
        encoding = doc.add(_enc_cmap_stream(h, None))
    elif slot == "cmapname_dict":
        encoding = {"Type": N("CMap"), "CMapName": Name(h)}
    elif slot == "usecmap_encstream":
        encoding = doc.add(_enc_cmap_stream(b"VF-Embedded-H", h))
    elif slot == "usecmap_cid":
        cid_tounicode = _tounicode(h)
    elif slot == "usecmap_string":
        cid_tounicode = _tounicode(h, "string")
    elif slot == "usecmap_raw":
        cid_tounicode = _tounicode(h, "raw")
    elif slot == "usecmap_simple":
        simple_tounicode = _tounicode(h)
    elif slot == "registry":
        registry, ordering = h, b"x"
    elif slot == "registry_sub":      # "to-unicode-vf" is a directory of the configured resource directory
        registry, ordering = b"vf/../" + h, b"x"
    elif slot == "ordering":
        registry, ordering = b"Adobe", h
    elif slot == "ordering_sub":      # so is "to-unicode-vf-"
        registry, ordering = b"vf", b"/../" + h
    elif slot == "basefont":
        base1 = base2 = h
    if encoding is None:
        encoding = Name(enc_name)

    fd = {"Type": N("FontDescriptor"), "FontName": Name(base1), "Flags": 4, "FontBBox": [0, -200, 1000, 800],
          "ItalicAngle": 0, "Ascent": 800, "Descent": -200, "CapHeight": 800, "StemV": 80}
    cidfont = {"Type": N("Font"), "Subtype": N("CIDFontType2" if v % 2 else "CIDFontType0"), "BaseFont": Name(base1),
               "CIDSystemInfo": {"Registry": registry, "Ordering": ordering, "Supplement": 0}, "DW": 1000,
               "FontDescriptor": doc.add(fd) if v % 3 else fd}
    f1: Dict[str, Any] = {"Type": N("Font"), "Subtype": N("Type0"), "BaseFont": Name(base1), "Encoding": encoding,
                          "DescendantFonts": [doc.add(cidfont)]}
    if cid_tounicode is not None:
        f1["ToUnicode"] = doc.add(Stream({}, cid_tounicode))
    f2 = font_widths(name="VF", subtype="TrueType" if v % 5 else "Type1")
    f2["BaseFont"] = Name(base2)
    f2["FontDescriptor"]["FontName"] = Name(base2)
    f2["ToUnicode"] = doc.add(Stream({}, simple_tounicode))
    fonts = {"F1": doc.add(f1), "F2": doc.add(f2)}

    # images
    kinds = [IMAGE_KINDS[v % len(IMAGE_KINDS)], IMAGE_KINDS[(v // len(IMAGE_KINDS) + 1) % len(IMAGE_KINDS)]]
    nm1, nm2 = WRITE_CONTROLS[v % 4][1], WRITE_CONTROLS[(v + 1) % 4][1]
    xobjects: Dict[Any, Any] = {}
    content = [b"BT /F1 12 Tf 72 700 Td <8140> Tj (A) Tj ET\nBT /F2 12 Tf 72 650 Td (AB) Tj ET\n"]
    facts: Dict[str, Any] = {"kinds": list(kinds), "painted": 0}

    def paint(name: bytes, x: int) -> bytes:
        facts["painted"] += 1
        return b"q 20 0 0 20 %d 400 cm " % x + ser_name(name) + b" Do Q\n"

    dictname = h if slot == "image_dict_name" else None
    if slot in ("xobject_image", PAIR_SLOT, NUMBERED_SLOT):
        nm1 = h
    if slot == NUMBERED_SLOT:
        kinds = [case["kind"]] * 2
        facts["kinds"] = list(kinds)
    if slot == PAIR_SLOT:
        kinds = [PAIR_KINDS[v % len(PAIR_KINDS)]] * 2
        facts["kinds"] = list(kinds)
    xobjects[Name(nm1)] = doc.add(_image(kinds[0], doc, dictname))
    content.append(paint(nm1, 72))
    if slot == NUMBERED_SLOT and case.get("gap"):
        content.append(paint(nm1, 150))
        content.append(paint(nm1, 230))
    if slot == PAIR_SLOT:
        xobjects[Name(case["h2"])] = doc.add(_image(kinds[0], doc))
        content.append(paint(case["h2"], 220))
    if slot == "xobject_image" and v % 2:
        content.append(paint(nm1, 300))     # the second export of one name goes through the "name is taken" branch
        facts["twice"] = True
    if slot in ("form_name", "form_inner_image") or v % 4 == 1:
        inner = h if slot == "form_inner_image" else nm2
        fname = h if slot == "form_name" else b"Fm1"
        form = Stream({"Type": N("XObject"), "Subtype": N("Form"), "BBox": [0, 0, 1, 1],
                       "Resources": {"XObject": {Name(inner): doc.add(_image(kinds[1], doc))}}},
                      (ser_name(inner) + b" Do\n") * (2 if slot == "form_inner_image" and v % 2 else 1))
        facts["painted"] += 1
        if Name(fname) in xobjects:      # the form takes the name: the page-level image is no longer reachable
            facts["painted"] -= 1
        xobjects[Name(fname)] = doc.add(form)
        content.append(b"q 20 0 0 20 144 400 cm " + ser_name(fname) + b" Do Q\n")
    if slot == "inline_cs" or v % 4 == 2:
        cs = ser_name(h) if slot == "inline_cs" else b"/G"
        content.append(b"q 20 0 0 20 216 400 cm\nBI /W 2 /H 2 /BPC 8 /CS " + cs + b" ID \x10\x20\x30\x40 EI\nQ\n")
        facts["painted"] += 1
        facts["inline"] = True
    pages = [{"content": b"".join(content), "resources": {"Font": fonts, "XObject": xobjects}}]
    if slot == "control" and v % 3 == 0:
        # the same image name again on a second page, bound to a different stream: must not overwrite the first file
        x2 = {Name(nm1): doc.add(_image(kinds[1], doc))}
        pages.append({"content": paint(nm1, 72) + paint(nm1, 144), "resources": {"Font": fonts, "XObject": x2}})
        facts["dup"] = True
    page_doc(pages, doc)
    data = doc.build(xref="stream" if v % 3 == 0 else "table")
    return data, facts


def build_embedded_doc(case: Dict[str, Any], h: bytes) -> Tuple[bytes, Dict[str, Any]]:
    """A document with two embedded files; the Filespec that carries the slot string is object 2 (its stream object 1)."""
    slot, v = case["slot"], case["v"]
    doc = Doc()
    ef1 = doc.add(Stream({"Type": N("EmbeddedFile")}, b"payload one\n"))
    fs: Dict[str, Any] = {"Type": N("Filespec"), "EF": {"F": ef1}}
    if slot == "embedded_f":
        fs["F"] = h
    else:
        fs["F"] = b"plain.txt"
        try:
            text = h.decode("utf-8")
        except UnicodeDecodeError:
            text = h.decode("latin-1")
        fs["UF"] = h if slot == "embedded_uf" else b"\xfe\xff" + text.encode("utf-16-be")
        fs["EF"]["UF"] = ef1
    fs1 = doc.add(fs)
    ef2 = doc.add(Stream({"Type": N("EmbeddedFile"), "Filter": N("FlateDecode")}, zlib.compress(b"payload two\n")))
    fs2 = doc.add({"Type": N("Filespec"), "F": b"notes.txt", "EF": {"F": ef2}})
    assert fs1.n == 2
    page_doc([{"content": b"BT ET", "resources": {}}], doc,
             catalog_extra={"Names": {"EmbeddedFiles": {"Names": [b"first", fs1, b"second", fs2]}}})
    return doc.build(xref="stream" if v % 3 == 0 else "table"), {"kinds": [], "painted": 0}


_TOOL: Any = None


def _dumppdf() -> Any:
    """tools/dumppdf.py of the tree under test, imported once (before monitoring starts)."""
    global _TOOL
    if _TOOL is None:
        import importlib.util

        spec = importlib.util.spec_from_file_location("vf_c15_dumppdf", os.path.join(REPO, "tools", "dumppdf.py"))
        assert spec is not None and spec.loader is not None
        _TOOL = importlib.util.module_from_spec(spec)
        spec.loader.exec_module(_TOOL)
    return _TOOL


def _embed_candidates(h: bytes) -> List[str]:
    out = []
    for codec in ("utf-8", "latin-1"):
        try:
            out.append(h.replace(b"\x00", b"").decode(codec))
        except UnicodeDecodeError:
            pass
    out = out + [unicodedata.normalize(form, c) for c in out for form in ("NFKC", "NFKD")]
    return out + [c.replace("\\", "/") for c in out]


def _embed_target_in_root(sc: "Scratch", h: bytes) -> bool:
    for cand in _embed_candidates(h):
        for pre in ("000002-", ""):
            if not inside(sc.root, os.path.realpath(os.path.join(sc.eff_out or sc.run_cwd, pre + cand))):
                return False
    return True


# --------------------------------------------------------------------------
# running one case
# --------------------------------------------------------------------------
_READY = False


def _prepare() -> None:
    """Import every pdfminer module, run one extraction per output type, install the hook."""
    global _READY
    if _READY:
        return
    import importlib
    import pkgutil

    import pdfminer

    for m in pkgutil.walk_packages(pdfminer.__path__, "pdfminer."):
        try:
            importlib.import_module(m.name)
        except Exception:  # noqa: BLE001 - optional dependencies
            pass
    for enc_name in ("latin-1", "utf-8", "ascii", "utf-16-be", "cp1252", "unicode_escape"):
        "x".encode(enc_name)
    warnings.simplefilter("ignore")
    for i, ot in enumerate(OTYPES):
        case = {"slot": "control", "tag": "warmup", "h": b"", "otype": ot, "outmode": "abs", "env": "set", "v": i}
        run_case(case, monitor=False)
    run_case({"slot": "embedded_uf", "tag": "warmup", "h": b"warm.txt", "otype": "text", "outmode": "abs", "env": "set", "v": 1},
             monitor=False)
    MON.install()
    _READY = True


def _clear_caches() -> None:
    from pdfminer.cmapdb import CMapDB

    for attr in ("_cmap_cache", "_umap_cache"):
        c = getattr(CMapDB, attr, None)
        if isinstance(c, dict):
            c.clear()


def _lookup_name(slot: str, h: bytes) -> Optional[str]:
    """The resource name (without .pickle.gz) a read slot asks for, given its string."""
    try:
        s = h.decode("utf-8").replace("\0", "")
    except UnicodeDecodeError:
        return None
    if slot == "registry":
        return "to-unicode-%s-x" % s.strip()
    if slot == "registry_sub":
        return "to-unicode-vf/../%s-x" % s.strip()
    if slot == "ordering":
        return "to-unicode-Adobe-%s" % s.strip()
    if slot == "ordering_sub":
        return "to-unicode-vf-/../%s" % s.strip()
    return s


def naive_targets(case: Dict[str, Any], h: bytes, sc: Scratch) -> Tuple[int, int]:
    """Workload-power evidence, independent of the tree under test: where would
    the slot string lead if it were joined onto a directory without any check?
    -> (decoy files hit by a read lookup, image paths that leave the output directory)."""
    try:
        s = h.decode("utf-8")
    except UnicodeDecodeError:
        return 0, 0
    slot = case["slot"]
    rd = wr = 0
    if slot in READ_SLOTS and slot != "usecmap_encstream" and slot not in ("usecmap_string", "usecmap_raw"):
        name = s.replace("\0", "")
        if slot == "registry":
            name = "to-unicode-%s-x" % name.strip()
        elif slot == "registry_sub":
            name = "to-unicode-vf/../%s-x" % name.strip()
        elif slot == "ordering":
            name = "to-unicode-Adobe-%s" % name.strip()
        elif slot == "ordering_sub":
            name = "to-unicode-vf-/../%s" % name.strip()
        for d in sc.read_dirs():
            p = os.path.join(d, name + ".pickle.gz")
            try:
                if os.path.isfile(p) and os.path.realpath(p) in sc.decoy_files:
                    rd = 1
            except (OSError, ValueError):
                pass
    if slot in WRITE_SLOTS and sc.eff_out is not None and "\0" not in s:
        p = os.path.realpath(os.path.join(sc.eff_out, s + ".bmp"))
        if not inside(sc.eff_out, p) and os.path.isdir(os.path.dirname(p)):
            wr += 1
    return rd, wr


_SC: Optional[Scratch] = None


def _scratch() -> Scratch:
    """The worker's scratch tree, verified pristine (rebuilt otherwise)."""
    global _SC
    if _SC is not None:
        try:
            ok = snapshot(_SC.root) == _SC.pristine
        except OSError:
            ok = False
        if not ok:
            _drop_scratch()
    if _SC is None:
        _SC = Scratch()
    return _SC


def _drop_scratch() -> None:
    global _SC
    if _SC is not None:
        _SC.cleanup()
        _SC = None


atexit.register(_drop_scratch)


def _write_target_in_root(sc: Scratch, h: bytes) -> bool:
    """Would <output_dir>/<h><ext> (NULs dropped; also with backslashes read as separators) stay inside the scratch root?"""
    base = sc.eff_out if sc.eff_out is not None else sc.run_cwd
    s = os.fsdecode(h.replace(b"\x00", b""))
    cands = [s, s.replace("\\", "/")]
    for form in ("NFKC", "NFKD", "NFC"):
        try:
            n = unicodedata.normalize(form, s)
        except ValueError:
            continue
        cands += [n, n.replace("\\", "/")]
    for cand in cands:
        try:
            p = os.path.realpath(os.path.join(base, cand + ".x"))
        except (ValueError, UnicodeEncodeError):
            continue
        if not inside(sc.root, p):
            return False
    return True


def run_case(case: Dict[str, Any], monitor: bool = True, rec: Any = None) -> List[Tuple[str, str]]:
    """Materialise the scratch tree, run the extraction under both monitors,
    -> list of (key, detail)."""
    import pdfminer.high_level as hl

    slot = case["slot"]
    sc = _scratch()
    sc.configure(case["outmode"], case["env"])
    fails: List[Tuple[str, str]] = []
    created: List[str] = []
    dirty = True
    old_cwd = os.getcwd()
    old_env = os.environ.get("CMAP_PATH")
    escaped_outside_root: List[str] = []
    try:
        h = sc.subst(case["h"])
        embed = slot in EMBED_SLOTS
        numbered_dir: Optional[str] = None
        if slot == NUMBERED_SLOT:
            # a directory of its own inside the usual output directory, filled just for this run and removed afterwards
            numbered_dir = os.path.join(sc.physical_out, "numbered")
            os.mkdir(numbered_dir)
            extra = ["Run.%d" % (case["n"] + 1), "Run.%d" % (case["n"] + 3)] if case.get("gap") else []
            for nm in ["Run"] + ["Run.%d" % i for i in range(case["n"])] + extra:
                with open(os.path.join(numbered_dir, nm + case["ext"]), "wb") as f:
                    f.write(b"S")
            sc.output_dir = sc.eff_out = numbered_dir
            sc.outbase = "numbered"
        data, facts = build_embedded_doc(case, h) if embed else build_doc(case, h)
        if embed and (sc.eff_out is None or not _embed_target_in_root(sc, h)):
            if rec is not None:
                rec.inconclusive("unsafe_write_target_not_run")
            return [("harness:unsafe_write_target", repr(h[:200]))]
        if (slot in WRITE_SLOTS + NAME_SLOTS[1:] + [PAIR_SLOT] and not _write_target_in_root(sc, h)) or (
                slot == PAIR_SLOT and not _write_target_in_root(sc, case["h2"])):
            # generator guarantee broken: refuse to run rather than let a defective tree write outside the scratch root
            if rec is not None:
                rec.inconclusive("unsafe_write_target_not_run")
            return [("harness:unsafe_write_target", repr(h[:200]))]
        if sc.env_path() is not None:
            os.environ["CMAP_PATH"] = sc.env_path()
        else:
            os.environ.pop("CMAP_PATH", None)
        os.chdir(sc.run_cwd)
        _clear_caches()
        inpath = os.path.join(sc.inputdir, "input.pdf") if embed else None
        if inpath is not None:
            with open(inpath, "wb") as f:
                f.write(data)
            tool = _dumppdf()
        policy = Policy(sc.read_dirs(), sc.eff_out, inpath)
        before = sc.pristine if numbered_dir is None else snapshot(sc.root)
        libsig = dir_signature(LIB_CMAP_DIR)
        outfp = io.BytesIO()
        exc: Optional[BaseException] = None
        if monitor:
            MON.start()
        try:
            if embed:
                with contextlib.redirect_stdout(io.StringIO()):
                    tool.extractembedded(inpath, "", sc.output_dir)
            else:
                hl.extract_text_to_fp(io.BytesIO(data), outfp, output_type=case["otype"], output_dir=sc.output_dir)
        except Exception as e:  # noqa: BLE001 - totality is not this property; the effects up to here are judged
            exc = e
        finally:
            MON.stop()
        events = list(MON.events) if monitor else []
        os.chdir(old_cwd)
        after = snapshot(sc.root)

        def fail(kind: str, detail: str) -> None:
            fails.append(("%s:%s" % (kind, slot), "slot=%s tag=%s string=%r otype=%s outmode=%s env=%s: %s"
                          % (slot, case["tag"], h[:120], case["otype"], case["outmode"], case["env"], detail)))

        # ---- monitor 1: audit events
        n_lib = n_env = n_create = n_mkdir = n_decoy = n_input = 0
        for ev in events:
            verdict, kind = policy.classify(ev)
            if rec is not None:
                rec.count("ev:%s:%s" % (verdict, kind.split(":")[0]))
            if verdict == "ok":
                if kind == "read_resource":
                    if inside(LIB_CMAP_DIR, ev["real"]):
                        n_lib += 1
                    else:
                        n_env += 1
                elif kind == "read_input":
                    n_input += 1
                elif kind == "create_in_outdir":
                    n_create += 1
                elif kind == "mkdir_outdir":
                    n_mkdir += 1
            elif verdict == "violation":
                if ev.get("real") in sc.decoy_files:
                    n_decoy += 1
                fail(kind, "audit event %s path=%r realpath=%r mode=%r existed=%r raised at %s"
                     % (ev["event"], ev.get("path", ev.get("args")), ev.get("real"), ev.get("mode"), ev.get("existed"),
                        ev.get("origin")))
                real = ev.get("real")
                if ev.get("write") and real and not inside(sc.root, real) and not ev.get("existed"):
                    escaped_outside_root.append(real)
        if MON.errors and monitor:
            if rec is not None:
                rec.inconclusive("audit_hook_internal_error")
            fails.append(("harness:hook_error", repr(MON.errors[:3])))

        # ---- monitor 2: what changed on disk
        created, removed, changed = diff_snapshots(before, after)
        dirty = bool(removed or changed)
        created_files = 0
        for p in created:
            if p == inpath:
                continue        # put there by the harness
            real = os.path.realpath(p)
            ok = sc.eff_out is not None and (inside(sc.eff_out, real) or inside(real, sc.eff_out))
            if after[p][0] == "d" and ok:
                continue
            if sc.eff_out is not None and inside(sc.eff_out, real) and real != sc.eff_out:
                created_files += 1
            else:
                fail("create_outside", "snapshot: new %s %r outside output_dir %r" % (after[p][0], p, sc.eff_out))
        for p in changed:
            where = "overwrite" if (sc.eff_out is not None and inside(sc.eff_out, os.path.realpath(p))) else "overwrite_outside"
            fail(where, "snapshot: pre-existing %r changed (%s -> %s)" % (p, before[p][0], after[p][0]))
        for p in removed:
            fail("removed", "snapshot: pre-existing %r disappeared" % p)
        if dir_signature(LIB_CMAP_DIR) != libsig:
            fail("resource_dir_modified", "entries of %s changed" % LIB_CMAP_DIR)
        if monitor and created_files != n_create:
            # the two monitors must agree on what was created inside the output directory
            if created_files > n_create:
                if rec is not None:
                    rec.inconclusive("hook_missed_creation")
                fails.append(("harness:hook_missed_creation", "snapshot sees %d new files, hook saw %d creating opens: %r"
                              % (created_files, n_create, created)))
        out = outfp.getvalue()
        decoy_used = DECOY_MARK.encode() in out

        if rec is not None:
            rd, wr = naive_targets(case, h, sc)
            rec.count("naive_read_hits", rd)
            rec.count("naive_write_escapes", wr)
            rec.count("legit_lib_cmap_opens", n_lib)
            rec.count("legit_env_cmap_opens", n_env)
            rec.count("images_created", created_files)
            rec.count("mkdir_outdir_observed", n_mkdir)
            rec.count("decoy_opened", n_decoy)
            rec.count("decoy_unicode_map_used_in_output", int(decoy_used))
            rec.count("image_paint_operators", facts["painted"])
            # the enumerated families of round 3: was the planted target really where the name points?
            if case["tag"] in CWD_TAGS and case["env"] == "unset":
                rec.count("cwd_family_runs")
                nm = _lookup_name(slot, h)
                rec.count("cwd_family_planted_file_reachable",
                          int(nm is not None and os.path.realpath(os.path.join(sc.run_cwd, nm + ".pickle.gz")) in sc.cwd_decoys
                              and os.path.isfile(os.path.join(sc.run_cwd, nm + ".pickle.gz"))))
            if case["tag"] in LINK_TAGS and case["env"] == "set":
                rec.count("link_family_runs")
                nm = _lookup_name(slot, h)
                p = os.path.join(sc.envdir, (nm or "\0") + ".pickle.gz")
                rec.count("link_family_target_reachable", int(nm is not None and os.path.realpath(p) in sc.decoy_files
                                                              and not inside(os.path.realpath(sc.envdir), os.path.realpath(p))))
            if case["tag"] in CWD_TAGS and case["env"] in EMPTY_COMPONENT_ENVS:
                rec.count("empty_component_family_runs")
                nm = _lookup_name(slot, h)
                rec.count("empty_component_family_planted_file_reachable",
                          int(nm is not None and os.path.realpath(os.path.join(sc.run_cwd, nm + ".pickle.gz")) in sc.cwd_decoys
                              and os.path.isfile(os.path.join(sc.run_cwd, nm + ".pickle.gz"))))
            if embed:
                rec.count("embed_family_runs")
                rec.count("embed_family_runs_with_file_in_dir", int(created_files > 0))
                rec.count("embed_input_reads_observed", int(n_input > 0))
                leaves = 0
                for cand in _embed_candidates(h):
                    if not inside(sc.eff_out, os.path.realpath(os.path.join(sc.eff_out, "000002-" + cand))):
                        leaves = 1
                rec.count("embed_family_names_that_leave_dir_if_joined_unreduced", leaves)
            if case["tag"].startswith("nfkc_") and slot in WRITE_SLOTS + EMBED_SLOTS and sc.eff_out is not None:
                rec.count("nfkc_family_runs")
                rec.count("nfkc_family_runs_with_file_in_dir", int(created_files > 0))
                try:
                    n = unicodedata.normalize("NFKC", h.decode("utf-8"))
                    pre = "000002-" if embed else ""
                    leaves = not inside(sc.eff_out, os.path.realpath(os.path.join(sc.eff_out, pre + n + ".x")))
                except (UnicodeDecodeError, ValueError):
                    leaves = False
                rec.count("nfkc_family_names_that_leave_dir_once_normalised", int(leaves))
            if slot == NUMBERED_SLOT and case.get("gap"):
                want = {os.path.join(numbered_dir, "Run.%d%s" % (case["n"] + d, case["ext"])) for d in (0, 2, 4)}
                rec.count("numbered_gap_family_runs")
                rec.count("numbered_gap_three_new_files_at_the_free_numbers", int(set(created) == want))
            elif slot == NUMBERED_SLOT:
                rec.count("numbered_run_family_runs")
                rec.count("numbered_run_preexisting_files", case["n"] + 1)
                rec.count("numbered_run_exactly_one_new_file", int(created_files == 1 and len(created) == 1))
                rec.count("numbered_run_new_file_is_next_number",
                          int(os.path.join(numbered_dir, "Run.%d%s" % (case["n"], case["ext"])) in created))
            if slot == PAIR_SLOT:
                rec.count("pair_family_runs")
                rec.count("pair_family_two_files_created", int(created_files >= 2))
            if case["tag"].startswith("sanitised_name_exists") and slot in WRITE_SLOTS and case["outmode"] in ("abs", "rel", "odd", "link"):
                rec.count("sanitised_name_exists_runs")
            if slot in WRITE_SLOTS and case["tag"][:4] != "ctl_" and sc.eff_out is not None:
                rec.count("hostile_image_name_runs")
                rec.count("hostile_image_name_runs_with_file_in_outdir", int(created_files > 0))
            if exc is not None:
                rec.count("exc:%s" % type(exc).__name__)
            else:
                rec.count("completed_without_exception")
            for nm, c in MON.names.items():
                rec.see("audit_events", nm)
            for k in facts["kinds"]:
                rec.see("image_kinds", k)
            if rec.want_sample() and (n_lib or created_files) and case["tag"][:4] != "ctl_":
                rec.sample({"case": case, "materialised": h[:200], "events": [
                    {k: ev.get(k) for k in ("event", "path", "mode", "existed", "origin")} for ev in events][:8],
                    "created": [p[len(sc.root):] for p in created], "exception": repr(exc)[:200] if exc else None})
    finally:
        try:
            os.chdir(old_cwd)
        except OSError:
            pass
        if old_env is None:
            os.environ.pop("CMAP_PATH", None)
        else:
            os.environ["CMAP_PATH"] = old_env
        nd = os.path.join(sc.physical_out, "numbered")
        if os.path.isdir(nd) and not os.path.islink(nd):
            shutil.rmtree(nd, ignore_errors=True)       # planted by the harness for the numbered-files family
            created = [p for p in created if not inside(nd, p)]
        if not sc.restore(created, dirty):
            _drop_scratch()
        for p in escaped_outside_root:   # a defective tree wrote outside the scratch root: remove what it created
            try:
                if os.path.isfile(p) and not os.path.islink(p):
                    os.remove(p)
            except OSError:
                pass
    # one entry per key
    seen = set()
    uniq = []
    for k, d in fails:
        if k not in seen:
            seen.add(k)
            uniq.append((k, d))
    return uniq


def _hostile(case: Dict[str, Any]) -> bool:
    return case["slot"] != "control" and not case["tag"].startswith("ctl_")


def _eval(case: Dict[str, Any], rec) -> None:
    fails = run_case(case, rec=rec)
    rec.case(chash(case), _hostile(case))
    rec.count("slot:%s" % case["slot"])
    rec.see("slots", case["slot"])
    rec.see("otypes", case["otype"])
    rec.see("outmodes", case["outmode"])
    rec.see("envmodes", case["env"])
    if case["slot"] in WRITE_SLOTS + NAME_SLOTS[1:] and case["tag"] in dict(WRITE_STRINGS + WRITE_CONTROLS):
        rec.see("write_tags", case["tag"])
    if case["tag"] in dict(READ_STRINGS + READ_CONTROLS) and case["slot"] in READ_SLOTS + ["basefont"]:
        rec.see("read_tags", case["tag"])
    for k, d in fails:
        if k.startswith("harness:"):
            continue
        rec.fail(k, case, d)


def _selftest(rec) -> None:
    """The hook must see, and the policy must reject, what the harness itself does outside the allowed places."""
    sc = _scratch()
    sc.configure("abs", "set")
    try:
        policy = Policy(sc.read_dirs(), sc.eff_out)
        MON.start()
        try:
            with open(sc.decoy_files[0], "rb") as f:
                f.read(1)
            with gzip.open(os.path.join(LIB_CMAP_DIR, "H.pickle.gz")) as f:
                f.read(1)
            with open(os.path.join(sc.work, "selftest.bin"), "wb") as f:
                f.write(b"x")
            with open(os.path.join(sc.physical_out, "Im0.bmp"), "ab"):
                pass
            with open(os.path.join(sc.physical_out, "fresh.bmp"), "wb"):
                pass
            os.mkdir(os.path.join(sc.absdir, "d"))
            os.rename(os.path.join(sc.absdir, "d"), os.path.join(sc.absdir, "e"))
            try:
                open(os.path.join(sc.root, "nodir", "x"), "rb")
            except FileNotFoundError:
                pass
        finally:
            MON.stop()
        got = [policy.classify(ev) for ev in MON.events]
        want = [("violation", "open_outside"), ("ok", "read_resource"), ("violation", "create_outside"),
                ("violation", "overwrite"), ("ok", "create_in_outdir"), ("violation", "mkdir_outside"),
                ("violation", "forbidden_event:os.rename"), ("violation", "open_outside")]
        if got == want and not MON.errors:
            rec.count("hook_selftests_passed")
        else:
            rec.inconclusive("hook_selftest_failed")
            rec.count("hook_selftest_failed")
    finally:
        _drop_scratch()


# --------------------------------------------------------------------------
# random family
# --------------------------------------------------------------------------
R_FRAGS = [b"../", b"../", b"../", b"./", b"//", b"/", b"..", b".", b"\x00", b"\\", b"..\\", b"sub/", b"nosub/",
           b"decoys/", b"decoy", b"escaped", b"victim", b"Im0", b"Im1", b"Lnk1", b"Lnk2", b".pickle.gz", b".bmp", b" ", b"%2F", b"~", b"$HOME",
           b"to-unicode-vf/", b"cmapenv_evil/", b"@OUTBASE@_evil/", b"\xff", b"\xc3\xa4", b"A" * 40, b"-", b"x"]
R_HEADS_READ = [b"", b"", b"@DECOY@", b"/@DECOY@", b"@REL_LIB@", b"@RELX@", b"../decoys/decoy", b"../cmapenv_evil/decoy",
                b"../@LIBBASE@/decoy", b"../@LIBBASE@/", b"../@ENVBASE@/", b"./../@LIBBASE@/90ms-RKSJ-H", b"@REL_LIB_M@",
                b"@ROOT@/res/decoys/decoy", b"90ms-RKSJ-H"]
R_HEADS_WRITE = [b"", b"", b"../", b"../../", b"@ABS@/", b"/@ABS@/", b"../@OUTBASE@_evil/", b"sub/", b"Im0", b"./", b"Lnk1"]


def gen_random(rng: random.Random) -> Dict[str, Any]:
    slot = rng.choice(ALL_SLOTS)
    r = rng.random()
    write_like = slot in WRITE_SLOTS or slot in NAME_SLOTS[1:] or r < 0.08
    if rng.random() < 0.35:
        tag, h = rng.choice(WRITE_STRINGS if write_like else READ_STRINGS)
        # mutate a listed string a little
        if rng.random() < 0.5 and not (write_like and h.count(b"../") >= UPS):
            extra = rng.choice([b"./", b"/", b"\x00", b".", b" ", b"x"])
            lo = min(len(h), h.rfind(b"@") + 2) if b"@" in h else 0     # never inside or right after a placeholder
            pos = rng.randrange(lo, len(h) + 1)
            h = h[:pos] + extra + h[pos:]
            tag = "rnd_mut_" + tag
    else:
        parts = [rng.choice(R_HEADS_WRITE if write_like else R_HEADS_READ)]
        for _ in range(rng.randint(0, 5)):
            parts.append(rng.choice(R_FRAGS))
        if not write_like and rng.random() < 0.5:
            parts.append(rng.choice([b"decoys/decoy", b"decoy", b"../decoys/decoy"]))
        h = b"".join(parts)
        tag = "rnd"
    if write_like:
        # never let an image name climb above the scratch root: at most UPS occurrences of ".." in total
        if h.replace(b"\x00", b"").count(b"..") > UPS:
            h = h.replace(b"\x00", b"")
        while h.count(b"..") > UPS:
            i = h.rfind(b"..")
            h = h[:i] + b"_" + h[i + 2:]
        # an absolute image target (also when backslashes are read as separators) must lie inside the scratch root
        t = h.replace(b"\x00", b"").replace(b"\\", b"/")
        if t[:1] == b"/" and not t.lstrip(b"/").startswith((b"@ROOT@/", b"@ABS@/")):
            h = b"x" + h
    return {"slot": slot, "tag": tag, "h": h, "otype": rng.choice(OTYPES), "outmode": rng.choice(OUTMODES + ["abs", "abs"]),
            "env": rng.choice(["set"] * 7 + ["unset", "unset", "mirror", "trail", "lead"]), "v": rng.randrange(10000)}


# --------------------------------------------------------------------------
def run_shard(spec: Dict[str, Any], rec) -> None:
    try:
        _prepare()
        _selftest(rec)
        if spec["kind"] == "enum":
            cases = enum_cases()
            for i in range(spec["part"], len(cases), spec["of"]):
                _eval(cases[i], rec)
        else:
            rng = random.Random("C15/%d/%d" % (spec["seed"], spec["sub"]))
            for _ in range(spec["n"]):
                _eval(gen_random(rng), rec)
    finally:
        _drop_scratch()


def replay(case: Dict[str, Any]) -> List[Tuple[str, str]]:
    try:
        _prepare()
        return [(k, d) for k, d in run_case(case) if not k.startswith("harness:")]
    finally:
        _drop_scratch()


def finish(agg: Dict[str, Any], tier: str) -> Dict[str, Any]:
    c = agg["counters"]
    return {
        "monitor_summary": {
            "audit events judged ok": {k[6:]: v for k, v in sorted(c.items()) if k.startswith("ev:ok:")},
            "audit events ignored": {k[10:]: v for k, v in sorted(c.items()) if k.startswith("ev:ignore:")},
            "audit events in violation": {k[13:]: v for k, v in sorted(c.items()) if k.startswith("ev:violation:")},
            "decoy files opened by the library": c.get("decoy_opened", 0),
            "runs whose output shows decoy content": c.get("decoy_unicode_map_used_in_output", 0),
            "hostile strings that reach a planted decoy under an unchecked join (read slots)": c.get("naive_read_hits", 0),
            "hostile image names that leave the output directory under an unchecked join": c.get("naive_write_escapes", 0),
        }
    }
