"""C17 — page labels, outlines and named destinations follow their tree definitions;
text strings decode as UTF-16BE after a byte-order mark, else as PDFDocEncoding.

Workload: complete documents written by vf.gen.pdfw / vf.gen.c17gen that carry a
/PageLabels number tree, an /Outlines forest, a /Names << /Dests name tree >> and
the PDF 1.1 catalog /Dests dictionary, in every combination, with trees of
random shape (root-only, balanced, degenerate, single-kid chains, random fan-out
<= 6 and depth <= 8; deeper and longer ones under a step budget), plus raw text
strings for pdfminer.utils.decode_text.

Monitor (per document): PDFDocument.get_page_labels() (first npages labels) and
PDFPage.label of PDFPage.create_pages equal the labels of the 12.4.2 model;
PDFDocument.get_outlines() equals the pre-order list (level, title, Dest, A, SE)
of the 12.3.3 model with top level = 1 (docs/howto/toc_target_page.rst);
PDFDocument.get_dest(key) returns the value stored for every present key and
raises PDFDestinationNotFound for absent keys below / between / above Limits;
tools/dumppdf.py dumpoutline (dumppdf -T) lists every outline item in document
order with the level, the title and the page number the 12.3.2 model gives for
its destination (explicit array, indirect array, name / string resolving to an
array or to a dictionary with a direct or indirect /D, or a go-to action).
Expected values come from the generator's ground truth; the reference tree
validator / flatten / Limits-lookup of vf.ref.c17ref must agree with it first.
"""
from __future__ import annotations

import io
import itertools
import os
import random
import re
import shutil
import tempfile
from typing import Any, Dict, List, Optional, Tuple

from vf.common import StepBudgetExceeded, chash, last_steps, run_with_budget

ID = "C17"
LEVEL = "exploration"
DESIGN_REF = "DESIGN.md#C17"
TECHNIQUE = "generated documents + reference models of ISO 32000-1 7.9.6-7, 12.3.3, 12.4.2, Annex D"
RULE = (
    "random documents in families mixed/labels/dests/outlines/absent (+ tagged alpha_gt26; + chain and deep under a "
    "step budget) and deterministic enumerations (every roman value 1..3999 in both cases, every letter value 1..26 at "
    "every offset, every defined PDFDocEncoding code, UTF-16 boundary code points). Name/number trees: root without "
    "Limits, every other node with exact Limits, leaves sorted; kid nodes indirect (64% of the trees), all written "
    "inline as dictionaries inside /Kids (18%) or mixed (18%) - Table 36 asks for references, the property says 'direct "
    "or indirect nodes'; in 30% of the trees the two /Limits elements are indirect objects (both, or one of them; "
    "the array itself direct or indirect); in 25% of the name trees the key strings of the leaf arrays are indirect "
    "objects (all of them, or 40%); sibling order of Kids shuffled in ~15% "
    "of the trees (7.9.6 orders only the leaf arrays). Labels: the tree always has page index 0, St>=1, roman values "
    "<=3999, letter values <=26 outside the tagged family. Text: PDFDocEncoding strings use only codes Annex D "
    "defines (HT LF CR, 0x18-0x1F, 0x20-0x7E, 0x80-0x9E, 0xA0-0xFF without 0xAD) and never start with FE FF or EF BB "
    "BF; UTF-16 strings are well formed (paired surrogates, even length) and contain no U+001B language escape. "
    "Destination values are never empty/falsy. Name objects and strings are separate namespaces (12.3.2.3: names -> "
    "catalog /Dests dictionary, strings -> /Names /Dests tree): documents carry the same spelling in both with "
    "different targets, and spellings that exist in only one of them are looked up through the other (expected: "
    "PDFDestinationNotFound). "
    "distinct = distinct file bytes (documents) or string bytes (text); non-trivial = a document with >=2 label "
    "ranges, or >=2 outline items, or >=2 tree entries, or a tree of >=2 nodes; a text string with >=1 character "
    "outside ASCII or carrying a byte-order mark."
)
LEVEL_TEXT = (
    "Exploration: each run compares pdfminer's labels, outline entries and destination lookups with independent "
    "reference models on some thousands of generated documents whose tree shapes, label dictionaries and outline "
    "forests are drawn at random, and on complete enumerations of the numeral formatters and of the PDFDocEncoding "
    "table. It shows agreement on what was generated (see counters), not for every possible tree."
)
ASSUMPTIONS = [
    "vf.gen.pdfw writes conformant files; pdfminer's parser and xref reader (checked by C01/C02/C11/C14) deliver the objects as written",
    "vf.ref.c17ref is a faithful transcription of ISO 32000-1 Tables 36/37 (trees), 152/153 (outlines), 159 (page labels) and Annex D.2; "
    "the PDFDocEncoding transcription is cross-checked against the Unicode character names via unicodedata",
    "stdlib utf-16-be codec is correct",
    "HT, LF and CR map to themselves in PDFDocEncoding (ISO 32000-2 says so explicitly; 32000-1 lists no other control codes, which are not generated)",
    "name-tree keys are ordered as unsigned bytes (the usual reading of 'sorted lexically')",
    "nesting level of a top-level outline item is 1 (pdfminer's documented convention)",
    "sys.monitoring LINE events count executed pdfminer lines faithfully (chain/deep families only)",
    "about 8% of the documents (never the budgeted ones or those packed into object streams) are opened with PDFDocument(caching=False) for every monitor; "
    "settings.STRICT=True is set only around a second get_page_labels() call (restored in a finally) and only for trees whose "
    "kids were not shuffled, because STRICT rejects keys that do not ascend in document order; its labels are compared with "
    "the default-mode labels",
    "tools/dumppdf.py dumpoutline (dumppdf -T) is driven in-process from VERIF_REPO/tools; its output is read with the "
    "inverse of its own &#N; escaping. An item whose /A is an INDIRECT reference to the action dictionary is compared like a direct one (the tool "
    "ignored such actions until the repair fa229de). Left out because the tool does not support it: the page number of an item "
    "whose named destination is the empty string (falsy, skipped by the tool); level and title of "
    "those items are still compared. Documents of the chain family (>=1000 siblings) are not run through the tool",
]
SHARD_TIMEOUT = {"quick": 600, "thorough": 3600}

KF_ALPHA = "label_alpha_gt26"


# --------------------------------------------------------------------------
# observation helpers
# --------------------------------------------------------------------------
def _exc_key(e: BaseException, stage: str) -> str:
    tb = e.__traceback__
    fn = "?"
    while tb is not None:
        if "pdfminer" in tb.tb_frame.f_code.co_filename:
            fn = tb.tb_frame.f_code.co_name
        tb = tb.tb_next
    return "exception:%s:%s:%s" % (stage, type(e).__name__, fn)


def norm_pm(o: Any, top: bool = True) -> Any:
    """Canonical form of a pdfminer object (same shape as c17ref.norm_gen)."""
    from pdfminer.pdftypes import PDFObjRef, PDFStream, resolve1
    from pdfminer.psparser import PSLiteral

    if top:
        o = resolve1(o)
    if o is None or isinstance(o, (bool, int, float)):
        return o
    if isinstance(o, PDFObjRef):
        return ["R", o.objid]
    if isinstance(o, PSLiteral):
        return ["N", o.name if isinstance(o.name, str) else ["bytes", o.name.hex()]]
    if isinstance(o, bytes):
        return ["S", o]
    if isinstance(o, list):
        return ["A", [norm_pm(v, False) for v in o]]
    if isinstance(o, dict):
        return ["D", {k: norm_pm(v, False) for k, v in o.items()}]
    if isinstance(o, PDFStream):
        return ["STREAM"]
    return ["?", repr(o)]


def _budget_for(case: Dict[str, Any]) -> int:
    """Per call.  Every object is parsed at most once (the document caches them) and parsing dominates: the intact
    tree needs < 13 executed lines per byte of the uncompressed file for the most expensive call (get_outlines over
    a 3000-item chain: ~1700 lines per item of ~150 bytes); a walk over cached nodes takes a few hundred lines.
    400 per byte is > 30 times that."""
    return 400 * case.get("plain_size", len(case["pdf"]) * 4) + 300000


def check_case(case: Dict[str, Any]) -> Tuple[List[Tuple[str, str]], Dict[str, int]]:
    """Run every monitor on one stored case; -> ([(key, detail)], observation counters)."""
    if case.get("fam") == "text":
        return check_text(case)
    from pdfminer.pdfdocument import PDFDestinationNotFound, PDFDocument, PDFNoOutlines, PDFNoPageLabels
    from pdfminer.pdfpage import PDFPage
    from pdfminer.pdfparser import PDFParser

    fails: List[Tuple[str, str]] = []
    obs: Dict[str, int] = {}
    budget = _budget_for(case) if case.get("budget") else 0
    maxsteps = 0

    def call(fn):
        nonlocal maxsteps
        if budget:
            try:
                return run_with_budget(fn, budget)
            finally:
                maxsteps = max(maxsteps, last_steps())
        return fn()

    try:
        doc = PDFDocument(PDFParser(io.BytesIO(case["pdf"])), caching=bool(case.get("caching", True)))
    except Exception as e:  # noqa: BLE001
        return [(_exc_key(e, "open"), repr(e))], obs
    npages = case["npages"]

    # ---------------------------------------------------------------- labels
    exp_labels = case["labels"]
    got_labels: Optional[List[Any]] = None
    try:
        got_labels = call(lambda: list(itertools.islice(doc.get_page_labels(), npages)))
        if exp_labels is None:
            fails.append(("labels_absent_but_returned", "no /PageLabels, get_page_labels() gave %r" % (got_labels[:3],)))
    except PDFNoPageLabels:
        if exp_labels is not None:
            fails.append(("labels_present_but_PDFNoPageLabels", "document has /PageLabels"))
        else:
            obs["no_labels_confirmed"] = 1
    except StepBudgetExceeded as e:
        fails.append(("step_budget:labels", str(e)))
    except Exception as e:  # noqa: BLE001
        fails.append((_exc_key(e, "labels"), repr(e)))
    page_attr: Optional[List[Any]] = None
    try:
        pages = call(lambda: list(PDFPage.create_pages(doc)))
        page_attr = [p.label for p in pages]
        if len(pages) != npages:
            fails.append(("page_count", "create_pages gave %d pages, document has %d" % (len(pages), npages)))
    except StepBudgetExceeded as e:
        fails.append(("step_budget:pages", str(e)))
    except Exception as e:  # noqa: BLE001
        fails.append((_exc_key(e, "pages"), repr(e)))

    def label_diff(got: List[Any], what: str) -> None:
        if len(got) != npages:
            fails.append(("label_count:" + what, "%d labels for %d pages" % (len(got), npages)))
            return
        mism = [i for i in range(npages) if got[i] != exp_labels[i]]
        obs["labels_compared"] = obs.get("labels_compared", 0) + npages
        if not mism:
            return
        gt = set(case.get("alpha_gt26_pages", ()))
        pref = case.get("label_prefix", [""] * npages)
        if case["fam"] == "alpha_gt26" and set(mism) <= gt and all(
                isinstance(got[i], str) and got[i].startswith(pref[i]) and len(got[i]) > len(pref[i]) for i in mism):
            key = KF_ALPHA
        else:
            first = [i for i in mism if i not in gt] or mism
            key = "label_mismatch:%s" % case["label_styles"][first[0]]
        i = mism[0]
        fails.append((key, "%s: page index %d (style %s): got %r, expected %r; %d of %d pages differ"
                      % (what, i, case["label_styles"][i], got[i], exp_labels[i], len(mism), npages)))

    if exp_labels is not None:
        if got_labels is not None:
            label_diff(got_labels, "get_page_labels")
            if page_attr is not None and len(page_attr) == npages:
                obs["page_label_attrs_compared"] = npages
                bad = [i for i in range(min(npages, len(got_labels))) if page_attr[i] != got_labels[i]]
                if bad:
                    fails.append(("pagelabel_attr_differs_from_get_page_labels", "page index %d: PDFPage.label %r, "
                                  "get_page_labels() %r, expected %r" % (bad[0], page_attr[bad[0]], got_labels[bad[0]],
                                                                         exp_labels[bad[0]])))
        elif page_attr is not None and len(page_attr) == npages:
            label_diff(page_attr, "PDFPage.label")
    elif page_attr is not None and any(x is not None for x in page_attr):
        fails.append(("pagelabel_without_PageLabels", "labels %r" % (page_attr[:3],)))

    # ---- the same labels with settings.STRICT (a valid tree, keys ascending in document order, must pass its check)
    if exp_labels is not None and got_labels is not None and case.get("pl_strict_ok"):
        from pdfminer import settings

        saved = settings.STRICT
        settings.STRICT = True
        try:
            strict = list(itertools.islice(doc.get_page_labels(), npages))
            if strict != got_labels:
                i = [j for j in range(min(len(strict), len(got_labels))) if strict[j] != got_labels[j]][:1]
                fails.append(("label_strict_differs_from_default", "settings.STRICT: %d labels, default mode %d; first difference "
                              "at page index %r" % (len(strict), len(got_labels), i)))
            else:
                obs["strict_label_docs"] = 1
                if case.get("pl_unbalanced"):
                    obs["strict_label_docs_unbalanced_tree"] = 1
        except Exception as e:  # noqa: BLE001
            fails.append((_exc_key(e, "labels_strict"), "settings.STRICT=True on a valid number tree (%s, depth %s): %r"
                          % ("unbalanced" if case.get("pl_unbalanced") else "balanced", case.get("stats", {}).get("pl_depth"), e)))
        finally:
            settings.STRICT = saved

    # ---------------------------------------------------------------- outlines
    exp_out = case["outlines"]
    try:
        got = call(lambda: list(doc.get_outlines()))
        if exp_out is None:
            fails.append(("outlines_absent_but_returned", "no /Outlines, got %d items" % len(got)))
        else:
            gotn = []
            for t in got:
                if not (isinstance(t, tuple) and len(t) == 5):
                    fails.append(("outline_tuple_shape", repr(t)[:200]))
                    break
                lv, title, dest, act, se = t
                gotn.append([lv, title, norm_pm(dest), norm_pm(act), norm_pm(se)])
            else:
                obs["outline_items_compared"] = len(exp_out)
                obs["outline_docs"] = 1
                if gotn != exp_out:
                    fails.append(_outline_diff(gotn, exp_out))
    except PDFNoOutlines:
        if exp_out is not None:
            fails.append(("outlines_present_but_PDFNoOutlines", "document has /Outlines"))
        else:
            obs["no_outlines_confirmed"] = 1
    except StepBudgetExceeded as e:
        fails.append(("step_budget:outlines", str(e)))
    except RecursionError as e:
        fails.append(("exception:outlines:RecursionError:search", "%d items, longest sibling chain %d: %r"
                      % (len(exp_out or ()), case.get("stats", {}).get("ol_max_siblings", -1), e)))
    except Exception as e:  # noqa: BLE001
        fails.append((_exc_key(e, "outlines"), repr(e)))

    # ---------------------------------------------------------------- destinations
    seen_keys = set()
    for key, exp, cls in case["lookups"]:
        kind = cls if exp is not None else cls.split(":")[0]
        try:
            v = call(lambda: doc.get_dest(key))
        except PDFDestinationNotFound:
            if exp is None:
                obs["lookups_absent"] = obs.get("lookups_absent", 0) + 1
                obs["absent:" + cls] = obs.get("absent:" + cls, 0) + 1
            else:
                k = "dest_present_not_found:" + kind
                if k not in seen_keys:
                    seen_keys.add(k)
                    fails.append((k, "get_dest(%r) raised PDFDestinationNotFound, expected %r" % (key, exp)))
            continue
        except StepBudgetExceeded as e:
            fails.append(("step_budget:get_dest", str(e)))
            break
        except Exception as e:  # noqa: BLE001
            k = _exc_key(e, "get_dest_" + ("absent" if exp is None else "present"))
            if k not in seen_keys:
                seen_keys.add(k)
                fails.append((k, "get_dest(%r) [%s]: %r" % (key, cls, e)))
            continue
        if exp is None:
            k = "dest_absent_returned_value:" + cls
            if k not in seen_keys:
                seen_keys.add(k)
                fails.append((k, "get_dest(%r) returned %r for a key that is not in the document" % (key, v)))
            continue
        gotv = norm_pm(v)
        obs["lookups_present"] = obs.get("lookups_present", 0) + 1
        if gotv == exp and ":" in cls:
            obs["present:" + cls] = obs.get("present:" + cls, 0) + 1
        if gotv != exp:
            k = "dest_wrong_value:" + kind
            if k not in seen_keys:
                seen_keys.add(k)
                fails.append((k, "get_dest(%r) = %r, expected %r" % (key, gotv, exp)))
    if exp_out is not None and case.get("outline_pages") is not None and case["fam"] != "chain":
        f2, o2 = check_dumpoutline(case)
        fails.extend(f2)
        obs.update(o2)
    if case.get("caching", True) is False:
        obs["caching_off_docs"] = 1
        obs["caching_off_lookups"] = len(case["lookups"])
        if case.get("stats", {}).get("nt_nodes", 0) >= 3 and len(case["lookups"]) >= 4:
            obs["caching_off_docs_multi_leaf_tree"] = 1
    if budget:
        obs["budgeted_docs"] = 1
        obs["max_steps"] = maxsteps
        obs["budget"] = budget
    return fails, obs


_DUMPPDF: Dict[str, Any] = {}


def _dumppdf_module():
    """tools/dumppdf.py of the tree under test (VERIF_REPO), loaded by path under a private name."""
    m = _DUMPPDF.get("m")
    if m is None:
        import importlib.util

        from vf import REPO

        spec = importlib.util.spec_from_file_location("vf_c17_dumppdf", os.path.join(REPO, "tools", "dumppdf.py"))
        m = importlib.util.module_from_spec(spec)
        spec.loader.exec_module(m)
        _DUMPPDF["m"] = m
    return m


_OUTLINE_RE = re.compile(r'<outline level="(\d+)" title="([^"]*)">\n(.*?)</outline>\n', re.S)
_PAGENO_RE = re.compile(r"<pageno>(\d+)</pageno>")
_CHARREF_RE = re.compile(r"&#(\d+);")


def check_dumpoutline(case: Dict[str, Any]) -> Tuple[List[Tuple[str, str]], Dict[str, int]]:
    """tools/dumppdf.py -T (dumpoutline): level, title and page number of every outline item, in document order."""
    exp_out, exp_pages = case["outlines"], case["outline_pages"]
    fails: List[Tuple[str, str]] = []
    obs: Dict[str, int] = {}
    try:
        mod = _dumppdf_module()
    except Exception as e:  # noqa: BLE001
        return [("dumpoutline:import:%s" % type(e).__name__, repr(e))], obs
    tmpdir = tempfile.mkdtemp(prefix="vf-c17-")
    out = io.StringIO()
    err: Optional[BaseException] = None
    try:
        path = os.path.join(tmpdir, "doc.pdf")
        with open(path, "wb") as f:
            f.write(case["pdf"])
        try:
            mod.dumpoutline(out, path, [], set())
        except Exception as e:  # noqa: BLE001
            err = e
    finally:
        shutil.rmtree(tmpdir, ignore_errors=True)
    items = _OUTLINE_RE.findall(out.getvalue())
    if err is not None:
        n = len(items)
        how = exp_pages[n][1] if n < len(exp_pages) else "?"
        fails.append(("dumpoutline:exception:%s:%s" % (type(err).__name__, how.split(":")[-1] if how.startswith("action") else how),
                      "dumpoutline raised %r after listing %d of %d items; the next item is %r, destination given as %s"
                      % (err, n, len(exp_out), exp_out[n][:2] if n < len(exp_out) else None, how)))
        return fails, obs
    if len(items) != len(exp_out):
        fails.append(("dumpoutline:count", "dumppdf -T listed %d items, the outline has %d" % (len(items), len(exp_out))))
        return fails, obs
    seen = set()
    for i, ((lv, title, body), e, (pg, how)) in enumerate(zip(items, exp_out, exp_pages)):
        title = _CHARREF_RE.sub(lambda m: chr(int(m.group(1))), title)
        key = None
        if int(lv) != e[0]:
            key, d = "dumpoutline:level", "level %s, expected %d" % (lv, e[0])
        elif title != e[1]:
            key, d = "dumpoutline:title", "title %r, expected %r" % (title, e[1])
        else:
            obs["dumpoutline_items_compared"] = obs.get("dumpoutline_items_compared", 0) + 1
            if how.endswith(":empty_string"):
                obs["dumpoutline_pageno_not_compared"] = obs.get("dumpoutline_pageno_not_compared", 0) + 1
                continue
            m = _PAGENO_RE.search(body)
            got = int(m.group(1)) if m else None
            if got != pg:
                key, d = "dumpoutline:pageno:" + how, "page number %r, expected %r (destination given as %s)" % (got, pg, how)
            else:
                obs["dumpoutline_pageno:" + how] = obs.get("dumpoutline_pageno:" + how, 0) + 1
        if key is not None and key not in seen:
            seen.add(key)
            fails.append((key, "item %d of %d %r: %s" % (i, len(exp_out), e[:2], d)))
    obs["dumpoutline_docs"] = 1
    return fails, obs


def _outline_diff(got: List[List[Any]], exp: List[List[Any]]) -> Tuple[str, str]:
    exp_targets = [e for e in exp if e[2] is not None or e[3] is not None]
    if got == exp_targets:
        bare = [e for e in exp if e[2] is None and e[3] is None]
        return ("outline_item_without_dest_omitted",
                "%d of %d items have neither Dest nor A (Table 153: both optional) and are missing from get_outlines(), "
                "first: level %d title %r" % (len(bare), len(exp), bare[0][0], bare[0][1]))
    n = min(len(got), len(exp))
    for i in range(n):
        if got[i] != exp[i]:
            for f, name in enumerate(["level", "title", "dest", "action", "se"]):
                if got[i][f] != exp[i][f]:
                    return ("outline_" + name, "item %d of %d: got %r, expected %r" % (i, len(exp), got[i], exp[i]))
    return ("outline_count", "get_outlines() gave %d items, the outline has %d; first extra/missing: %r"
            % (len(got), len(exp), (got[n:n + 1] or exp[n:n + 1])))


def check_text(case: Dict[str, Any]) -> Tuple[List[Tuple[str, str]], Dict[str, int]]:
    from pdfminer.utils import decode_text

    data, exp = case["data"], case["expected"]
    try:
        got = decode_text(data)
    except Exception as e:  # noqa: BLE001
        return [(_exc_key(e, "decode_text"), "%r: %r" % (data, e))], {}
    if got == exp:
        return [], {"text_strings": 1}
    if data[:2] == b"\xfe\xff":
        return [("decode_text_utf16", "decode_text(%r) = %r, expected %r" % (data, got, exp))], {}
    bad = "len"
    for i, (a, b) in enumerate(zip(got, exp)):
        if a != b:
            bad = "0x%02X" % data[i]
            break
    return [("decode_text_pdfdoc:" + bad, "decode_text(%r) = %r, expected %r" % (data, got, exp))], {}


# --------------------------------------------------------------------------
# shards
# --------------------------------------------------------------------------
def minimums(tier: str) -> Dict[str, int]:
    # the number of cases per family is fixed by shards(); what varies with the seed is their content
    base = {"evaluations": 95000, "distinct": 70000, "labels_compared": 110000, "page_label_attrs_compared": 110000, "outline_items_compared": 100000,
            "lookups_present": 110000, "lookups_absent": 120000, "text_strings": 88000, "budgeted_docs": 90,
            "outline_items_without_dest_or_A": 9000, "no_labels_confirmed": 3000, "no_outlines_confirmed": 3000,
            "docs:alpha_gt26": 300, "docs:absent": 800, "max_siblings_bucket_>=1000": 4,
            "absent:tree_absent:gap_between_leaves": 15000, "absent:tree_absent:below_all": 5000,
            "absent:tree_absent:above_all": 5000, "feat:kids_unordered": 1500,
            "dumpoutline_docs": 2500, "dumpoutline_items_compared": 70000,
            "dumpoutline_pageno:explicit": 15000, "dumpoutline_pageno:explicit_indirect": 8000,
            "dumpoutline_pageno:string>array": 1000, "dumpoutline_pageno:string>dict": 300,
            "dumpoutline_pageno:string>dict>Dref": 300, "dumpoutline_pageno:string>ref>dict>Dref": 150,
            "dumpoutline_pageno:name>dict>Dref": 300, "dumpoutline_pageno:name>ref>dict>Dref": 250,
            "dumpoutline_pageno:action:explicit": 6000, "dumpoutline_pageno:action:string>dict>Dref": 30,
            "dumpoutline_pageno:action:name>dict>Dref": 30, "dumpoutline_pageno:action_indirect:explicit": 5000,
            "feat:limits_with_indirect_elements": 5000, "feat:nt_trees_limit_elems_indirect_2plus_leaves": 300,
            "feat:pl_trees_limit_elems_indirect": 300, "feat:leaf_keys_indirect": 3000,
            "present:dict_present:shared_spelling": 1500, "present:tree_present:shared_spelling": 1500,
            "absent:dict_absent:spelled_like_tree_key": 800, "absent:dict_absent:no_dict:spelled_like_tree_key": 1000,
            "absent:tree_absent:spelled_like_dict_name": 3000, "feat:docs_with_shared_name_and_string_spellings": 800,
            "caching_off_docs": 350, "caching_off_docs_multi_leaf_tree": 100, "caching_off_lookups": 5000,
            "strict_label_docs": 2500, "strict_label_docs_unbalanced_tree": 500,
            "trees_with_direct_kids:nt": 800, "trees_with_direct_kids:pl": 800, "feat:direct_kid_nodes": 8000}
    if tier != "quick":
        base = {k: v * 22 for k, v in base.items()}
    base.update({"seen:absent_classes": 11, "seen:label_styles": 6, "seen:pdfdoc_codes": 232, "seen:roman_values": 3999,
                 "seen:target_kinds": 8, "seen:tree_modes": 5, "seen:direct_kid_trees": 20, "seen:dumpoutline_dest_forms": 24, "docs:enum_roman": 80, "docs:enum_alpha": 104,
                 "text:enum_pdfdoc": 400, "text:enum_utf16": 441})
    return base


def shards(tier: str, seed: int) -> List[Dict[str, Any]]:
    q = tier == "quick"
    out: List[Dict[str, Any]] = []
    sub = 0

    def add(kind: str, count: int, n: int, **kw: Any) -> None:
        nonlocal sub
        for _ in range(count):
            d = {"kind": kind, "n": n, "sub": sub}
            d.update(kw)
            out.append(d)
            sub += 1

    mult = 1 if q else 24
    add("mixed", 6 * mult, 600)
    add("labels", 4 * mult, 300)
    add("dests", 4 * mult, 400)
    add("outlines", 4 * mult, 350)
    add("absent", 1 * mult, 800)
    add("alpha_gt26", 1 * mult, 300)
    add("chain", 2 * mult, 8, maxchain=1500 if q else 3000)
    add("deep", 2 * mult, 40)
    add("text", 3 * mult, 30000)
    # deterministic enumerations (independent of the seed)
    for part in range(4):
        out.append({"kind": "enum_roman", "part": part, "sub": 0})
    out.append({"kind": "enum_alpha", "sub": 0})
    out.append({"kind": "enum_text", "sub": 0})
    return out


# --------------------------------------------------------------------------
def _nontrivial(case: Dict[str, Any]) -> bool:
    st = case.get("stats", {})
    return (st.get("pl_ranges", 0) >= 2 or st.get("ol_items", 0) >= 2 or st.get("nt_entries", 0) >= 2
            or st.get("nt_nodes", 0) >= 2 or st.get("pl_nodes", 0) >= 2)


def _record(case: Dict[str, Any], rec) -> None:
    fails, obs = check_case(case)
    fam = case["fam"]
    if fam == "text":
        data = case["data"]
        rec.case(chash(data), data[:2] == b"\xfe\xff" or any(c >= 0x7F or c < 0x20 for c in data))
        rec.count("text:" + case["kind"])
        rec.see("text_kinds", case["kind"])
        if data[:2] != b"\xfe\xff":
            for c in set(data):
                rec.see("pdfdoc_codes", "%02X" % c)
    else:
        rec.case(chash(case["pdf"]), _nontrivial(case))
        rec.count("docs:" + fam)
        for k, v in case.get("feats", {}).items():
            rec.count("feat:" + k, v)
            if k.startswith("target_"):
                rec.see("target_kinds", k[7:])
            if k.startswith("nt_mode_") or k.startswith("pl_mode_"):
                rec.see("tree_modes", k[8:])
            if k.startswith("style_"):
                rec.see("label_styles", k[6:])
            if "_kids_direct_" in k:
                rec.see("direct_kid_trees", k)          # e.g. pl_kids_direct_mixed_depth4
                rec.count("trees_with_direct_kids:" + k[:2])
        st = case.get("stats", {})
        for k in ("nt_depth", "pl_depth", "nt_maxfan", "pl_maxfan", "ol_maxlevel"):
            if k in st:
                rec.see(k, st[k])
        for k in ("nt_entries", "nt_nodes", "pl_nodes", "pl_ranges", "ol_items"):
            if k in st:
                rec.count("sum:" + k, st[k])
        if "ol_max_siblings" in st:
            rec.count("max_siblings_bucket_%s" % ("<10" if st["ol_max_siblings"] < 10 else "<100" if st["ol_max_siblings"] < 100
                                                  else "<1000" if st["ol_max_siblings"] < 1000 else ">=1000"))
        if case.get("bare_items"):
            rec.count("outline_items_without_dest_or_A", case["bare_items"])
    for k, v in obs.items():
        if k.startswith("absent:"):
            rec.see("absent_classes", k[7:])
            rec.count(k, v)
        elif k in ("max_steps", "budget"):
            pass
        elif k.startswith("dumpoutline_pageno:"):
            rec.count(k, v)
            rec.see("dumpoutline_dest_forms", k[19:])
        else:
            rec.count(k, v)
    if "max_steps" in obs:
        ratio = obs["max_steps"] * 100 // max(obs["budget"], 1)
        rec.count("budget_used_pct_bucket_%s" % ("<1" if ratio < 1 else "<5" if ratio < 5 else ">=5"))
    for k, d in fails:
        rec.fail(k, case, d)
    if rec.want_sample() and fam != "text" and _nontrivial(case) and len(case["pdf"]) < 6000:
        rec.sample({"fam": fam, "npages": case["npages"], "labels": case["labels"], "outlines": case["outlines"],
                    "lookups": case["lookups"][:6], "stats": case.get("stats"), "pdf_bytes": len(case["pdf"])})


def _forced_ranges(style: Optional[str], st: int, npages: int, prefix: bytes = b"") -> List[Dict[str, Any]]:
    from vf.ref import c17ref as R

    return [{"start": 0, "S": style, "Pbytes": prefix, "P": R.decode_text_string(prefix), "has_P": bool(prefix),
             "St": st, "St_written": st, "length": npages}]


def run_shard(spec: Dict[str, Any], rec) -> None:
    from vf.gen import c17gen as G
    from vf.ref import c17ref as R

    kind = spec["kind"]
    if kind.startswith("enum_"):
        rng = random.Random("C17/enum/%s/%s" % (kind, spec.get("part", 0)))      # independent of the seed
    else:
        rng = random.Random("C17/%d/%d/%s" % (spec["seed"], spec["sub"], kind))
    if kind in ("mixed", "labels", "dests", "outlines", "absent"):
        for _ in range(spec["n"]):
            _record(G.gen_doc(rng, kind), rec)
    elif kind == "alpha_gt26":
        for _ in range(spec["n"]):
            case = G.gen_doc(rng, "alpha_gt26", {"profile": "labels", "alpha_gt26": True, "prof": {"pages": (2, 60), "ranges": (1, 4)}})
            assert case["alpha_gt26_pages"]
            _record(case, rec)
    elif kind == "chain":
        for i in range(spec["n"]):
            # the first two of every shard are long for certain (the recursion limit is 1000 frames)
            n = [spec["maxchain"], 1100][i] if i < 2 else rng.choice([spec["maxchain"] * 2 // 3, 1100, rng.randint(200, spec["maxchain"])])
            case = G.gen_doc(rng, "chain", {"profile": "outlines", "chain": n, "budget": True,
                                            "prof": {"items": (0, 30), "pages": (1, 3), "p_tree": 0.3, "p_dict": 0.3}})
            _record(case, rec)
    elif kind == "deep":
        for _ in range(spec["n"]):
            prof = rng.choice([{"pages": (20, 120), "p_labels": 1.0, "ranges": (8, 40), "p_tree": 1.0, "keys": (20, 120)},
                               {"pages": (1, 4), "p_labels": 0.3, "p_tree": 1.0, "keys": (30, 200), "p_outl": 0.3}])
            _record(G.gen_doc(rng, "deep", {"profile": "mixed", "deep": True, "budget": True, "prof": prof}), rec)
    elif kind == "text":
        for _ in range(spec["n"]):
            b, t, k = G.gen_text(rng, rng.choice(G.TEXT_KINDS[:6]), 40)
            assert R.decode_text_string(b) == t
            _record({"fam": "text", "kind": k, "data": b, "expected": t}, rec)
    elif kind == "enum_roman":
        # every value 1..3999 in both cases: documents of 100 pages, St = 1, 101, 201, ...
        part = spec["part"]
        for j, st in enumerate(range(1, 4000, 100)):
            if j % 4 != part:
                continue
            npages = min(100, 3999 - st + 1)
            for style in ("R", "r"):
                case = G.gen_doc(rng, "enum_roman", {"profile": "labels", "npages": npages,
                                                     "labels_forced": _forced_ranges(style, st, npages)})
                _record(case, rec)
            for v in range(st, st + npages):
                rec.see("roman_values", v)
    elif kind == "enum_alpha":
        for style in ("A", "a", "D", None):
            for st in range(1, 27):
                npages = 26 - st + 1 if style in ("A", "a") else 3
                case = G.gen_doc(rng, "enum_alpha", {"profile": "labels", "npages": npages,
                                                     "labels_forced": _forced_ranges(style, st, npages, b"p\x85" if st % 2 else b"")})
                _record(case, rec)
    elif kind == "enum_text":
        codes = R.PDFDOC_CODES
        strings: List[bytes] = [b"", b"\xfe\xff"]
        strings += [bytes([c]) for c in codes]
        strings += [bytes([c, d]) for c in codes if c < 0x20 or 0x7F <= c <= 0xA1 for d in (0x41, 0x80, 0x1F, 0xFF)]
        strings += [bytes(codes), bytes(reversed(codes))]
        # only FE FF marks UTF-16 (7.9.2.2); these look similar and are PDFDocEncoding: thorn, ydieresis, ...
        strings += [b"\xff\xfe", b"\xff\xfeA", b"\xfe", b"\xff", b"\xfeA", b"\xfe\xfe\xff", b"A\xfe\xff", b"\xfe\x20\xff",
                    b"\xef\xbb", b"\xbb\xbf\xef"]
        strings = [s for s in strings if not G._bad_pdfdoc_start(s)]
        for s in strings:
            _record({"fam": "text", "kind": "enum_pdfdoc", "data": s, "expected": R.decode_text_string(s)}, rec)
        cps = [0x0000, 0x0001, 0x001A, 0x001C, 0x007F, 0x0080, 0x009F, 0x00AD, 0x00FF, 0x0100, 0x07FF, 0x0800, 0xD7FF, 0xE000,
               0xFEFF, 0xFFFD, 0xFFFE, 0xFFFF, 0x10000, 0x1F600, 0x10FFFF]
        for a in cps:
            for b in cps:
                t = chr(a) + "x" + chr(b)
                d = b"\xfe\xff" + t.encode("utf-16-be")
                _record({"fam": "text", "kind": "enum_utf16", "data": d, "expected": t}, rec)
    else:
        raise ValueError(kind)


def finish(agg: Dict[str, Any], tier: str) -> Dict[str, Any]:
    c = agg["counters"]
    return {
        "exhaustive_parts": {
            "roman_numerals": "every value 1..3999, styles R and r (80 documents of 100 pages)",
            "letter_labels": "every value 1..26 at every St, styles A and a",
            "pdfdocencoding": "each of the 232 defined codes alone, the non-Latin-1 codes in pairs, all codes in one string",
            "utf16": "21 x 21 boundary code points (U+0000, U+D7FF, U+E000, U+FEFF, U+FFFF, U+10000, U+10FFFF, ...)",
        },
        "documents_by_family": {k[5:]: v for k, v in sorted(c.items()) if k.startswith("docs:")},
        "absent_lookups_by_position": {k[7:]: v for k, v in sorted(c.items()) if k.startswith("absent:")},
        "features": {k[5:]: v for k, v in sorted(c.items()) if k.startswith("feat:")},
    }


def replay(case: Dict[str, Any]) -> List[Tuple[str, str]]:
    return check_case(case)[0]
