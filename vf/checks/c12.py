"""C12 — extraction is a pure function of the document bytes and the options.

A pool of documents designed to collide (same object numbers, same resource
names, same /BaseFont with different Differences over each base encoding,
ToUnicode maps that disagree, predefined CMaps, standard-14 fonts, encrypted and
plaintext twins, multi-page documents) is extracted once per (document, API) in
a FRESH subprocess (baseline).  Then, in long-lived worker processes, random
histories of 20-60 calls (extract_text / extract_pages / extract_text_to_fp text
and xml; caching on/off; page subsets; one page at a time) and random schedules
interleaving 2-4 live extract_pages iterators are run.

Monitors: (1) every output equals the fresh-process baseline, page for page;
(2) fingerprints of process-wide shared tables (EncodingDB tables, FONT_METRICS,
PREDEFINED_COLORSPACE, cached CMap / Unicode-map objects, settings.STRICT) taken
at quiescent points never change; (3) page-at-a-time == all-at-once and
caching on == off.
"""
from __future__ import annotations

import hashlib
import io
import json
import os
import random
import subprocess
import sys
import zlib
from concurrent.futures import ThreadPoolExecutor
from typing import Any, Dict, List, Optional, Tuple

from vf import VERIF_ROOT
from vf.common import chash
from vf.gen.pdfw import Doc, N, Name, Ref, Stream, font_type1, font_widths

ID = "C12"
LEVEL = "exploration"
DESIGN_REF = "DESIGN.md#C12"
TECHNIQUE = "runtime monitoring: differential/history checker (fresh-process baselines vs. long-lived call histories and interleaved iterators) + shared-state fingerprints at quiescent points"
LEVEL_TEXT = (
    'Exploration of call histories: every output in long-lived processes (random histories, interleaved iterators, caching on/off, page subsets, allocator perturbation) is compared with the output of a fresh interpreter process for the same bytes and options, and process-wide tables are fingerprinted after every call. Right level: purity is a property of all histories; differential comparison against a history-free execution is exact, and the pool is built to collide on every cache key the code uses.'
)
RULE = (
    "pool of 40 colliding documents (see coverage.pool); baselines = each (document, API) in a fresh subprocess; histories = 20-60 random calls "
    "(API in {extract_text, extract_pages, to_fp text, to_fp xml} x caching {on,off} x page subset x page-at-a-time) and "
    "schedules interleaving 2-4 live extract_pages iterators step by step; every output compared with the baseline; shared "
    "tables fingerprinted after every call. distinct = distinct histories (by call sequence); non-trivial = history uses "
    ">=2 distinct documents that share a colliding feature group. Only the high-level API is driven (each call owns its "
    "resource manager), as the statement's observation points say."
)
ASSUMPTIONS = [
    "a fresh interpreter process has no history: its output is the function value for (bytes, options)",
    "the canonical tree signature (class, exact bbox repr, text, font name, size, box index, figure/image names, shape points) captures the result page for page",
    "PYTHONHASHSEED is fixed (0) in baselines and workers, as everywhere in the harness",
]
SHARD_TIMEOUT = {"quick": 900, "thorough": 7200}
APIS = ["text", "pages", "fp_text", "fp_xml"]


def minimums(tier: str) -> Dict[str, int]:
    if tier == "quick":
        return {"evaluations": 4000, "distinct": 150, "calls_compared": 4000, "fingerprint_checks": 4000, "interleaved_pages": 300,
                "seen:docs_used": 50, "page_at_a_time_calls": 300, "caching_off_calls": 800, "group_round_robins": 16}
    return {"evaluations": 100000, "distinct": 3000, "calls_compared": 90000, "fingerprint_checks": 90000, "interleaved_pages": 8000,
            "seen:docs_used": 50, "page_at_a_time_calls": 9000, "caching_off_calls": 25000, "group_round_robins": 16}


# --------------------------------------------------------------------------
# the pool
# --------------------------------------------------------------------------
def _tounicode(pairs: List[Tuple[int, str]], nbytes: int, usecmap: Optional[str] = None) -> bytes:
    fmt = "<%0" + str(nbytes * 2) + "X>"
    lines = ["/CIDInit /ProcSet findresource begin", "12 dict begin", "begincmap"]
    if usecmap:
        lines.append("/%s usecmap" % usecmap)
    lines += ["/CMapName /Adobe-Identity-UCS def", "/CMapType 2 def", "1 begincodespacerange",
              (fmt + " " + fmt) % (0, 256 ** nbytes - 1), "endcodespacerange", "%d beginbfchar" % len(pairs)]
    for code, s in pairs:
        lines.append((fmt % code) + " <" + s.encode("utf-16-be").hex().upper() + ">")
    lines += ["endbfchar", "endcmap", "CMapName currentdict /CMap defineresource pop", "end", "end"]
    return "\n".join(lines).encode()


def _simple_doc(font: Dict[str, Any], texts: List[bytes], extra_font_objs: Optional[Dict[str, Any]] = None) -> Doc:
    """All simple documents share object numbers: 1 font, 2.. content, then catalog/pages/pages."""
    doc = Doc()
    f = dict(font)
    if extra_font_objs:
        for k, v in extra_font_objs.items():
            f[k] = v
    fref = doc.alloc()
    conts = [doc.add(Stream({}, b"BT /F1 12 Tf 30 250 Td 14 TL (" + t + b") Tj T* (line two " + t[:3] + b") Tj ET 10 10 80 20 re S")) for t in texts]
    tu = f.pop("__tounicode__", None)
    if tu is not None:
        f["ToUnicode"] = doc.add(Stream({}, tu))
    doc.set(fref, f)
    cat = doc.alloc()
    pages = doc.alloc()
    kids = [doc.add({"Type": N("Page"), "Parent": pages, "MediaBox": [0, 0, 300, 300], "Resources": {"Font": {"F1": fref}}, "Contents": c}) for c in conts]
    doc.set(pages, {"Type": N("Pages"), "Kids": kids, "Count": len(kids)})
    doc.set(cat, {"Type": N("Catalog"), "Pages": pages})
    doc.trailer["Root"] = cat
    return doc


def build_pool() -> List[Dict[str, Any]]:
    """-> [{"name", "pdf", "group", "password"}]  (deterministic)"""
    from vf.gen.crypt import StdEncryptor
    from vf.gen.seeds13 import seed_graphics, seed_type0, seed_type3, seed_xrefstm, build

    pool: List[Dict[str, Any]] = []

    def add(name: str, pdf: bytes, group: str, password: str = "") -> None:
        pool.append({"name": name, "pdf": pdf, "group": group, "password": password})

    t2 = [b"ABC abc Hello", b"second ABBA page", b"third Cab"]
    helv = font_type1("Helvetica")
    for base in ("WinAnsiEncoding", "MacRomanEncoding", "StandardEncoding"):
        add("plain-" + base, _simple_doc(dict(helv, Encoding=N(base)), t2).build(), "enc:" + base)
        add("diffAB-" + base, _simple_doc(dict(helv, Encoding={"Type": N("Encoding"), "BaseEncoding": N(base), "Differences": [65, N("B"), N("A"), 97, N("ccedilla")]}), t2).build(), "enc:" + base)
        add("diffCx-" + base, _simple_doc(dict(helv, Encoding={"Type": N("Encoding"), "BaseEncoding": N(base), "Differences": [67, N("x"), 32, N("underscore")]}), t2).build(), "enc:" + base)
    add("noenc-helv", _simple_doc(dict(helv), t2).build(), "enc:StandardEncoding")
    add("noenc-helv-othertext", _simple_doc(dict(helv), [b"ZZZ other", b"other two", b"x"]).build(), "enc:StandardEncoding")
    add("times", _simple_doc(font_type1("Times-Roman"), t2).build(), "std14")
    add("courier-diff", _simple_doc(dict(font_type1("Courier"), Encoding={"Type": N("Encoding"), "Differences": [72, N("uni0126")]}), t2).build(), "std14")
    tt = font_widths(name="Coll", first=32, widths=[500] * 95, subtype="TrueType", encoding=N("WinAnsiEncoding"))
    add("tt-tuX", _simple_doc(dict(tt, __tounicode__=_tounicode([(65, "X"), (66, "Y")], 1)), t2).build(), "tounicode")
    add("tt-tuQ", _simple_doc(dict(tt, __tounicode__=_tounicode([(65, "Q"), (67, "ffl")], 1)), t2).build(), "tounicode")
    add("tt-tu-usecmap", _simple_doc(dict(tt, __tounicode__=_tounicode([(66, "Z")], 1, usecmap="Identity-H")), t2).build(), "tounicode")
    add("tt-notu", _simple_doc(dict(tt), t2).build(), "tounicode")
    d, o = seed_type0()
    add("type0", build(d, o), "cmap")
    # two Type0 fonts sharing ONE descendant CIDFont object, one with and one without ToUnicode, on different pages
    sd = Doc()
    sfd = sd.add({"Type": N("FontDescriptor"), "FontName": N("Shared"), "Flags": 4, "FontBBox": [0, -200, 1000, 800], "ItalicAngle": 0,
                  "Ascent": 800, "Descent": -200, "CapHeight": 700, "StemV": 80})
    scid = sd.add({"Type": N("Font"), "Subtype": N("CIDFontType2"), "BaseFont": N("Shared"),
                   "CIDSystemInfo": {"Registry": b"Adobe", "Ordering": b"Identity", "Supplement": 0}, "FontDescriptor": sfd, "DW": 600})
    stu = sd.add(Stream({}, _tounicode([(1, "X"), (2, "Y")], 2)))
    sfa = sd.add({"Type": N("Font"), "Subtype": N("Type0"), "BaseFont": N("Shared"), "Encoding": N("Identity-H"), "DescendantFonts": [scid], "ToUnicode": stu})
    sfb = sd.add({"Type": N("Font"), "Subtype": N("Type0"), "BaseFont": N("Shared"), "Encoding": N("Identity-H"), "DescendantFonts": [scid]})
    scat, spg = sd.alloc(), sd.alloc()
    skids = []
    for fref in (sfa, sfb, sfa):
        c = sd.add(Stream({}, b"BT /F1 12 Tf 30 200 Td <00010002> Tj ET"))
        skids.append(sd.add({"Type": N("Page"), "Parent": spg, "MediaBox": [0, 0, 300, 300], "Resources": {"Font": {"F1": fref}}, "Contents": c}))
    sd.set(spg, {"Type": N("Pages"), "Kids": skids, "Count": 3})
    sd.set(scat, {"Type": N("Catalog"), "Pages": spg})
    sd.trailer["Root"] = scat
    add("type0-shared-descendant", sd.build(), "cmap")
    # horizontal and vertical CID fonts of ONE predefined collection, no ToUnicode, showing CIDs whose horizontal and
    # vertical Unicode values differ (arrows, box-drawing lines): the unicode maps are cached per collection
    for mode in ("H", "V"):
        jd = Doc()
        jfd = jd.add({"Type": N("FontDescriptor"), "FontName": N("J" + mode), "Flags": 4, "FontBBox": [0, -200, 1000, 800], "ItalicAngle": 0,
                      "Ascent": 800, "Descent": -200, "CapHeight": 700, "StemV": 80})
        jcid = jd.add({"Type": N("Font"), "Subtype": N("CIDFontType0"), "BaseFont": N("J" + mode),
                       "CIDSystemInfo": {"Registry": b"Adobe", "Ordering": b"Japan1", "Supplement": 2}, "FontDescriptor": jfd, "DW": 1000})
        jf = jd.add({"Type": N("Font"), "Subtype": N("Type0"), "BaseFont": N("J" + mode), "Encoding": N("Identity-" + mode), "DescendantFonts": [jcid]})
        jcat, jpg = jd.alloc(), jd.alloc()
        jk = []
        for cids in ((736, 737, 7479, 843), (738, 7481, 844)):
            c = jd.add(Stream({}, b"BT /F1 12 Tf 100 200 Td <" + b"".join(b"%04X" % x for x in cids) + b"> Tj ET"))
            jk.append(jd.add({"Type": N("Page"), "Parent": jpg, "MediaBox": [0, 0, 300, 300], "Resources": {"Font": {"F1": jf}}, "Contents": c}))
        jd.set(jpg, {"Type": N("Pages"), "Kids": jk, "Count": 2})
        jd.set(jcat, {"Type": N("Catalog"), "Pages": jpg})
        jd.trailer["Root"] = jcat
        add("japan1-" + mode, jd.build(), "cmap")
    # a page that leaves non-default text state behind (Tc, Tz, TL, Ts), followed by pages relying on the defaults
    cd = Doc()
    cf = cd.add(font_widths(name="Carry", first=32, widths=[500] * 95, subtype="TrueType", encoding=N("WinAnsiEncoding")))
    ccat, cpg = cd.alloc(), cd.alloc()
    ck = []
    for content in (b"BT /F1 12 Tf 6 Tc 150 Tz 20 TL 3 Ts 30 200 Td (Hello) Tj ET", b"BT /F1 12 Tf 30 200 Td (World) Tj T* (again) Tj ET",
                    b"BT 30 100 Td /F1 10 Tf (third page) Tj ET"):
        ck.append(cd.add({"Type": N("Page"), "Parent": cpg, "MediaBox": [0, 0, 300, 300], "Resources": {"Font": {"F1": cf}},
                          "Contents": cd.add(Stream({}, content))}))
    cd.set(cpg, {"Type": N("Pages"), "Kids": ck, "Count": 3})
    cd.set(ccat, {"Type": N("Catalog"), "Pages": cpg})
    cd.trailer["Root"] = ccat
    add("textstate-carry", cd.build(), "misc")
    # one /Font resource dictionary mixing an indirect font reference and font dictionaries written inline
    md = Doc()
    mf1 = md.add(dict(font_widths(name="MixA", first=32, widths=[400] * 95, subtype="TrueType", encoding=N("WinAnsiEncoding"))))
    inline2 = font_widths(name="MixB", first=32, widths=[700] * 95, subtype="TrueType",
                          encoding={"Type": N("Encoding"), "BaseEncoding": N("WinAnsiEncoding"), "Differences": [65, N("x"), N("y"), N("z")]})
    inline3 = dict(font_widths(name="MixC", first=32, widths=[900] * 95, subtype="TrueType", encoding=N("WinAnsiEncoding")))
    inline3["ToUnicode"] = md.add(Stream({}, _tounicode([(65, "\u0416")], 1)))
    mcat, mpg = md.alloc(), md.alloc()
    mk = []
    for fonts in ({"F1": mf1, "F2": inline2, "F3": inline3}, {"F2": inline2, "F1": mf1}):
        cont = b"BT 14 TL 30 250 Td " + b" ".join(b"/%s 12 Tf (ABC) Tj T*" % k.encode() for k in fonts) + b" ET"
        mk.append(md.add({"Type": N("Page"), "Parent": mpg, "MediaBox": [0, 0, 300, 300], "Resources": {"Font": dict(fonts)},
                          "Contents": md.add(Stream({}, cont))}))
    md.set(mpg, {"Type": N("Pages"), "Kids": mk, "Count": 2})
    md.set(mcat, {"Type": N("Catalog"), "Pages": mpg})
    md.trailer["Root"] = mcat
    add("fonts-indirect-and-inline", md.build(), "tounicode")
    # a base encoding name pdfminer has no table for (valid PDF: MacExpertEncoding) with Differences
    add("macexpert-diff", _simple_doc(dict(helv, Encoding={"Type": N("Encoding"), "BaseEncoding": N("MacExpertEncoding"),
                                                           "Differences": [65, N("Z"), N("Y"), 32, N("underscore")]}), t2).build(), "enc:StandardEncoding")
    d, o = seed_type3()
    add("type3", build(d, o), "misc")
    d, o = seed_graphics()
    add("graphics", build(d, o), "misc")
    d, o = seed_xrefstm()
    add("xrefstm", build(d, o), "misc")
    # many text boxes at pairwise EQUAL distances: hierarchical grouping has to break ties
    gdoc = Doc()
    gf = gdoc.add(font_widths(name="Grid", first=32, widths=[500] * 95, subtype="TrueType", encoding=N("WinAnsiEncoding")))
    gpages = []
    for variant in range(2):
        ops = []
        for i in range(5):
            for j in range(5):
                if variant == 1 and (i + j) % 3 == 0:
                    continue
                ops.append(b"BT /F1 8 Tf 1 0 0 1 %d %d Tm (w%d%d) Tj ET" % (20 + 50 * i, 260 - 50 * j, i, j))
        gpages.append(gdoc.add(Stream({}, b"\n".join(ops))))
    gcat, gpg = gdoc.alloc(), gdoc.alloc()
    gkids = [gdoc.add({"Type": N("Page"), "Parent": gpg, "MediaBox": [0, 0, 300, 300], "Resources": {"Font": {"F1": gf}}, "Contents": c}) for c in gpages]
    gdoc.set(gpg, {"Type": N("Pages"), "Kids": gkids, "Count": len(gkids)})
    gdoc.set(gcat, {"Type": N("Catalog"), "Pages": gpg})
    gdoc.trailer["Root"] = gcat
    add("grid-ties", gdoc.build(), "misc")
    # six words of unequal width in three columns: several pairs of boxes are exactly equidistant and the merge
    # order decides the READING order (found by the C11 builder: group_textboxes broke such ties by id(obj))
    from vf.gen.pdfw import page_doc
    words = [(250, 170, b"w4m"), (60, 130, b"w1"), (150, 130, b"w0mmmmmmmm"), (250, 130, b"w3mm"), (60, 90, b"w5m"), (250, 90, b"w2m")]
    tcont = b" ".join(b"BT /F1 10 Tf 1 0 0 1 %d %d Tm (%s) Tj ET" % w for w in words)
    add("word-ties", page_doc([{"content": tcont, "resources": {"Font": {"F1": font_type1("Helvetica")}}, "mediabox": [0, 0, 400, 300]},
                               {"content": tcont.replace(b"w0mmmmmmmm", b"w0mm"), "resources": {"Font": {"F1": font_type1("Helvetica")}}, "mediabox": [0, 0, 400, 300]}]).build(), "misc")
    # a page WITHOUT resources that names the font, form and colour space the page before it defines
    rd = Doc()
    rfont = rd.add(dict(font_widths(name="Res", first=32, widths=[600] * 95, subtype="TrueType",
                                    encoding={"Type": N("Encoding"), "BaseEncoding": N("WinAnsiEncoding"), "Differences": [65, N("x"), N("y"), N("z")]})))
    rform = rd.add(Stream({"Type": N("XObject"), "Subtype": N("Form"), "BBox": [0, 0, 300, 300], "Resources": {"Font": {"F1": rfont}}},
                          b"BT /F1 10 Tf 30 100 Td (form text) Tj ET"))
    ricc = rd.add(Stream({"N": 4}, b"\x00" * 16))
    rres = {"Font": {"F1": rfont}, "XObject": {"Fm0": rform}, "ColorSpace": {"Cs1": [N("ICCBased"), ricc]}}
    rcont = b"/Cs1 cs 0.1 0.2 0.3 0.4 scn BT /F1 12 Tf 30 200 Td (ABC one) Tj ET /Fm0 Do 10 10 50 50 re f"
    rbare = b"/Cs1 cs 0.4 scn BT /F1 12 Tf 30 200 Td (ABC two) Tj ET /Fm0 Do 10 10 50 50 re f"
    add("page-without-resources", page_doc([{"content": rcont, "resources": rres, "mediabox": [0, 0, 300, 300]},
                                            {"content": rbare, "resources": {}, "mediabox": [0, 0, 300, 300]},
                                            {"content": rcont, "resources": rres, "mediabox": [0, 0, 300, 300]},
                                            {"content": rbare, "resources": {}, "mediabox": [0, 0, 300, 300]}], doc=rd).build(), "resources")
    # the same names used by a document that defines none of them (the colour space table is process-wide)
    add("names-undefined", page_doc([{"content": rbare, "resources": {"Font": {"F9": font_type1("Helvetica")}}, "mediabox": [0, 0, 300, 300]},
                                     {"content": rbare.replace(b"/F1", b"/F9"), "resources": {"Font": {"F9": font_type1("Helvetica")}}, "mediabox": [0, 0, 300, 300]}]).build(), "resources")
    # a form XObject that cannot be rendered (extraction raises) and a good document with a form at the SAME object number
    for fname, fextra, fdata in (("form-undecodable", {"Filter": N("Crypt"), "DecodeParms": {"Name": N("Custom")}}, b"BT /F1 12 Tf 30 100 Td (broken) Tj ET"),
                                 ("form-good-same-objid", {}, b"BT /F1 12 Tf 30 100 Td (inside the form) Tj ET")):
        fd = Doc()
        ffont = fd.add(font_type1("Helvetica"))
        fd_form = dict({"Type": N("XObject"), "Subtype": N("Form"), "BBox": [0, 0, 300, 300], "Resources": {"Font": {"F1": ffont}}}, **fextra)
        fform = fd.add(Stream(fd_form, fdata))
        fcont = b"BT /F1 12 Tf 30 200 Td (on the page) Tj ET q /Fm0 Do Q"
        add(fname, page_doc([{"content": fcont, "resources": {"Font": {"F1": ffont}, "XObject": {"Fm0": fform}}, "mediabox": [0, 0, 300, 300]}] * 2, doc=fd).build(), "forms")
    # a page that leaves non-default line width, dash pattern and colours behind (outside q..Q), followed by pages
    # that paint before setting any of them: every page starts from the initial graphics state
    gcont1 = b"3 w [4 2] 1 d 1 0 0 RG 0 1 0 rg 2 J 10 10 m 200 10 l S 20 20 60 40 re B BT /F1 12 Tf 30 200 Td (first) Tj ET"
    gcont2 = b"10 50 m 200 50 l S 20 80 60 40 re B BT /F1 12 Tf 30 200 Td (second) Tj ET"
    gres = {"Font": {"F1": font_type1("Helvetica")}}
    add("gstate-carry", page_doc([{"content": gcont1, "resources": gres, "mediabox": [0, 0, 300, 300]},
                                  {"content": gcont2, "resources": gres, "mediabox": [0, 0, 300, 300]},
                                  {"content": gcont2.replace(b"second", b"third"), "resources": gres, "mediabox": [0, 0, 300, 300]}]).build(), "misc")
    # pages sharing ONE indirect /Contents array (and a page sharing one of its streams): nothing a page's rendering
    # does to the array or the streams may show on the next page, with or without object caching
    sc = Doc()
    sc1 = sc.add(Stream({}, b"BT /F1 12 Tf 30 200 Td (shared "))
    sc2 = sc.add(Stream({}, b"contents) Tj ET 10 10 50 20 re S"))
    scarr = sc.add([sc1, sc2])
    scres = {"Font": {"F1": font_type1("Helvetica")}}
    add("shared-contents-array", page_doc([{"content": b"", "resources": scres, "mediabox": [0, 0, 300, 300], "extra": {"Contents": scarr}},
                                           {"content": b"", "resources": scres, "mediabox": [0, 0, 300, 300], "extra": {"Contents": scarr}},
                                           {"content": b"", "resources": scres, "mediabox": [0, 0, 300, 300], "extra": {"Contents": [sc1, sc2]}},
                                           {"content": b"", "resources": scres, "mediabox": [0, 0, 300, 300], "extra": {"Contents": scarr}}], doc=sc).build(), "misc")
    # two documents whose content streams are LZW-coded (several hundred codes each, different dictionaries): the decoder's
    # tables are per stream, whatever was decoded before in the process
    from vf.ref.filters import lzw_encode
    for lname, ltexts in (("lzw-a", [b"alpha beta gamma %d" % i for i in range(60)]), ("lzw-b", [b"ZYX wvu %d tsr QPO" % (i * 7) for i in range(70)])):
        lpages = []
        for half in (ltexts[: len(ltexts) // 2], ltexts[len(ltexts) // 2:]):
            lc = b"BT /F1 6 Tf 20 290 Td 7 TL " + b" ".join(b"(" + t + b") Tj T*" for t in half) + b" ET"
            lpages.append({"content": Stream({"Filter": N("LZWDecode")}, lzw_encode(lc)), "resources": {"Font": {"F1": font_type1("Helvetica")}},
                           "mediabox": [0, 0, 300, 300]})
        add(lname, page_doc(lpages).build(), "lzw")
    # an RC4 document whose two pages paint the same form XObject: with caching off the stream is decrypted once per use
    rd4 = Doc()
    rfont4 = rd4.add(font_type1("Helvetica"))
    rform4 = rd4.add(Stream({"Type": N("XObject"), "Subtype": N("Form"), "BBox": [0, 0, 300, 300], "Resources": {"Font": {"F1": rfont4}}},
                            b"BT /F1 10 Tf 30 100 Td (shared form text) Tj ET"))
    rres4 = {"Font": {"F1": rfont4}, "XObject": {"Fm0": rform4}}
    rdoc4 = page_doc([{"content": b"BT /F1 12 Tf 30 200 Td (page one) Tj ET /Fm0 Do", "resources": rres4, "mediabox": [0, 0, 300, 300]},
                      {"content": b"BT /F1 12 Tf 30 200 Td (page two) Tj ET /Fm0 Do", "resources": rres4, "mediabox": [0, 0, 300, 300]}],
                     doc=rd4, info={"Title": b"rc4 shared form", "Author": b"second string"})
    enc = StdEncryptor(2, 3, 128, None, b"", b"owner", -3904, random.Random(1203), id0=b"0123456789abcdeF", id1=b"0123456789abcdeF")
    add("rc4-shared-form", rdoc4.build(encryptor=enc), "crypt")
    # encrypted twins of plain-WinAnsiEncoding (same text, same object numbers)
    tw = _simple_doc(dict(helv, Encoding=N("WinAnsiEncoding")), t2)
    enc = StdEncryptor(2, 3, 128, None, b"", b"owner", -3904, random.Random(1201), id0=b"0123456789abcdef", id1=b"0123456789abcdef")
    add("twin-rc4", tw.build(encryptor=enc), "enc:WinAnsiEncoding")
    tw = _simple_doc(dict(helv, Encoding=N("WinAnsiEncoding")), t2)
    enc = StdEncryptor(4, 4, 128, "AESV2", b"user", b"owner", -1852, random.Random(1202), id0=b"fedcba9876543210", id1=b"fedcba9876543210")
    add("twin-aes", tw.build(encryptor=enc), "crypt-v4", password="user")
    # an incremental update that replaces a page dictionary stored in an OBJECT STREAM of the first revision, the other
    # members of that stream (catalog, page tree) staying live: the newest definition wins with caching on and off
    from vf.gen.xrefw import render_history
    ufont = font_type1("Helvetica")
    rev0 = {1: {"Type": N("Catalog"), "Pages": Ref(2)}, 2: {"Type": N("Pages"), "Kids": [Ref(3), Ref(7)], "Count": 2},
            3: {"Type": N("Page"), "Parent": Ref(2), "MediaBox": [0, 0, 300, 300], "Resources": {"Font": {"F1": Ref(4)}}, "Contents": Ref(5)},
            4: ufont, 5: Stream({}, b"BT /F1 12 Tf 30 200 Td (superseded text) Tj ET"), 6: Stream({}, b"BT /F1 12 Tf 30 200 Td (current text) Tj ET"),
            7: {"Type": N("Page"), "Parent": Ref(2), "MediaBox": [0, 0, 300, 300], "Resources": {"Font": {"F1": Ref(4)}}, "Contents": Ref(5)}}
    rev1 = {3: dict(rev0[3], Contents=Ref(6))}
    uhist = [{"objs": rev0, "root": 1, "info": None}, {"objs": rev1, "root": 1, "info": None}]
    for useed in range(400):
        UR = render_history(uhist, random.Random(useed), forms=["stream", "stream"], tail_ws=False)
        if {(0, 1), (0, 2), (0, 3), (0, 7)} <= UR.packed and (1, 3) not in UR.packed:
            add("update-replaces-objstm-member", UR.data, "misc")
            break
    # two Type0 fonts in two documents with the SAME object numbers and DIFFERENT ToUnicode CMaps
    for tname, tpairs in (("type0-tounicode-a", [(1, "One"), (2, "Uno")]), ("type0-tounicode-b", [(1, "Two"), (2, "Due")])):
        td = Doc()
        tfd = td.add({"Type": N("FontDescriptor"), "FontName": N("TuTwin"), "Flags": 4, "FontBBox": [0, -200, 1000, 800], "ItalicAngle": 0,
                      "Ascent": 800, "Descent": -200, "CapHeight": 700, "StemV": 80})
        tcid = td.add({"Type": N("Font"), "Subtype": N("CIDFontType2"), "BaseFont": N("TuTwin"),
                       "CIDSystemInfo": {"Registry": b"Adobe", "Ordering": b"Identity", "Supplement": 0}, "FontDescriptor": tfd, "DW": 600})
        ttu = td.add(Stream({}, _tounicode(tpairs, 2)))
        tf = td.add({"Type": N("Font"), "Subtype": N("Type0"), "BaseFont": N("TuTwin"), "Encoding": N("Identity-H"), "DescendantFonts": [tcid], "ToUnicode": ttu})
        tpages = [{"content": b"BT /F1 12 Tf 30 %d Td <0001> Tj 0 -20 Td <0002> Tj ET" % y, "resources": {"Font": {"F1": tf}}, "mediabox": [0, 0, 300, 300]} for y in (200, 150)]
        add(tname, page_doc(tpages, doc=td).build(), "cmap-tounicode")
    # a valid document with 67000 distinct names (marked-content tags): whatever tables the library keeps per process
    # (interned names, caches) may fill up or be trimmed, later documents must not notice
    import zlib as _zlib
    mbody = b"BT /F1 12 Tf 30 200 Td (many names) Tj ET " + b" ".join(b"/T%x BMC EMC" % i for i in range(67000))
    add("many-distinct-names", page_doc([{"content": Stream({"Filter": N("FlateDecode")}, _zlib.compress(mbody)),
                                          "resources": {"Font": {"F1": font_type1("Helvetica")}}, "mediabox": [0, 0, 300, 300]}]).build(), "misc")
    # a form XObject WITHOUT /Resources (PDF 1.1 style: it uses the invoking page's), painted by two pages that map /F1
    # to differently encoded fonts: each invocation sees its own page's resources
    fw = Doc()
    fwa = fw.add(dict(font_widths(name="FormA", first=32, widths=[500] * 95, subtype="TrueType", encoding=N("WinAnsiEncoding"))))
    fwb = fw.add(dict(font_widths(name="FormB", first=32, widths=[700] * 95, subtype="TrueType",
                                  encoding={"Type": N("Encoding"), "BaseEncoding": N("WinAnsiEncoding"), "Differences": [65, N("X"), N("Y"), N("Z")]})))
    fwform = fw.add(Stream({"Type": N("XObject"), "Subtype": N("Form"), "BBox": [0, 0, 300, 300]}, b"BT /F1 12 Tf 30 100 Td (ABC) Tj ET"))
    add("form-without-resources", page_doc([{"content": b"/Fm0 Do", "resources": {"Font": {"F1": fwa}, "XObject": {"Fm0": fwform}}, "mediabox": [0, 0, 300, 300]},
                                            {"content": b"/Fm0 Do", "resources": {"Font": {"F1": fwb}, "XObject": {"Fm0": fwform}}, "mediabox": [0, 0, 300, 300]},
                                            {"content": b"/Fm0 Do", "resources": {"Font": {"F1": fwa}, "XObject": {"Fm0": fwform}}, "mediabox": [0, 0, 300, 300]}], doc=fw).build(), "forms")
    # a CID font whose /Encoding is an embedded CMap STREAM that calls itself /H but writes vertically, and a twin that
    # uses the predefined CMap /H: the predefined CMap is a process-wide object
    hcmap = (b"/CIDInit /ProcSet findresource begin 12 dict begin begincmap\n/CMapName /H def /WMode 1 def\n"
             b"1 begincodespacerange <2121> <7E7E> endcodespacerange\n1 begincidrange <3021> <3023> 1125 endcidrange\nendcmap end end\n")
    for hname, embedded in (("cmap-H-embedded-vertical", True), ("cmap-H-predefined", False)):
        hd = Doc()
        hfd = hd.add({"Type": N("FontDescriptor"), "FontName": N("Ryumin-Light"), "Flags": 4, "FontBBox": [0, -120, 1000, 880], "ItalicAngle": 0,
                      "Ascent": 880, "Descent": -120, "CapHeight": 700, "StemV": 80})
        hcid = hd.add({"Type": N("Font"), "Subtype": N("CIDFontType0"), "BaseFont": N("Ryumin-Light"),
                       "CIDSystemInfo": {"Registry": b"Adobe", "Ordering": b"Japan1", "Supplement": 2}, "FontDescriptor": hfd, "DW": 1000})
        henc: Any = hd.add(Stream({"Type": N("CMap"), "CMapName": N("H"), "WMode": 1}, hcmap)) if embedded else N("H")
        hf = hd.add({"Type": N("Font"), "Subtype": N("Type0"), "BaseFont": N("Ryumin-Light-H"), "Encoding": henc, "DescendantFonts": [hcid]})
        hpages = [{"content": b"BT /F1 20 Tf 100 %d Td <302130223023> Tj ET" % y, "resources": {"Font": {"F1": hf}}, "mediabox": [0, 0, 300, 300]} for y in (250, 200)]
        add(hname, page_doc(hpages, doc=hd).build(), "cmap-H")
    # an embedded Type 1 program whose header starts from StandardEncoding and overrides two codes, next to a plain
    # StandardEncoding font: the shared StandardEncoding table must stay what it is
    t1head = (b"%!PS-AdobeFont-1.0: GreekDemo 001.000\n11 dict begin\n/FontName /GreekDemo def\n/PaintType 0 def /FontType 1 def\n"
              b"/FontMatrix [0.001 0 0 0.001 0 0] readonly def\n/Encoding StandardEncoding 256 array copy def\nEncoding 65 /Alpha put\nEncoding 66 /Beta put\n"
              b"/FontBBox {0 -200 1000 800} readonly def\ncurrentdict end\ncurrentfile eexec\n")
    t1d = Doc()
    t1ff = t1d.add(Stream({"Length1": len(t1head), "Length2": 0, "Length3": 0}, t1head))
    t1a = dict(font_widths(name="GreekDemo", first=32, widths=[500] * 95, subtype="Type1"))
    t1a["FontDescriptor"] = dict(t1a["FontDescriptor"], FontFile=t1ff)
    t1b = dict(font_widths(name="PlainDemo", first=32, widths=[500] * 95, subtype="Type1"))
    add("type1-program-overrides-standardencoding", page_doc([{"content": b"BT /F1 12 Tf 30 200 Td (ABC) Tj ET", "resources": {"Font": {"F1": t1d.add(t1a)}}, "mediabox": [0, 0, 300, 300]},
                                                              {"content": b"BT /F1 12 Tf 30 200 Td (ABC) Tj ET", "resources": {"Font": {"F1": t1d.add(t1b)}}, "mediabox": [0, 0, 300, 300]}], doc=t1d).build(),
        "enc:StandardEncoding")
    # a CID font whose /Encoding names a CMap that does not exist but is spelled like a character collection
    # (Adobe-Japan1): "not found as a CMap" must not become "not found as a collection" for the documents read afterwards
    nd = Doc()
    nfd = nd.add({"Type": N("FontDescriptor"), "FontName": N("NoSuchCMap"), "Flags": 4, "FontBBox": [0, -200, 1000, 800], "ItalicAngle": 0,
                  "Ascent": 800, "Descent": -200, "CapHeight": 700, "StemV": 80})
    ncid = nd.add({"Type": N("Font"), "Subtype": N("CIDFontType0"), "BaseFont": N("NoSuchCMap"),
                   "CIDSystemInfo": {"Registry": b"Adobe", "Ordering": b"Identity", "Supplement": 0}, "FontDescriptor": nfd, "DW": 1000})
    nf = nd.add({"Type": N("Font"), "Subtype": N("Type0"), "BaseFont": N("NoSuchCMap"), "Encoding": N("Adobe-Japan1"), "DescendantFonts": [ncid]})
    add("encoding-named-like-a-collection", page_doc([{"content": b"BT /F1 12 Tf 30 200 Td <0041> Tj ET", "resources": {"Font": {"F1": nf}}, "mediabox": [0, 0, 300, 300]}] * 2, doc=nd).build(), "cmap")
    # an EMPTY content stream shared by the /Contents arrays of several pages: decoding it a second time (cached stream
    # object) gives the same nothing
    ed = Doc()
    eprolog = ed.add(Stream({}, b""))
    eflate = ed.add(Stream({"Filter": N("FlateDecode")}, __import__("zlib").compress(b"")))
    eres = {"Font": {"F1": font_type1("Helvetica")}}
    epages = []
    for i in range(3):
        ec = ed.add(Stream({}, b"BT /F1 12 Tf 30 200 Td (page %d) Tj ET" % i))
        epages.append({"content": b"", "resources": eres, "mediabox": [0, 0, 300, 300], "extra": {"Contents": [eprolog, ec, eflate]}})
    add("shared-empty-streams", page_doc(epages, doc=ed).build(), "misc")
    # more encrypted twins with OTHER keys and crypt filters of the same name (StdCF): iterators over several of them
    # are interleaved, so each document must keep using its own handler and key
    tw = _simple_doc(dict(helv, Encoding=N("WinAnsiEncoding")), t2)
    enc = StdEncryptor(4, 4, 128, "AESV2", b"other", b"boss", -44, random.Random(1204), id0=b"AAAAAAAAAAAAAAAA", id1=b"AAAAAAAAAAAAAAAA")
    add("twin-aes-otherkey", tw.build(encryptor=enc), "crypt-v4", password="other")
    tw = _simple_doc(dict(helv, Encoding=N("WinAnsiEncoding")), t2)
    enc = StdEncryptor(4, 4, 128, "V2", b"", b"own", -4, random.Random(1205), id0=b"BBBBBBBBBBBBBBBB", id1=b"BBBBBBBBBBBBBBBB")
    add("twin-v4-rc4", tw.build(encryptor=enc), "crypt-v4")
    tw = _simple_doc(dict(helv, Encoding=N("WinAnsiEncoding")), t2)
    enc = StdEncryptor(5, 6, 256, "AESV3", b"pw256", b"own256", -4, random.Random(1206), id0=b"CCCCCCCCCCCCCCCC", id1=b"CCCCCCCCCCCCCCCC")
    add("twin-aes256", tw.build(encryptor=enc), "crypt-v4", password="pw256")
    return pool


# --------------------------------------------------------------------------
# canonical signatures
# --------------------------------------------------------------------------
def tree_sig(item: Any) -> Any:
    from pdfminer.layout import LTAnno, LTChar, LTContainer, LTCurve, LTFigure, LTImage, LTTextBox

    name = type(item).__name__
    if isinstance(item, LTAnno):
        return [name, item.get_text()]
    sig: List[Any] = [name, [repr(float(x)) for x in item.bbox]]
    if isinstance(item, LTChar):
        sig += [item.get_text(), item.fontname, repr(item.size), repr(item.adv)]
        gs = getattr(item, "graphicstate", None)
        sig += [getattr(getattr(item, "ncs", None), "name", None), repr(getattr(gs, "ncolor", None)), repr(getattr(gs, "scolor", None))]
        return sig
    if isinstance(item, LTCurve):
        sig += [[repr(p) for p in item.pts], item.stroke, item.fill, repr(item.linewidth),
                repr(item.stroking_color), repr(item.non_stroking_color), repr(getattr(item, "dashing_style", None))]
        return sig
    if isinstance(item, LTImage):
        sig += [_stable_name(item.name), repr(item.srcsize), hashlib.md5(item.stream.get_data()).hexdigest()]
        return sig
    if isinstance(item, LTTextBox):
        sig.append(item.index)
    if isinstance(item, LTFigure):
        sig.append(_stable_name(item.name))
    if isinstance(item, LTContainer):
        sig.append([tree_sig(c) for c in item])
    return sig


def _stable_name(name: Any) -> Any:
    return str(name)


def run_api(pdf: bytes, api: str, password: str, caching: bool, page_numbers: Optional[List[int]]) -> Any:
    """The output, or {"__raised__": type name} when the call raises one of the library's own exceptions
    (a document that cannot be extracted has to fail the same way whatever was processed before)."""
    try:
        return _run_api(pdf, api, password, caching, page_numbers)
    except Exception as e:  # noqa: BLE001
        if type(e).__module__.startswith("pdfminer"):
            return {"__raised__": type(e).__name__}
        raise


def _raised(x: Any) -> bool:
    return isinstance(x, dict) and "__raised__" in x


def _run_api(pdf: bytes, api: str, password: str, caching: bool, page_numbers: Optional[List[int]]) -> Any:
    from pdfminer.high_level import extract_pages, extract_text, extract_text_to_fp

    if api == "text":
        return extract_text(io.BytesIO(pdf), password=password, caching=caching, page_numbers=page_numbers)
    if api == "pages":
        return [tree_sig(p)[1:] for p in extract_pages(io.BytesIO(pdf), password=password, caching=caching, page_numbers=page_numbers)]
    out = io.BytesIO()
    extract_text_to_fp(io.BytesIO(pdf), out, output_type="text" if api == "fp_text" else "xml", codec="utf-8", password=password,
                       disable_caching=not caching, page_numbers=page_numbers)
    s = out.getvalue().decode("utf-8")
    return s


def npages(pdf: bytes, password: str) -> int:
    from pdfminer.pdfpage import PDFPage

    return sum(1 for _ in PDFPage.get_pages(io.BytesIO(pdf), password=password))


def baseline_main(outpath: str, index: int) -> None:
    """Fresh-process baseline of one pool document: all APIs, all pages, caching on."""
    import logging

    logging.disable(logging.CRITICAL)
    d = build_pool()[index]
    res: Dict[str, Any] = {"npages": npages(d["pdf"], d["password"])}
    for api in APIS:
        res[api] = run_api(d["pdf"], api, d["password"], True, None)
    with open(outpath, "w") as f:
        json.dump(res, f)


def baseline_one_main(outpath: str, index: int, api: str) -> None:
    import logging

    logging.disable(logging.CRITICAL)
    d = build_pool()[index]
    with open(outpath, "w") as f:
        json.dump(run_api(d["pdf"], api, d["password"], True, None), f)


def compute_baselines(workdir: str) -> str:
    """Each (document, API) in its own fresh interpreter; returns the path of the combined file."""
    pool = build_pool()
    env = dict(os.environ, PYTHONHASHSEED="0", PYTHONDONTWRITEBYTECODE="1", PYTHONPATH=VERIF_ROOT)
    jobs = []
    for i in range(len(pool)):
        jobs.append((i, "all"))
        for api in APIS:
            jobs.append((i, api))

    def one(job: Tuple[int, str]) -> Tuple[int, str, Any]:
        i, api = job
        out = os.path.join(workdir, "b%d-%s.json" % (i, api))
        cmd = [sys.executable, "-m", "vf.checks.c12", "baseline", out, str(i), api]
        r = subprocess.run(cmd, cwd=VERIF_ROOT, env=env, capture_output=True, timeout=600)
        if r.returncode != 0:
            return i, api, {"__error__": r.stderr.decode("utf-8", "replace")[-2000:]}
        with open(out) as f:
            return i, api, json.load(f)

    base: Dict[str, Any] = {}
    with ThreadPoolExecutor(max_workers=min(16, os.cpu_count() or 4)) as ex:
        for i, api, val in ex.map(one, jobs):
            base["%d/%s" % (i, api)] = val
    path = os.path.join(workdir, "baselines.json")
    with open(path, "w") as f:
        json.dump(base, f)
    return path


def shards(tier: str, seed: int) -> List[Dict[str, Any]]:
    import tempfile

    root = os.path.join(VERIF_ROOT, ".work")
    os.makedirs(root, exist_ok=True)
    workdir = tempfile.mkdtemp(prefix="c12-", dir=root)
    _WORKDIRS.append(workdir)
    path = compute_baselines(workdir)
    q = tier == "quick"
    n = 16 if q else 48
    return [{"kind": "hist", "sub": i, "n": 12 if q else 90, "baselines": path, "cleanup": workdir if i == 0 else None} for i in range(n)]


# --------------------------------------------------------------------------
# shared-state fingerprints
# --------------------------------------------------------------------------
def _fp(obj: Any) -> str:
    h = hashlib.blake2b(digest_size=12)
    stack = [obj]
    while stack:
        x = stack.pop()
        if isinstance(x, dict):
            h.update(b"{%d" % len(x))
            for k in sorted(x, key=repr):
                stack.append(x[k])
                stack.append(k)
        elif isinstance(x, (list, tuple)):
            h.update(b"[%d" % len(x))
            stack.extend(reversed(x))
        else:
            h.update(repr(x).encode("utf-8", "backslashreplace"))
            h.update(b";")
    return h.hexdigest()


class SharedState:
    """Fingerprints of process-wide tables; big cached CMaps are hashed when first seen and re-checked on demand."""

    def __init__(self) -> None:
        self.small: Dict[str, str] = {}
        self.cmaps: Dict[str, str] = {}

    def _small_now(self) -> Dict[str, str]:
        from pdfminer import settings
        from pdfminer.encodingdb import EncodingDB
        from pdfminer.fontmetrics import FONT_METRICS
        from pdfminer.pdfcolor import PREDEFINED_COLORSPACE

        return {
            "EncodingDB.std2unicode": _fp(EncodingDB.std2unicode), "EncodingDB.mac2unicode": _fp(EncodingDB.mac2unicode),
            "EncodingDB.win2unicode": _fp(EncodingDB.win2unicode), "EncodingDB.pdf2unicode": _fp(EncodingDB.pdf2unicode),
            "EncodingDB.encodings": _fp(EncodingDB.encodings), "FONT_METRICS": _fp(FONT_METRICS),
            "PREDEFINED_COLORSPACE": _fp({k: (v.name, v.ncomponents) for k, v in PREDEFINED_COLORSPACE.items()}),
            "settings.STRICT": repr(settings.STRICT),
        }

    def check(self, deep: bool) -> List[str]:
        from pdfminer.cmapdb import CMapDB

        changed: List[str] = []
        now = self._small_now()
        for k, v in now.items():
            if k in self.small and self.small[k] != v:
                changed.append(k)
            self.small.setdefault(k, v)
        for name, cm in list(getattr(CMapDB, "_cmap_cache", {}).items()):
            key = "cmap:" + name
            val = _fp([getattr(cm, "code2cid", None), getattr(cm, "attrs", None)])
            if key not in self.cmaps:
                self.cmaps[key] = val
            elif deep and self.cmaps[key] != val:
                changed.append(key)
        for name, pair in list(getattr(CMapDB, "_umap_cache", {}).items()):
            # the layout of the cache is an internal detail: fingerprint whatever objects it holds
            for i, um in enumerate(pair if isinstance(pair, (list, tuple)) else [pair]):
                key = "umap:%s:%d" % (name, i)
                val = _fp([getattr(um, "cid2unichr", None), getattr(um, "attrs", None)])
                if key not in self.cmaps:
                    self.cmaps[key] = val
                elif deep and self.cmaps[key] != val:
                    changed.append(key)
        return changed


# --------------------------------------------------------------------------
# histories
# --------------------------------------------------------------------------
def expected_for(base: Dict[str, Any], i: int, api: str, page_numbers: Optional[List[int]]) -> Any:
    """Expected output derived from the all-pages baseline (page subset / page at a time)."""
    full = base["%d/%s" % (i, api)]
    if page_numbers is None:
        return full
    if api == "pages":
        return [full[p] for p in page_numbers]
    return None    # text/xml subsets are compared through per-page concatenation instead


def split_text_pages(s: str) -> List[str]:
    parts = s.split("\f")
    return parts[:-1] if parts and parts[-1] == "" else parts


def perturb_heap(rng: random.Random) -> None:
    """Other work in the same process: allocate layout objects and free them in random order, so that the
    allocator hands out addresses in an order unrelated to creation order afterwards."""
    from pdfminer.layout import LTTextBoxHorizontal, LTTextLineHorizontal

    objs: List[Any] = [LTTextBoxHorizontal() if i % 2 else LTTextLineHorizontal(0.1) for i in range(rng.randint(500, 4000))]
    rng.shuffle(objs)
    del objs[: len(objs) // 2]      # half of the blocks go back to the free lists in shuffled address order
    _KEEP.append(objs)              # the other half stays alive for a while
    if len(_KEEP) > 6:
        _KEEP.pop(0)


_KEEP: List[Any] = []


def run_history(rec, pool, base, rng: random.Random, hid: str, shared: SharedState) -> List[Tuple[str, str]]:
    fails: List[Tuple[str, str]] = []
    ncalls = rng.randint(20, 60)
    # a history concentrates on a few documents so that colliding ones really follow each other
    k = rng.randint(2, 5)
    focus = rng.sample(range(len(pool)), k)
    if rng.random() < 0.7:   # make sure two documents of one collision group are in it
        g = rng.choice(sorted({d["group"] for d in pool}))
        same = [i for i, d in enumerate(pool) if d["group"] == g]
        focus = list(set(focus) | set(rng.sample(same, min(2, len(same)))))
    calls = []
    for c in range(ncalls):
        i = rng.choice(focus)
        d = pool[i]
        api = rng.choice(APIS)
        caching = rng.random() < 0.6
        n = base["%d/all" % i]["npages"]
        mode = rng.choice(["all", "all", "subset", "one_at_a_time"])
        if _raised(base["%d/%s" % (i, api)]):
            mode = "all"
            rec.count("calls_expected_to_raise")
        rec.see("docs_used", d["name"])
        calls.append((d["name"], api, caching, mode))
        if rng.random() < 0.5:
            perturb_heap(rng)
            rec.count("heap_perturbations")
        try:
            if mode == "all":
                got = run_api(d["pdf"], api, d["password"], caching, None)
                exp = base["%d/%s" % (i, api)]
                if got != exp:
                    fails.append(("history_dependence:%s" % api, "%s call #%d %s(%s, caching=%s) differs from the fresh-process baseline; previous calls: %r"
                                  % (hid, c, api, d["name"], caching, calls[-4:-1])))
            elif mode == "subset":
                pn = sorted(rng.sample(range(n), rng.randint(1, n)))
                got = run_api(d["pdf"], api, d["password"], caching, pn)
                if api == "pages":
                    exp = [base["%d/pages" % i][p] for p in pn]
                    if got != exp:
                        fails.append(("history_dependence:pages_subset", "%s call #%d pages(%s, page_numbers=%s) differs from the baseline pages" % (hid, c, d["name"], pn)))
                elif api in ("text", "fp_text"):
                    exp_pages = split_text_pages(base["%d/%s" % (i, api)])
                    if split_text_pages(got) != [exp_pages[p] for p in pn]:
                        fails.append(("history_dependence:text_subset", "%s call #%d %s(%s, page_numbers=%s): %r differs from the baseline pages" % (hid, c, api, d["name"], pn, got[:80])))
            else:
                rec.count("page_at_a_time_calls")
                if api == "pages":
                    got_all = []
                    for p in range(n):
                        got_all += run_api(d["pdf"], api, d["password"], caching, [p])
                    if got_all != base["%d/pages" % i]:
                        fails.append(("page_at_a_time:pages", "%s call #%d %s: pages extracted one at a time differ from all at once" % (hid, c, d["name"])))
                elif api in ("text", "fp_text"):
                    got_s = "".join(run_api(d["pdf"], api, d["password"], caching, [p]) for p in range(n))
                    if got_s != base["%d/%s" % (i, api)]:
                        fails.append(("page_at_a_time:text", "%s call #%d %s(%s): %r differs from all at once" % (hid, c, api, d["name"], got_s[:80])))
                else:
                    got = run_api(d["pdf"], api, d["password"], caching, None)
                    if got != base["%d/%s" % (i, api)]:
                        fails.append(("history_dependence:%s" % api, "%s call #%d %s(%s) differs from baseline" % (hid, c, api, d["name"])))
        except Exception as e:  # noqa: BLE001
            fails.append(("exception_in_history:%s" % type(e).__name__, "%s call #%d %s(%s): %s: %s" % (hid, c, api, d["name"], type(e).__name__, e)))
        rec.count("calls_compared")
        if not caching:
            rec.count("caching_off_calls")
        rec.case(None, False)
        changed = shared.check(deep=(c == ncalls - 1))
        rec.count("fingerprint_checks")
        if changed:
            fails.append(("shared_state_mutated:" + changed[0].split(":")[0], "%s after call #%d %s(%s): shared tables changed: %s" % (hid, c, api, d["name"], changed)))
        if len(fails) > 3:
            break
    groups = [pool[i]["group"] for i in focus]
    nontrivial = len(set(focus)) >= 2 and len(groups) != len(set(groups))
    rec.case(chash(hid, calls), nontrivial)
    if rec.want_sample():
        rec.sample({"history": hid, "calls": calls[:12], "n_calls": ncalls})
    return fails


def run_interleaving(rec, pool, base, rng: random.Random, hid: str, fixed: Optional[List[int]] = None,
                     caching: Optional[bool] = None) -> List[Tuple[str, str]]:
    """Several extract_pages iterators alive at once, advanced in a random order (fixed: these documents, advanced
    round-robin - every group is driven that way once per run, with caching on and off)."""
    from pdfminer.high_level import extract_pages

    fails: List[Tuple[str, str]] = []
    k = len(fixed) if fixed else rng.randint(2, 4)
    idx = list(fixed) if fixed else [rng.randrange(len(pool)) for _ in range(k)]
    if not fixed and rng.random() < 0.5:   # documents of ONE collision group live at the same time
        g = rng.choice(sorted({d["group"] for d in pool}))
        same = [i for i, d in enumerate(pool) if d["group"] == g]
        if len(same) >= 2:
            idx = [rng.choice(same) for _ in range(k)]
            idx[:2] = rng.sample(same, 2)
    its = []
    for i in idx:
        d = pool[i]
        its.append([i, extract_pages(io.BytesIO(d["pdf"]), password=d["password"], caching=(rng.random() < 0.6) if caching is None else caching), 0])
    live = list(range(k))
    order = []
    turn = 0
    while live:
        j = live[turn % len(live)] if fixed else rng.choice(live)
        turn += 1
        i, it, pos = its[j]
        try:
            page = next(it)
        except StopIteration:
            live.remove(j)
            if pos != base["%d/all" % i]["npages"] and not _raised(base["%d/pages" % i]):
                fails.append(("interleaving:page_count", "%s iterator of %s yielded %d pages" % (hid, pool[i]["name"], pos)))
            continue
        except Exception as e:  # noqa: BLE001
            live.remove(j)
            if _raised(base["%d/pages" % i]) and base["%d/pages" % i]["__raised__"] == type(e).__name__:
                continue
            fails.append(("exception_in_interleaving:%s" % type(e).__name__, "%s %s: %s: %s" % (hid, pool[i]["name"], type(e).__name__, e)))
            continue
        order.append(j)
        sig = tree_sig(page)[1:]
        rec.count("interleaved_pages")
        rec.see("docs_used", pool[i]["name"])
        expd = base["%d/pages" % i]
        if _raised(expd):
            its[j][2] = pos + 1
            continue
        if pos >= len(expd) or sig != expd[pos]:
            fails.append(("interleaving:page_differs", "%s schedule %s: page %d of %s differs from the baseline" % (hid, order[-8:], pos, pool[i]["name"])))
        its[j][2] = pos + 1
        rec.case(None, False)
    rec.case(chash(hid, idx, order), len(set(idx)) >= 2)
    return fails


def run_shard(spec: Dict[str, Any], rec) -> None:
    pool = build_pool()
    with open(spec["baselines"]) as f:
        base = json.load(f)
    for k, v in base.items():
        if isinstance(v, dict) and "__error__" in v:
            rec.fail("baseline_failed", {"job": k}, "fresh-process baseline %s failed: %s" % (k, v["__error__"][-600:]))
            return
    # baseline self-consistency: the separate per-API fresh processes agree with the all-in-one fresh process
    if spec["sub"] == 0:
        for i in range(len(pool)):
            for api in APIS:
                if base["%d/%s" % (i, api)] != base["%d/all" % i][api]:
                    rec.fail("fresh_processes_disagree:%s" % api, {"doc": pool[i]["name"], "api": api},
                             "two fresh processes give different %s output for %s" % (api, pool[i]["name"]))
                rec.count("baseline_pairs_compared")
    if spec["sub"] in (1, 2):
        # every collision group once with all its documents alive at the same time, pages taken in turn
        for g in sorted({d["group"] for d in pool}):
            same = [i for i, d in enumerate(pool) if d["group"] == g]
            if len(same) >= 2:
                hid = "C12/group/%s/%d" % (g, spec["sub"])
                for key, detail in run_interleaving(rec, pool, base, random.Random(hid), hid, fixed=same, caching=(spec["sub"] == 1)):
                    rec.fail(key, {"hid": hid, "group": g, "caching": spec["sub"] == 1}, detail)
                rec.count("group_round_robins")
    shared = SharedState()
    shared.check(deep=False)
    rng = random.Random("C12/%d/%d" % (spec["seed"], spec["sub"]))
    for h in range(spec["n"]):
        hid = "C12/%d/%d/h%d" % (spec["seed"], spec["sub"], h)
        hrng = random.Random(hid)
        if h % 3 == 2:
            fails = run_interleaving(rec, pool, base, hrng, hid)
        else:
            fails = run_history(rec, pool, base, hrng, hid, shared)
        for key, detail in fails:
            rec.fail(key, {"hid": hid, "position": h}, detail)
    if spec.get("cleanup"):
        pass  # the baseline directory is removed by the last shard to finish: see finish()


_WORKDIRS: List[str] = []


def finish(agg: Dict[str, Any], tier: str) -> Dict[str, Any]:
    import shutil

    for d in _WORKDIRS:     # only this run's own baseline directory (other runs may be in progress)
        shutil.rmtree(d, ignore_errors=True)
    return {"pool": [d["name"] + " [" + d["group"] + "]" for d in build_pool()]}


def replay(case: Dict[str, Any]) -> List[Tuple[str, str]]:
    """Re-run one history from a fresh worker state (baselines are recomputed)."""
    import shutil
    import tempfile

    from vf.common import Recorder

    if "hid" not in case:
        return []
    root = os.path.join(VERIF_ROOT, ".work")
    os.makedirs(root, exist_ok=True)
    wd = tempfile.mkdtemp(prefix="c12r-", dir=root)
    try:
        with open(compute_baselines(wd)) as f:
            base = json.load(f)
    finally:
        shutil.rmtree(wd, ignore_errors=True)
    pool = build_pool()
    rec = Recorder()
    shared = SharedState()
    shared.check(deep=False)
    out: List[Tuple[str, str]] = []
    if "group" in case:
        same = [i for i, d in enumerate(pool) if d["group"] == case["group"]]
        return run_interleaving(rec, pool, base, random.Random(case["hid"]), case["hid"], fixed=same, caching=case.get("caching", True))
    prefix, h = case["hid"].rsplit("/h", 1)
    # replay the shard's histories up to and including the failing one (history dependence needs the prefix)
    for j in range(int(h) + 1):
        hid = "%s/h%d" % (prefix, j)
        hrng = random.Random(hid)
        fails = run_interleaving(rec, pool, base, hrng, hid) if j % 3 == 2 else run_history(rec, pool, base, hrng, hid, shared)
        if j == int(h):
            out = fails
    return out


if __name__ == "__main__":
    if len(sys.argv) >= 5 and sys.argv[1] == "baseline":
        import vf  # noqa: F401

        if sys.argv[4] == "all":
            baseline_main(sys.argv[2], int(sys.argv[3]))
        else:
            baseline_one_main(sys.argv[2], int(sys.argv[3]), sys.argv[4])
