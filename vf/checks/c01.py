"""C01 — every conformant spelling of an object value reads back as that value,
whatever the read-buffer size and the absolute offset.

Workload: random object trees x the spelling engine (vf.gen.spell) x three
read boundaries (PDFStreamParser.nextobject, PDFDocument.getobj on
`n 0 obj .. endobj`, object-stream member) x buffer sizes (a fixed set plus
sizes computed so that a refill lands inside a multi-byte construct).

Monitor: structural equality (iterative, type-exact) with the generated value;
a wrapper on PSBaseParser.fillbuf records the scanner state at every refill.
"""
from __future__ import annotations

import io
import random
import sys
import zlib
from typing import Any, Dict, List, Optional, Tuple

from vf.common import chash
from vf.gen.pdfw import HexStr, Name, Real, Ref, ser_indirect, Stream
from vf.gen.spell import Profile, REGULAR_EXCL, ends_regular, spell

ID = "C01"
LEVEL = "exploration"
DESIGN_REF = "DESIGN.md#C01"
TECHNIQUE = "runtime monitoring: generated spellings of known values read through the real parsers; reference-value oracle; fillbuf state recorder"
LEVEL_TEXT = (
    "Exploration: each run reads some 10^4 (quick) to 10^5-10^6 (thorough) generated conformant spellings of known values through the three real parser boundaries at a fixed set of buffer sizes plus sizes that split a multi-byte construct, and compares with the generated value type-exactly; a recorder on fillbuf shows that all 13 scanner states were refilled at every boundary. This is the right level because the property quantifies over an unbounded language of spellings: no enumeration is possible, but every lexical rule is an individually taggable generator feature, so coverage of the rules (not of the inputs) is what the evidence reports. Held on what was generated; one listed finding (odd-length hex strings, pinned by the repository's own test)."
)
RULE = (
    "random object trees (null, bool, int incl. +-2^31, reals as decimal text, names over bytes 1-255, strings over all "
    "bytes, arrays, dicts, n g R; depth<=6 quick / <=40 thorough + one deep chain) x random conformant spellings "
    "(white space SP HT LF CR CRLF FF NUL, comments, minimal/redundant delimiters, +/leading-zero numbers, #xx names, "
    "string escapes/octal/continuations/balanced parens/superfluous backslash, hex case/white space) x boundaries "
    "{PDFStreamParser, getobj on 'n 0 obj', object-stream member} x BUFSIZ {fixed set + sizes splitting a construct}. "
    "distinct = distinct (value, spelling bytes); non-trivial = spelling uses >=1 non-canonical feature. "
    "Not generated (outside the statement's list / ambiguous): raw CR inside literal strings, VT as white space, "
    "dictionary keys that are not valid UTF-8, duplicate keys; odd-length hex strings only as the tagged sub-family "
    "'hex_odd_length' (listed known finding)."
)
ASSUMPTIONS = [
    "the spelling engine vf/gen/spell.py emits only ISO 32000-1 7.3-conformant spellings (written from the standard; reviewed against 7.2.2-7.3.8)",
    "python float(text) is the value of a PDF real written as decimal text",
    "dictionary entries whose value is null are equivalent to absent entries (ISO 32000-1 7.3.7)",
    "names are compared as byte strings; pdfminer's str/bytes representation of a name is a presentation choice",
]
SHARD_TIMEOUT = {"quick": 600, "thorough": 5400}
FIXED_BUFS = {"quick": [1, 3, 16, 4096], "thorough": [1, 2, 3, 5, 7, 16, 64, 4096]}

_STATE = {"boundary": "?", "states": set()}


def minimums(tier: str) -> Dict[str, int]:
    if tier == "quick":
        return {"evaluations": 100000, "distinct": 6000, "seen:refill_state_x_boundary": 20, "b:stream": 20000,
                "b:getobj": 20000, "b:objstm": 20000, "targeted_bufsizes": 8000}
    return {"evaluations": 600000, "distinct": 60000, "seen:refill_state_x_boundary": 24, "b:stream": 100000,
            "b:getobj": 100000, "b:objstm": 100000, "targeted_bufsizes": 50000}


def shards(tier: str, seed: int) -> List[Dict[str, Any]]:
    n = 32 if tier == "quick" else 96
    per = 330 if tier == "quick" else 1600
    out = [{"kind": "rand", "sub": i, "n": per} for i in range(n)]
    out.append({"kind": "deep", "sub": 0, "depth": 300 if tier == "quick" else 5000})
    out.append({"kind": "oddhex", "sub": 0, "n": 40 if tier == "quick" else 400})
    return out


# --------------------------------------------------------------------------
# value generator
# --------------------------------------------------------------------------
INTS = [0, 1, -1, 7, 10, 255, 65535, 2**31 - 1, -(2**31), 2**31, 123456789, -99999]
KEY_ALPHA = [b"A", b"b", b"Type", b"K1", b"x y", b"a#b", b"n/m", b"(p)", b"\xc3\xa9", b"\xe2\x82\xac", b"Z_9", b"k.", b"-", b"<q>", b"%"]


def gen_real(rng: random.Random) -> Real:
    sign = rng.choice(["", "", "-", "+"])
    ip = "".join(rng.choice("0123456789") for _ in range(rng.choice([0, 1, 1, 2, 3, 6])))
    fp = "".join(rng.choice("0123456789") for _ in range(rng.choice([0, 1, 2, 3, 6])))
    if not ip and not fp:
        ip = "0"
    if rng.random() < 0.2:
        ip = "0" * rng.randint(1, 2) + ip
    return Real(sign + ip + "." + fp)


def gen_name(rng: random.Random) -> Name:
    n = rng.choice([0, 1, 1, 2, 3, 5, 8, 12])
    r = rng.random()
    if r < 0.4:
        b = bytes(rng.choice(b"ABCxyz019_-.+*@!") for _ in range(n))
    elif r < 0.7:
        b = bytes(rng.randint(1, 255) for _ in range(n))
    else:
        b = bytes(rng.choice(b" #/()<>[]{}%\t\n\rAz\x7f\x80\xff") for _ in range(n))
    return Name(b)


def gen_string(rng: random.Random) -> bytes:
    n = rng.choice([0, 1, 2, 3, 5, 8, 13, 21, 40])
    r = rng.random()
    if r < 0.3:
        return bytes(rng.choice(b"abc XYZ0123456789") for _ in range(n))
    if r < 0.6:
        return bytes(rng.randint(0, 255) for _ in range(n))
    return bytes(rng.choice(b"()\\\r\n\t\x08\x0c01789 a\x00\xff\x80%<>[]/#") for _ in range(n))


def gen_leaf(rng: random.Random) -> Any:
    r = rng.random()
    if r < 0.06:
        return None
    if r < 0.14:
        return rng.random() < 0.5
    if r < 0.32:
        return rng.choice(INTS) if rng.random() < 0.4 else rng.randint(-100000, 100000)
    if r < 0.46:
        return gen_real(rng)
    if r < 0.62:
        return gen_name(rng)
    if r < 0.86:
        return gen_string(rng)
    return Ref(rng.choice([1, 2, 9, 10, 99, 12345, rng.randint(1, 99999)]), rng.choice([0, 0, 0, 1, 65535]))


def gen_value(rng: random.Random, depth: int, maxdepth: int) -> Any:
    if depth >= maxdepth or rng.random() < 0.35 + 0.08 * depth:
        return gen_leaf(rng)
    n = rng.choice([0, 1, 2, 3, 4, 6])
    if rng.random() < 0.5:
        return [gen_value(rng, depth + 1, maxdepth) for _ in range(n)]
    d: Dict[Name, Any] = {}
    for _ in range(n):
        kb = rng.choice(KEY_ALPHA) + (b"%d" % rng.randint(0, 99) if rng.random() < 0.5 else b"")
        d[Name(kb)] = gen_value(rng, depth + 1, maxdepth)
    return d


# --------------------------------------------------------------------------
# comparison (iterative: values may be nested thousands deep)
# --------------------------------------------------------------------------
def compare(exp: Any, act: Any) -> Optional[str]:
    """None when `act` (pdfminer's result) is exactly the generated value `exp`."""
    from pdfminer.pdftypes import PDFObjRef
    from pdfminer.psparser import PSKeyword, PSLiteral

    stack: List[Tuple[Any, Any, str]] = [(exp, act, "$")]
    while stack:
        e, a, path = stack.pop()
        if e is None:
            if a is not None:
                return "%s: expected null, got %r" % (path, a)
        elif isinstance(e, bool):
            if a is not e:
                return "%s: expected %r, got %r" % (path, e, a)
        elif isinstance(e, int):
            if isinstance(a, bool) or not isinstance(a, int) or a != e:
                return "%s: expected int %r, got %r" % (path, e, a)
        elif isinstance(e, Real):
            if not isinstance(a, float) or a != float(e.text):
                return "%s: expected real %s, got %r" % (path, e.text, a)
        elif isinstance(e, Name):
            if not isinstance(a, PSLiteral):
                return "%s: expected name %r, got %r" % (path, e.b, a)
            nb = a.name.encode("utf-8") if isinstance(a.name, str) else a.name
            if nb != e.b:
                return "%s: expected name %r, got %r" % (path, e.b, nb)
            # one name, one object: the library hands out names that are valid UTF-8 as text and the others as bytes
            # (psparser.PSLiteral), whatever spelling the file used - a bytes name for UTF-8 text is a different object
            # from the one every other spelling of the same name yields
            try:
                e.b.decode("utf-8")
                want_text = True
            except UnicodeDecodeError:
                want_text = False
            if isinstance(a.name, str) != want_text:
                return "%s: name %r handed out as %s" % (path, e.b, type(a.name).__name__)
        elif isinstance(e, bytes):
            if not isinstance(a, bytes) or a != bytes(e):
                return "%s: expected string %r, got %r" % (path, bytes(e), a if not isinstance(a, PSKeyword) else a)
        elif isinstance(e, Ref):
            if not isinstance(a, PDFObjRef) or a.objid != e.n:
                return "%s: expected ref %d, got %r" % (path, e.n, a)
        elif isinstance(e, list):
            if not isinstance(a, list) or len(a) != len(e):
                return "%s: expected array of %d, got %s" % (path, len(e), _short(a))
            for i in range(len(e)):
                stack.append((e[i], a[i], path + "[%d]" % i if len(path) < 200 else path))
        elif isinstance(e, dict):
            if not isinstance(a, dict):
                return "%s: expected dict, got %s" % (path, _short(a))
            want = {k.b.decode("utf-8"): v for k, v in e.items() if v is not None}
            if set(want) != set(a):
                return "%s: expected keys %r, got %r" % (path, sorted(want), sorted(map(str, a)))
            for k, v in want.items():
                stack.append((v, a[k], path + "/" + k if len(path) < 200 else path))
        else:
            raise TypeError(e)
    return None


def _short(a: Any) -> str:
    try:
        if isinstance(a, (list, dict)) and len(a) > 8:
            return "%s of %d" % (type(a).__name__, len(a))
        return repr(a)[:200]
    except RecursionError:
        return "<deep %s>" % type(a).__name__


def kind_of(v: Any) -> str:
    return type(v).__name__ if v is not None else "null"


# --------------------------------------------------------------------------
# boundaries
# --------------------------------------------------------------------------
def _install_fillbuf_recorder() -> None:
    from pdfminer.psparser import PSBaseParser

    if getattr(PSBaseParser, "_vf_wrapped", False):
        return
    orig = PSBaseParser.fillbuf

    def fillbuf(self):  # noqa: ANN001
        if self.charpos >= len(self.buf) and self.buf:
            _STATE["states"].add("%s@%s" % (self._parse1.__name__, _STATE["boundary"]))
        return orig(self)

    PSBaseParser.fillbuf = fillbuf
    PSBaseParser._vf_wrapped = True


def set_bufsiz(n: int) -> None:
    from pdfminer.psparser import PSBaseParser

    PSBaseParser.BUFSIZ = n


def read_stream(spelling: bytes, bufsiz: int) -> Any:
    from pdfminer.pdfparser import PDFStreamParser

    _STATE["boundary"] = "stream"
    set_bufsiz(bufsiz)
    try:
        p = PDFStreamParser(spelling)
        (_, obj) = p.nextobject()
        return obj
    finally:
        set_bufsiz(4096)


def build_getobj_file(items: List[Tuple[bytes, int]], rng: random.Random) -> Tuple[bytes, Dict[int, int]]:
    """items: [(spelling, objid)].  Classic-table file; returns bytes and objid -> offset of the value."""
    out = bytearray(b"%PDF-1.4\n")
    for _ in range(rng.randint(0, 3)):
        out += b"%" + bytes(rng.choice(b"padding-xyz") for _ in range(rng.randint(0, 40))) + b"\n"
    offs: Dict[int, int] = {}
    valoffs: Dict[int, int] = {}
    fixed = {1: b"<< /Type /Catalog /Pages 2 0 R >>", 2: b"<< /Type /Pages /Kids [] /Count 0 >>"}
    for n, body in fixed.items():
        offs[n] = len(out)
        out += b"%d 0 obj\n" % n + body + b"\nendobj\n"
    for sp, n in items:
        offs[n] = len(out)
        pre = rng.choice([b" ", b"\n", b"\r\n", b"\r", b"\t"])
        if sp[:1] and sp[0] in REGULAR_EXCL and rng.random() < 0.4:
            pre = b""
        post = rng.choice([b" ", b"\n", b"\r\n", b"\r"])
        if not ends_regular(sp) and rng.random() < 0.4:
            post = b""
        out += b"%d 0 obj" % n + pre
        valoffs[n] = len(out) - offs[n]
        out += sp + post + b"endobj" + rng.choice([b"\n", b"\r\n", b"\r", b" \n"])
    size = max(offs) + 1
    sx = len(out)
    out += b"xref\n0 %d\n" % size
    for n in range(size):
        out += (b"%010d 00000 n \n" % offs[n]) if n in offs else b"0000000000 65535 f \n"
    out += b"trailer\n<< /Size %d /Root 1 0 R >>\nstartxref\n%d\n%%%%EOF\n" % (size, sx)
    return bytes(out), valoffs


def build_objstm_file(items: List[Tuple[bytes, int]], rng: random.Random) -> Tuple[bytes, Dict[int, int]]:
    """Cross-reference-stream file whose object stream holds the spellings."""
    out = bytearray(b"%PDF-1.5\n")
    offs: Dict[int, int] = {}
    fixed = {1: b"<< /Type /Catalog /Pages 2 0 R >>", 2: b"<< /Type /Pages /Kids [] /Count 0 >>"}
    for n, body in fixed.items():
        offs[n] = len(out)
        out += b"%d 0 obj\n" % n + body + b"\nendobj\n"
    bodies = bytearray()
    pairs = []
    inner: Dict[int, int] = {}
    for sp, n in items:
        pairs.append((n, len(bodies)))
        bodies += sp + rng.choice([b"\n", b" ", b"\r\n", b"\r"])
    head = b" ".join(b"%d %d" % p for p in pairs) + b"\n"
    for n, o in pairs:
        inner[n] = len(head) + o
    payload = head + bytes(bodies)
    maxn = max([n for _, n in items] + [2])
    stm_n = maxn + 1
    xr_n = maxn + 2
    offs[stm_n] = len(out)
    comp = rng.random() < 0.5
    data = zlib.compress(payload) if comp else payload
    d: Dict[str, Any] = {"Type": Name("ObjStm"), "N": len(items), "First": len(head)}
    if comp:
        d["Filter"] = Name("FlateDecode")
    out += ser_indirect(stm_n, 0, Stream(d, data))
    offs[xr_n] = len(out)
    size = xr_n + 1
    index = {n: i for i, (n, _) in enumerate(pairs)}
    rows = bytearray()
    for n in range(size):
        if n in offs:
            rows += b"\x01" + offs[n].to_bytes(4, "big") + b"\x00\x00"
        elif n in index:
            rows += b"\x02" + stm_n.to_bytes(4, "big") + index[n].to_bytes(2, "big")
        else:
            rows += b"\x00\x00\x00\x00\x00" + (b"\xff\xff" if n == 0 else b"\x00\x00")
    out += ser_indirect(xr_n, 0, Stream({"Type": Name("XRef"), "Size": size, "W": [1, 4, 2], "Root": Ref(1)}, bytes(rows)))
    out += b"startxref\n%d\n%%%%EOF\n" % offs[xr_n]
    return bytes(out), inner


def read_doc(data: bytes, objids: List[int], bufsiz: int, boundary: str) -> Dict[int, Any]:
    from pdfminer.pdfdocument import PDFDocument
    from pdfminer.pdfparser import PDFParser

    _STATE["boundary"] = boundary
    set_bufsiz(bufsiz)
    res: Dict[int, Any] = {}
    try:
        doc = PDFDocument(PDFParser(io.BytesIO(data)))
        for n in objids:
            try:
                res[n] = ("ok", doc.getobj(n))
            except Exception as e:  # noqa: BLE001
                res[n] = ("exc", "%s: %s" % (type(e).__name__, e))
    except Exception as e:  # noqa: BLE001
        for n in objids:
            res.setdefault(n, ("exc", "open failed: %s: %s" % (type(e).__name__, e)))
    finally:
        set_bufsiz(4096)
    return res


# --------------------------------------------------------------------------
def wrap_for_stream(v: Any) -> Any:
    """A top-level `n g R` is not a single object for a content/object-stream parser: wrap it."""
    return [v] if isinstance(v, Ref) else v


def safe_repr(v: Any) -> Optional[str]:
    try:
        return repr(v)
    except RecursionError:
        return None


def judge(rec, v: Any, sp: bytes, feats, boundary: str, bufsiz: int, outcome: Tuple[str, Any], tag: Optional[str]) -> None:
    rec.count("b:" + boundary)
    if outcome[0] == "exc":
        msg = "raised " + outcome[1]
    else:
        msg = compare(v, outcome[1])
    if msg is None:
        return
    rec.fail(_key(boundary, msg, tag), {"value": safe_repr(v), "spelling": sp, "boundary": boundary, "bufsiz": bufsiz, "features": sorted(feats), "tag": tag},
             "boundary=%s BUFSIZ=%d spelling=%r: %s" % (boundary, bufsiz, sp[:400], msg))


def run_batch(rec, rng: random.Random, batch: List[Tuple[Any, bytes, set, List[int]]], tier: str, tag: Optional[str] = None) -> None:
    fixed = FIXED_BUFS[tier]
    # boundary (a): PDFStreamParser on the bare spelling
    for v, sp, feats, marks in batch:
        sv = wrap_for_stream(v)
        ssp = b"[" + sp + b"]" if sv is not v else sp
        off = 1 if sv is not v else 0
        sizes = list(fixed)
        targeted = [m + off for m in rng.sample(marks, min(len(marks), 3))]
        rec.count("targeted_bufsizes", len(targeted))
        for bs in sizes + targeted:
            try:
                o: Tuple[str, Any] = ("ok", read_stream(ssp, bs))
            except Exception as e:  # noqa: BLE001
                o = ("exc", "%s: %s" % (type(e).__name__, e))
            judge(rec, sv, ssp, feats, "stream", bs, o, tag)
            rec.case(None, False)
    # boundary (b): n 0 obj ... endobj through PDFDocument.getobj
    items = [(sp, 3 + i * rng.choice([1, 1, 2])) for i, (_, sp, _, _) in enumerate(batch)]
    seen: set = set()
    items2 = []
    nxt = 3
    for sp, _ in items:
        nxt += rng.choice([1, 1, 1, 2, 7])
        items2.append((sp, nxt))
    data, valoffs = build_getobj_file(items2, rng)
    targeted = []
    for (v, sp, feats, marks), (_, n) in zip(batch, items2):
        if marks and len(targeted) < 3 and rng.random() < 0.5:
            targeted.append(valoffs[n] + rng.choice(marks))
    rec.count("targeted_bufsizes", len(targeted))
    for bs in list(fixed) + targeted:
        res = read_doc(data, [n for _, n in items2], bs, "getobj")
        for (v, sp, feats, marks), (_, n) in zip(batch, items2):
            judge(rec, v, sp, feats, "getobj", bs, res[n], tag)
            rec.case(None, False)
    # boundary (c): object-stream members
    items3 = []
    vals3 = []
    for (v, sp, feats, marks), (_, n) in zip(batch, items2):
        sv = wrap_for_stream(v)
        ssp = b"[" + sp + b"]" if sv is not v else sp
        items3.append((ssp, n))
        vals3.append((sv, ssp, feats, [m + (1 if sv is not v else 0) for m in marks]))
    data, inner = build_objstm_file(items3, rng)
    targeted = []
    for (v, sp, feats, marks), (_, n) in zip(vals3, items3):
        if marks and len(targeted) < 3 and rng.random() < 0.5:
            targeted.append(inner[n] + rng.choice(marks))
    rec.count("targeted_bufsizes", len(targeted))
    for bs in list(fixed) + targeted:
        res = read_doc(data, [n for _, n in items3], bs, "objstm")
        for (v, sp, feats, marks), (_, n) in zip(vals3, items3):
            judge(rec, v, sp, feats, "objstm", bs, res[n], tag)
            rec.case(None, False)
    for v, sp, feats, marks in batch:
        rec.case(chash(safe_repr(v), sp), bool(feats))
        for f in feats:
            rec.see("features", f)
        rec.count("spellings")
        if rec.want_sample() and len(sp) < 160 and len(feats) >= 3:
            rec.sample({"value": safe_repr(v), "spelling": sp, "features": sorted(feats)})


def run_shard(spec: Dict[str, Any], rec) -> None:
    sys.setrecursionlimit(20000)
    _install_fillbuf_recorder()
    tier = spec["tier"]
    rng = random.Random("C01/%d/%s/%d" % (spec["seed"], spec["kind"], spec["sub"]))
    if spec["kind"] == "rand":
        maxdepth = 6 if tier == "quick" else rng.choice([4, 6, 8])
        batch = []
        for i in range(spec["n"]):
            prof = Profile(minimal=rng.choice([0.0, 0.3, 0.9]), comment=rng.choice([0.0, 0.1, 0.3]),
                           redundant=rng.choice([0.0, 0.3]), escape=rng.choice([0.1, 0.3]), octal=rng.choice([0.1, 0.4]),
                           cont=rng.choice([0.0, 0.1, 0.3]), superfl=rng.choice([0.0, 0.1]), hexstr=rng.choice([0.2, 0.6]),
                           hexws=rng.choice([0.0, 0.3]), name_esc=rng.choice([0.0, 0.4]))
            if tier == "thorough" and rng.random() < 0.02:
                v = gen_value(rng, 0, 40) if rng.random() < 0.5 else _chain(rng, rng.randint(10, 40))
            else:
                v = gen_value(rng, 0, maxdepth)
            sp, feats, marks = spell(v, rng, prof)
            batch.append((v, sp, feats, marks))
            if len(batch) == 12:
                run_batch(rec, rng, batch, tier)
                batch = []
        if batch:
            run_batch(rec, rng, batch, tier)
    elif spec["kind"] == "deep":
        for d in (spec["depth"] // 10, spec["depth"]):
            v = _chain(rng, d)
            sp, feats, marks = spell(v, rng, Profile(comment=0.02))
            feats = set(feats) | {"deep_chain_%d" % d}
            run_batch(rec, rng, [(v, sp, feats, marks[:50])], tier)
            rec.count("deep_chain_depth_max", 0)
            rec.see("deep_depths", d)
    elif spec["kind"] == "oddhex":
        # tagged sub-family: canonical spelling except for the odd number of hex digits
        prof = Profile(minimal=0, comment=0, redundant=0, hexstr=1.0, hexws=0, name_esc=0, nul_ws=False)
        batch = []
        for i in range(spec["n"]):
            s = bytes(rng.randint(0, 255) for _ in range(rng.randint(0, 6))) + bytes([rng.randrange(16) << 4])
            v: Any = HexStr(s) if rng.random() < 0.5 else [HexStr(s), 1]
            sp, feats, marks = spell(v, rng, prof, odd_hex=True)
            if "hex_odd_length" not in feats:
                continue
            batch.append((v, sp, feats, []))
        run_batch(rec, rng, batch, tier, tag="hex_odd_length")
        rec.count("oddhex_cases", len(batch))
    for s in _STATE["states"]:
        rec.see("refill_state_x_boundary", s)


def _chain(rng: random.Random, depth: int) -> Any:
    v: Any = rng.choice([1, Name(b"leaf"), b"s", None])
    for _ in range(depth):
        if rng.random() < 0.5:
            v = [v] if rng.random() < 0.6 else [1, v, Name(b"x")]
        else:
            v = {Name(b"K"): v}
    return v


# --------------------------------------------------------------------------
def _key(boundary: str, msg: str, tag: Optional[str]) -> str:
    if tag is not None:
        return tag
    return "mismatch:%s:%s" % (boundary, msg.split(": expected ")[1].split(" ")[0] if ": expected " in msg else "exception")


def read_one(v: Any, sp: bytes, boundary: str, bufsiz: int) -> Optional[str]:
    """Read one spelling through one boundary; -> mismatch message or None."""
    rng = random.Random(0)
    if boundary == "stream":
        try:
            return compare(v, read_stream(sp, bufsiz))
        except Exception as e:  # noqa: BLE001
            return "raised %s: %s" % (type(e).__name__, e)
    if boundary == "getobj":
        data, _ = build_getobj_file([(sp, 3)], rng)
    else:
        data, _ = build_objstm_file([(sp, 3)], rng)
    r = read_doc(data, [3], bufsiz, boundary)[3]
    return ("raised " + r[1]) if r[0] == "exc" else compare(v, r[1])


def replay(case: Dict[str, Any]) -> List[Tuple[str, str]]:
    """Re-read the stored spelling through its boundary at the stored and the fixed buffer sizes."""
    sys.setrecursionlimit(20000)
    _install_fillbuf_recorder()
    env = {"HexStr": HexStr, "Name": Name, "Ref": Ref, "Real": Real}
    sp = case["spelling"]
    if case["value"] is None:
        # value too deeply nested to be written out: compare the readings at all buffer sizes with each other
        ref = None
        for bs in [4096, 1, 2, 3, 5, 7, 16, 64]:
            try:
                got = _plain(read_stream(sp, bs))
            except Exception as e:  # noqa: BLE001
                return [("mismatch:stream:exception", "deep value, BUFSIZ=%d: %s: %s" % (bs, type(e).__name__, e))]
            if ref is None:
                ref = got
            elif got != ref:
                return [("mismatch:stream:array", "deep value reads differently at BUFSIZ=%d" % bs)]
        return []
    exp = eval(case["value"], env)  # noqa: S307 - repr written by this check
    boundary = case.get("boundary", "stream")
    tag = case.get("tag")
    for bs in [int(case.get("bufsiz", 4096)), 1, 2, 3, 5, 7, 16, 64, 4096]:
        msg = read_one(exp, sp, boundary, bs)
        if msg:
            return [(_key(boundary, msg, tag), "boundary=%s BUFSIZ=%d spelling=%r: %s" % (boundary, bs, sp[:300], msg))]
    return []


def _plain(o: Any) -> Any:
    """Iteratively flatten a pdfminer value into a comparable token list (deep values)."""
    from pdfminer.pdftypes import PDFObjRef
    from pdfminer.psparser import PSLiteral

    out: List[Any] = []
    st = [o]
    while st:
        x = st.pop()
        if isinstance(x, list):
            out.append("[%d" % len(x))
            st.extend(reversed(x))
        elif isinstance(x, dict):
            out.append("{%d" % len(x))
            for k2, v2 in reversed(list(x.items())):
                st.append(v2)
                st.append("key:" + str(k2))
        elif isinstance(x, PSLiteral):
            out.append(("N", x.name))
        elif isinstance(x, PDFObjRef):
            out.append(("R", x.objid))
        else:
            out.append(x)
    return out
