"""C20 — geometry helpers obey affine algebra; the spatial index equals brute-force search.

Two monitors.

Matrix laws.  A matrix (a,b,c,d,e,f) denotes the 3x3 matrix [[a b 0][c d 0][e f 1]]
acting on row vectors [x y 1] (ISO 32000-1, 8.3.3/8.3.4); mult_matrix(m1, m0) is the
product M1 x M0 in that convention (it is how the `cm` operator concatenates onto the
CTM), i.e. "m1 first, then m0".  The reference is a plain 3x3 product over
fractions.Fraction written from that definition.  Every helper is called with Fraction,
int, mixed and dyadic-float components (all arithmetic exact) and the following are
compared exactly: identity, associativity, product == reference, point map == reference,
composition law, translate_matrix(m, v) == T(v) x M and its origin clause, the
apply_matrix_norm docstring identity, inverse law (non-singular Fraction matrices) and
apply_matrix_rect == min/max hull of the four mapped corners.

Plane histories.  Operation sequences add / extend / remove / find / iterate / len /
contains on Plane(bbox, gridsize) are executed next to a list model.
    may(o, q)   = o.x0 < q.x1 and q.x0 < o.x1 and o.y0 < q.y1 and q.y0 < o.y1   (proper overlap)
    must(o,q,B) = may(o, q) holds inside the index bounds B: on each axis o, q and B share a
                  stretch of positive length, or o is degenerate there (a rule or a point) and lies
                  strictly inside q and strictly inside B, or q is degenerate and lies strictly
                  inside o and strictly inside B
"Properly overlaps" is the strict relation of Plane.find's own filter, which a zero-width
object strictly inside a query satisfies (rules and zero-width rectangles are ordinary layout
objects), so such objects are in the must-set, also when their coordinate is an exact
multiple of the grid size.  find(q) must return every live object with must(), only live
objects with may(), each once; the rest (objects meeting the query only outside the bounds
or only on the bounds' edge) is "don't care".  Iteration must be the live objects in
insertion order, len/in must agree with the model.

Tagged sub-family 'readd' (never part of the main families): an object that was removed is
added again.  It must then be live, found, counted and iterated exactly once, at the place of
its latest insertion (adding it again is an insertion).  A deviation that consists solely of
re-added objects being iterated more than once carries the key `readd_iterated_twice`, one
that consists solely of re-added objects iterated once but elsewhere carries
`readd_not_at_latest_position`.
"""
from __future__ import annotations

import math
import random
from fractions import Fraction
from typing import Any, Dict, List, Optional, Sequence, Tuple

from vf.common import chash

ID = "C20"
LEVEL = "exploration"
DESIGN_REF = "DESIGN.md#C20"
TECHNIQUE = "exact algebraic laws over Q against a 3x3 reference; model-based testing of the index with must/may bounds"
RULE = (
    "matrix: random tuples (m1,m2,m3,p,v,rect) whose components are Fractions (small and huge denominators), ints, "
    "mixed, or dyadic floats k/16; matrices drawn from identity/zero/translation/scale/quarter-turn/reflection/shear/"
    "rank-1/general; rectangles proper, degenerate and reflected. distinct = distinct tuples, non-trivial = at least "
    "two of the three matrices are neither identity nor zero. "
    "plane-exh: per (gridsize in 1/7/50) x (7 index origins: zero, positive, negative, straddling zero, fractional, "
    "bounds inside (-1,0)) every object interval x every query interval over a lattice of <=14 (quick) / <=20 (thorough) "
    "values (bounds, bounds+-1/4, far outside, first cell border +-1/4, -3/4,-1/4,0; thorough adds the second border, "
    "the middle, -1, 1/4, 1) on each axis: add, find, remove, find. distinct = (config,"
    "axis,object,query), non-trivial = object and query both meet the bounds. "
    "plane-hist: random histories of 4..200 operations, interval styles border/incell/subunit/span/touch/cross/"
    "outside/cover/zero/rand per axis, queries also derived from live objects (equal, edge-adjacent, inside, around); "
    "a find after every mutation plus a full audit at the end. distinct = distinct histories, non-trivial = >=2 adds "
    "and (a remove or a find with a non-empty must-set). Only live objects are removed, only new objects are added "
    "(a double add and the removal of an absent object are undocumented and not generated). Re-adding a removed "
    "object (through add() or as an item of extend(), alone or mixed with new objects) occurs only in the tagged sub-family 'readd' (it must be iterated once, at its latest insertion)."
)
LEVEL_TEXT = (
    "Bounded exploration: the laws are evaluated exactly on the generated tuples and the index is compared with a "
    "brute-force model on every generated history; nothing is claimed about tuples or histories outside the "
    "generated families, although the per-axis lattice enumeration is exhaustive for single-object planes over "
    "that lattice."
)
ASSUMPTIONS = [
    "mult_matrix(m1, m0) denotes the PDF row-vector product M1 x M0 (ISO 32000-1 8.3.4), the order in which `cm` concatenates onto the CTM",
    "translate_matrix's docstring ('origin at the specified point in its own coordinate system') means T(v) x M",
    "fractions.Fraction arithmetic and float comparison are exact; dyadic operands k/16 with |k|<=1024 keep every float product/sum exact",
    "Plane promises nothing about the part of an object or query outside its bbox or on the bbox's edge (don't-care for the lower bound)",
    "'properly overlap' is the strict-inequality relation of Plane.find's filter, under which a degenerate box strictly inside the other box overlaps it",
    "adding a removed object again is an insertion: it is iterated at the end",
    "objects are immutable while indexed and compare/hash by identity (as LTComponent does)",
]
SHARD_TIMEOUT = {"quick": 300, "thorough": 3600}

LAWS = [
    "mult_identity", "mult_assoc", "mult_vs_reference", "pt_vs_reference", "pt_composition", "translate_vs_mult",
    "translate_origin", "norm_law", "norm_linear", "rect_hull", "mult_inverse",
]
GRIDSIZES = (1, 7, 50)


def minimums(tier: str) -> Dict[str, int]:
    # exh_* and *_cases are deterministic; the others are ~60% of what seeds 0..4 give
    if tier == "quick":
        return {
            "evaluations": 270000, "distinct": 150000,
            "matrix_cases": 5000, "law_evaluations": 150000, "seen:laws": len(LAWS), "seen:number_kinds": 4,
            "seen:matrix_styles": len(MATRIX_STYLES), "rect_degenerate": 600, "rect_reflected": 600, "matrix_singular": 1500,
            "exh_pairs": 260000, "exh_must": 120000, "exh_dontcare": 15000, "seen:exh_origins": len(EXH_ORIGINS),
            "hist_cases": 2000, "finds_checked": 60000, "find_must_objects": 120000, "find_dontcare_objects": 50000,
            "removes": 8000, "iter_checked": 5000, "len_checked": 30000, "contains_checked": 50000,
            "readd_histories": 250, "readds": 700, "readds_via_extend": 400, "extends_with_removed": 250,
            "extends_mixing_new_and_removed": 120, "extend_size_0": 400, "extend_size_1": 500, "extend_size_2": 1500,
            "seen:gridsizes": 3, "seen:origin_kinds": len(ORIGIN_KINDS), "seen:interval_styles": len(INTERVAL_STYLES),
            "seen:query_styles": 7, "seen:object_kinds": 2,
        }
    return {
        "evaluations": 1000000, "distinct": 700000,
        "matrix_cases": 200000, "law_evaluations": 6000000, "seen:laws": len(LAWS), "seen:number_kinds": 4,
        "seen:matrix_styles": len(MATRIX_STYLES), "rect_degenerate": 30000, "rect_reflected": 30000, "matrix_singular": 80000,
        "exh_pairs": 800000, "exh_must": 400000, "exh_dontcare": 25000, "seen:exh_origins": len(EXH_ORIGINS),
        "hist_cases": 80000, "finds_checked": 2500000, "find_must_objects": 5000000, "find_dontcare_objects": 2000000,
        "removes": 400000, "iter_checked": 200000, "len_checked": 1500000, "contains_checked": 2500000,
        "readd_histories": 8000, "readds": 20000, "readds_via_extend": 12000, "extends_with_removed": 8000,
        "extends_mixing_new_and_removed": 4000, "extend_size_0": 15000, "extend_size_1": 20000, "extend_size_2": 60000,
        "seen:gridsizes": 3, "seen:origin_kinds": len(ORIGIN_KINDS), "seen:interval_styles": len(INTERVAL_STYLES),
        "seen:query_styles": 7, "seen:object_kinds": 2,
    }


def shards(tier: str, seed: int) -> List[Dict[str, Any]]:
    out: List[Dict[str, Any]] = []
    q = tier == "quick"
    nmat, per = (8, 640) if q else (32, 6300)
    for k in range(nmat):
        out.append({"kind": "mat", "n": per, "sub": k})
    for gi in range(len(GRIDSIZES)):
        for oi in range(len(EXH_ORIGINS)):
            out.append({"kind": "exh", "g": gi, "origin": oi})
    nh, per = (16, 110) if q else (48, 1500)
    for k in range(nh):
        out.append({"kind": "hist", "n": per, "sub": 100 + k})
    nr, per = (4, 70) if q else (8, 1050)
    for k in range(nr):
        out.append({"kind": "readd", "n": per, "sub": 200 + k})
    return out


# ==========================================================================
# helpers
# ==========================================================================
def _where(e: BaseException) -> str:
    tb = e.__traceback__
    fn = "?"
    while tb is not None:
        if "pdfminer" in tb.tb_frame.f_code.co_filename:
            fn = tb.tb_frame.f_code.co_name
        tb = tb.tb_next
    return fn


def _exc_key(e: BaseException) -> str:
    return "exception:%s:%s" % (type(e).__name__, _where(e))


# ==========================================================================
# Part 1: matrix laws
# ==========================================================================
def _m3(m: Sequence[Any]) -> List[List[Any]]:
    a, b, c, d, e, f = m
    return [[a, b, 0], [c, d, 0], [e, f, 1]]


def _mul3(A: List[List[Any]], B: List[List[Any]]) -> List[List[Any]]:
    return [[sum(A[i][k] * B[k][j] for k in range(3)) for j in range(3)] for i in range(3)]


def ref_mult(m1: Sequence[Any], m0: Sequence[Any]) -> Tuple[Any, ...]:
    """M1 x M0 for PDF matrices (row-vector convention)."""
    P = _mul3(_m3(m1), _m3(m0))
    assert P[0][2] == 0 and P[1][2] == 0 and P[2][2] == 1
    return (P[0][0], P[0][1], P[1][0], P[1][1], P[2][0], P[2][1])


def ref_pt(m: Sequence[Any], p: Sequence[Any]) -> Tuple[Any, Any]:
    """[x y 1] x M."""
    M = _m3(m)
    row = [p[0], p[1], 1]
    out = [sum(row[k] * M[k][j] for k in range(3)) for j in range(3)]
    assert out[2] == 1
    return (out[0], out[1])


def ref_inverse(m: Sequence[Fraction]) -> Optional[Tuple[Fraction, ...]]:
    a, b, c, d, e, f = m
    det = a * d - b * c
    if det == 0:
        return None
    ia, ib, ic, id_ = d / det, -b / det, -c / det, a / det
    # the inverse must send (e, f) back to the origin
    ie = -(e * ia + f * ic)
    if_ = -(e * ib + f * id_)
    return (ia, ib, ic, id_, ie, if_)


IDENT = (1, 0, 0, 1, 0, 0)
_DENS = (1, 1, 1, 2, 3, 4, 5, 7, 8, 10, 16, 72, 100, 1000)
NUMBER_KINDS = ("fraction", "int", "mixed", "dyadic")


def _num(rng: random.Random, nk: str) -> Any:
    r = rng.random()
    if nk == "dyadic":
        if r < 0.1:
            return 0.0
        if r < 0.2:
            return float(rng.choice((1, -1)))
        if r < 0.6:
            return rng.randint(-64, 64) / 16.0
        return rng.randint(-1024, 1024) / 16.0
    if nk == "int" or (nk == "mixed" and rng.random() < 0.5):
        if r < 0.12:
            return 0
        if r < 0.25:
            return rng.choice((1, -1))
        if r < 0.9:
            return rng.randint(-20, 20)
        return rng.randint(-10 ** 9, 10 ** 9)
    if r < 0.1:
        return Fraction(0)
    if r < 0.2:
        return Fraction(rng.choice((1, -1)))
    if r < 0.9:
        return Fraction(rng.randint(-60, 60), rng.choice(_DENS))
    return Fraction(rng.randint(-10 ** 12, 10 ** 12), rng.randint(1, 10 ** 6))


MATRIX_STYLES = ("identity", "zero", "translation", "scale", "quarter_turn", "reflection", "shear", "rank1", "general")


def _matrix(rng: random.Random, nk: str) -> Tuple[str, Tuple[Any, ...]]:
    n = lambda: _num(rng, nk)  # noqa: E731
    one = 1.0 if nk == "dyadic" else (Fraction(1) if nk == "fraction" else 1)
    zero = one - one
    style = rng.choices(MATRIX_STYLES, weights=(4, 3, 8, 10, 10, 8, 10, 10, 37))[0]
    if style == "identity":
        m = (one, zero, zero, one, zero, zero)
    elif style == "zero":
        m = (zero, zero, zero, zero, zero if rng.random() < 0.5 else n(), zero)
    elif style == "translation":
        m = (one, zero, zero, one, n(), n())
    elif style == "scale":
        m = (n(), zero, zero, n(), n(), n())
    elif style == "quarter_turn":
        s = rng.choice((1, -1))
        k = n()
        m = (zero, s * k, -s * k, zero, n(), n())
    elif style == "reflection":
        m = rng.choice(((-one, zero, zero, one), (one, zero, zero, -one), (zero, one, one, zero), (-one, zero, zero, -one))) + (n(), n())
    elif style == "shear":
        m = (one, n(), zero, one, n(), n()) if rng.random() < 0.5 else (one, zero, n(), one, n(), n())
    elif style == "rank1":
        a, b = n(), n()
        k = n() if nk != "dyadic" else float(rng.randint(-4, 4))
        if nk == "dyadic":  # keep the magnitudes inside the exact range
            a, b = rng.randint(-64, 64) / 16.0, rng.randint(-64, 64) / 16.0
        m = (a, b, k * a, k * b, n(), n())
    else:
        m = (n(), n(), n(), n(), n(), n())
    return style, m


def _rect(rng: random.Random, nk: str) -> Tuple[str, Tuple[Any, ...]]:
    vals = [_num(rng, nk) for _ in range(4)]
    x0, x1 = sorted((vals[0], vals[1]))
    y0, y1 = sorted((vals[2], vals[3]))
    r = rng.random()
    if r < 0.6:
        if x0 == x1:
            x1 = x1 + 1
        if y0 == y1:
            y1 = y1 + 2
        return "proper", (x0, y0, x1, y1)
    if r < 0.8:
        which = rng.randrange(3)
        if which in (0, 2):
            x1 = x0
        if which in (1, 2):
            y1 = y0
        return "degenerate", (x0, y0, x1, y1)
    if x0 == x1:
        x1 = x1 + 1
    if y0 == y1:
        y1 = y1 + 1
    which = rng.randrange(3)
    if which in (0, 2):
        x0, x1 = x1, x0
    if which in (1, 2):
        y0, y1 = y1, y0
    return "reflected", (x0, y0, x1, y1)


def gen_matrix_case(rng: random.Random) -> Dict[str, Any]:
    nk = rng.choice(NUMBER_KINDS)
    ms, styles = [], []
    for _ in range(3):
        s, m = _matrix(rng, nk)
        ms.append(m)
        styles.append(s)
    rs, rect = _rect(rng, nk)
    return {
        "kind": "mat", "nk": nk, "m": ms, "styles": styles,
        "p": (_num(rng, nk), _num(rng, nk)), "v": (_num(rng, nk), _num(rng, nk)),
        "rect": rect, "rect_style": rs,
    }


def _Q(x: Any) -> Fraction:
    return x if isinstance(x, Fraction) else Fraction(x)


def _Qt(t: Sequence[Any]) -> Tuple[Fraction, ...]:
    return tuple(_Q(x) for x in t)


def check_matrix_case(case: Dict[str, Any]) -> Tuple[List[Tuple[str, str]], Dict[str, int]]:
    """All laws on one tuple. -> (fails, stats)."""
    from pdfminer import utils as U

    fails: List[Tuple[str, str]] = []
    stats: Dict[str, int] = {}
    m1, m2, m3 = (tuple(m) for m in case["m"])
    p, v, rect = tuple(case["p"]), tuple(case["v"]), tuple(case["rect"])
    nk = case["nk"]
    q1, q2, q3, qp, qv, qr = _Qt(m1), _Qt(m2), _Qt(m3), _Qt(p), _Qt(v), _Qt(rect)

    class Abort(Exception):
        pass

    def call(fn, n, *args):
        try:
            r = fn(*args)
        except Exception as e:  # noqa: BLE001
            fails.append((_exc_key(e), "%s%r (%s): %r" % (fn.__name__, args, nk, e)))
            raise Abort()
        if not isinstance(r, tuple) or len(r) != n:
            fails.append(("result_shape", "%s%r -> %r, expected a %d-tuple" % (fn.__name__, args, r, n)))
            raise Abort()
        try:
            return _Qt(r)
        except (TypeError, ValueError):
            fails.append(("result_shape", "%s%r -> %r: non-numeric component" % (fn.__name__, args, r)))
            raise Abort()

    def law(name, got, want, what):
        stats[name] = stats.get(name, 0) + 1
        if tuple(got) != tuple(want):
            fails.append((name, "%s [%s]: got %s, expected %s" % (what, nk, _fmt(got), _fmt(want))))

    def raw(fn, *args):
        try:
            return fn(*args)
        except Exception as e:  # noqa: BLE001
            fails.append((_exc_key(e), "%s%r (%s): %r" % (fn.__name__, args, nk, e)))
            raise Abort()

    mult = lambda a, b: call(U.mult_matrix, 6, a, b)  # noqa: E731
    pt = lambda m, x: call(U.apply_matrix_pt, 2, m, x)  # noqa: E731
    try:
        ident = tuple(type(m1[0])(x) for x in IDENT) if nk != "mixed" else IDENT
        for m, qm in ((m1, q1), (m2, q2)):
            law("mult_identity", mult(ident, m), qm, "mult_matrix(I, %s)" % _fmt(m))
            law("mult_identity", mult(m, ident), qm, "mult_matrix(%s, I)" % _fmt(m))
            law("mult_identity", mult(U.MATRIX_IDENTITY, m), qm, "mult_matrix(MATRIX_IDENTITY, %s)" % _fmt(m))
        # product against the 3x3 reference, all ordered pairs
        for (a, qa), (b, qb) in (((m1, q1), (m2, q2)), ((m2, q2), (m1, q1)), ((m2, q2), (m3, q3)), ((m1, q1), (m1, q1))):
            law("mult_vs_reference", mult(a, b), ref_mult(qa, qb), "mult_matrix(%s, %s)" % (_fmt(a), _fmt(b)))
        # associativity, computed by the library on its own outputs
        m12 = raw(U.mult_matrix, m1, m2)
        m23 = raw(U.mult_matrix, m2, m3)
        law("mult_assoc", mult(m12, m3), mult(m1, m23), "(m1*m2)*m3 vs m1*(m2*m3) for %s" % _fmt((m1, m2, m3)))
        law("mult_assoc", mult(m12, m3), ref_mult(ref_mult(q1, q2), q3), "(m1*m2)*m3 vs reference for %s" % _fmt((m1, m2, m3)))
        # point map
        for m, qm in ((m1, q1), (m2, q2), (m3, q3)):
            law("pt_vs_reference", pt(m, p), ref_pt(qm, qp), "apply_matrix_pt(%s, %s)" % (_fmt(m), _fmt(p)))
        # composition: apply(m1*m0, p) == apply(m0, apply(m1, p))
        inner = raw(U.apply_matrix_pt, m1, p)
        law("pt_composition", pt(m12, p), pt(m2, inner), "apply(mult(m1,m2),p) vs apply(m2,apply(m1,p)) for %s" % _fmt((m1, m2, p)))
        law("pt_composition", pt(raw(U.mult_matrix, m12, m3), p), ref_pt(q3, ref_pt(q2, ref_pt(q1, qp))),
            "apply(m1*m2*m3, p) vs reference chain for %s" % _fmt((m1, m2, m3, p)))
        # translate_matrix
        for m, qm in ((m1, q1), (m3, q3)):
            tm = call(U.translate_matrix, 6, m, v)
            tvec = (1, 0, 0, 1, qv[0], qv[1])
            law("translate_vs_mult", tm, ref_mult(tvec, qm), "translate_matrix(%s, %s) vs T(v) x M" % (_fmt(m), _fmt(v)))
            one = type(v[0])(1) if nk != "mixed" else 1
            zero = one - one
            law("translate_vs_mult", tm, mult((one, zero, zero, one, v[0], v[1]), m),
                "translate_matrix(%s, %s) vs mult_matrix((1,0,0,1,vx,vy), m)" % (_fmt(m), _fmt(v)))
            traw = raw(U.translate_matrix, m, v)
            law("translate_origin", pt(traw, (zero, zero)), ref_pt(qm, qv),
                "origin of translate_matrix(%s, %s) vs m applied to v" % (_fmt(m), _fmt(v)))
            law("translate_origin", pt(traw, p), ref_pt(qm, (qp[0] + qv[0], qp[1] + qv[1])),
                "translate_matrix(%s, %s) applied to %s vs m applied to p+v" % (_fmt(m), _fmt(v), _fmt(p)))
        # apply_matrix_norm
        for m, qm in ((m1, q1), (m2, q2)):
            nv = call(U.apply_matrix_norm, 2, m, v)
            a = ref_pt(qm, qv)
            o = ref_pt(qm, (Fraction(0), Fraction(0)))
            law("norm_law", nv, (a[0] - o[0], a[1] - o[1]), "apply_matrix_norm(%s, %s)" % (_fmt(m), _fmt(v)))
            a2, o2 = pt(m, v), pt(m, (v[0] - v[0], v[1] - v[1]))
            law("norm_law", nv, (a2[0] - o2[0], a2[1] - o2[1]), "apply_matrix_norm(%s, %s) vs library apply_matrix_pt difference" % (_fmt(m), _fmt(v)))
            npv = call(U.apply_matrix_norm, 2, m, (p[0] + v[0], p[1] + v[1]))
            np_ = call(U.apply_matrix_norm, 2, m, p)
            law("norm_linear", npv, (np_[0] + nv[0], np_[1] + nv[1]), "apply_matrix_norm(%s, p+v) additivity p=%s v=%s" % (_fmt(m), _fmt(p), _fmt(v)))
        # apply_matrix_rect
        for m, qm in ((m1, q1), (m2, q2), (m3, q3)):
            got = call(U.apply_matrix_rect, 4, m, rect)
            corners = [ref_pt(qm, c) for c in ((qr[0], qr[1]), (qr[2], qr[1]), (qr[2], qr[3]), (qr[0], qr[3]))]
            xs, ys = [c[0] for c in corners], [c[1] for c in corners]
            law("rect_hull", got, (min(xs), min(ys), max(xs), max(ys)), "apply_matrix_rect(%s, %s)" % (_fmt(m), _fmt(rect)))
        # inverse (needs division: Fraction components only)
        if nk == "fraction":
            for m, qm in ((m1, q1), (m2, q2), (m3, q3)):
                inv = ref_inverse(qm)
                if inv is None:
                    stats["matrix_singular"] = stats.get("matrix_singular", 0) + 1
                    continue
                law("mult_inverse", mult(m, inv), _Qt(IDENT), "mult_matrix(m, inverse(m)) for %s" % _fmt(m))
                law("mult_inverse", mult(inv, m), _Qt(IDENT), "mult_matrix(inverse(m), m) for %s" % _fmt(m))
                law("mult_inverse", pt(inv, raw(U.apply_matrix_pt, m, p)), qp, "inverse(m) applied to m applied to p, m=%s p=%s" % (_fmt(m), _fmt(p)))
        else:
            for qm in (q1, q2, q3):
                if qm[0] * qm[3] - qm[1] * qm[2] == 0:
                    stats["matrix_singular"] = stats.get("matrix_singular", 0) + 1
    except Abort:
        pass
    return fails, stats


def _fmt(x: Any) -> str:
    if isinstance(x, Fraction):
        return str(x)
    if isinstance(x, (tuple, list)):
        return "(" + ", ".join(_fmt(y) for y in x) + ")"
    return repr(x)


def _mat_nontrivial(case: Dict[str, Any]) -> bool:
    n = 0
    for m in case["m"]:
        q = _Qt(m)
        if q != _Qt(IDENT) and any(x != 0 for x in q[:4]):
            n += 1
    return n >= 2


def _run_mat_shard(spec: Dict[str, Any], rec) -> None:
    rng = random.Random("C20/%d/%d" % (spec["seed"], spec["sub"]))
    for _ in range(spec["n"]):
        case = gen_matrix_case(rng)
        fails, stats = check_matrix_case(case)
        rec.case(chash("mat", case["nk"], case["m"], case["p"], case["v"], case["rect"]), _mat_nontrivial(case))
        rec.count("matrix_cases")
        rec.count("matrix_cases_" + case["nk"])
        rec.see("number_kinds", case["nk"])
        rec.count("rect_" + case["rect_style"])
        for s in case["styles"]:
            rec.see("matrix_styles", s)
        for k, n in stats.items():
            if k == "matrix_singular":
                rec.count(k, n)
            else:
                rec.count("law_evaluations", n)
                rec.count("law_" + k, n)
                rec.see("laws", k)
        for k, d in fails:
            rec.fail(k, case, d)
        if rec.want_sample() and case["nk"] == "fraction" and _mat_nontrivial(case):
            rec.sample({"matrix_case": {"m": [_fmt(m) for m in case["m"]], "p": _fmt(case["p"]), "v": _fmt(case["v"]),
                                        "rect": _fmt(case["rect"]), "laws_evaluated": sum(stats.values())}})


# ==========================================================================
# Part 2: the spatial index
# ==========================================================================
Box = Tuple[float, float, float, float]


def may(o: Box, q: Box) -> bool:
    """Proper overlap of two boxes (upper bound of what find may return)."""
    return o[0] < q[2] and q[0] < o[2] and o[1] < q[3] and q[1] < o[3]


def _must_axis(o0: float, o1: float, q0: float, q1: float, b0: float, b1: float) -> bool:
    if max(o0, q0, b0) < min(o1, q1, b1):
        return True     # a common stretch of positive length inside the bounds
    if o0 == o1 and q0 < o0 < q1 and b0 < o0 < b1:
        return True     # a rule/point strictly inside the query and strictly inside the bounds
    if q0 == q1 and o0 < q0 < o1 and b0 < q0 < b1:
        return True     # a degenerate query strictly inside the object and strictly inside the bounds
    return False


def must(o: Box, q: Box, b: Box) -> bool:
    """Lower bound of find: o properly overlaps q (Plane.find's own strict relation) and does so
    inside the index bounds.  On each axis that is either a common stretch of positive length of
    o, q and the bounds, or a degenerate o (resp. q) lying strictly inside q (resp. o) and strictly
    inside the bounds.  must() implies may()."""
    return _must_axis(o[0], o[2], q[0], q[2], b[0], b[2]) and _must_axis(o[1], o[3], q[1], q[3], b[1], b[3])


class _Plain:
    """Minimal object with a bbox (Plane only reads x0, y0, x1, y1)."""

    __slots__ = ("x0", "y0", "x1", "y1", "vid")

    def __init__(self, bbox: Box, vid: int) -> None:
        self.x0, self.y0, self.x1, self.y1 = bbox
        self.vid = vid

    def __repr__(self) -> str:
        return "<obj %d>" % self.vid


_LT = None


def _make_obj(okind: str, bbox: Box, vid: int) -> Any:
    global _LT
    if okind == "plain":
        return _Plain(bbox, vid)
    if _LT is None:
        from pdfminer.layout import LTComponent

        class _LTObj(LTComponent):
            def __init__(self, bbox: Box, vid: int) -> None:
                LTComponent.__init__(self, bbox)
                self.vid = vid

        _LT = _LTObj
    return _LT(bbox, vid)


class Invalid(Exception):
    """The history is not one the generator may produce (used by the shrinker)."""


def run_history(case: Dict[str, Any], stats: Optional[Dict[str, int]] = None) -> List[Tuple[str, str]]:
    """Execute one history against Plane and the list model; stop at the first deviation."""
    from pdfminer.utils import Plane

    st = stats if stats is not None else {}

    def cnt(k: str, n: int = 1) -> None:
        st[k] = st.get(k, 0) + n

    bounds: Box = tuple(case["bbox"])  # type: ignore[assignment]
    g = case["g"]
    okind = case.get("okind", "plain")
    try:
        plane = Plane(bounds, g) if not case.get("default_gridsize") else Plane(bounds)
    except Exception as e:  # noqa: BLE001
        return [(_exc_key(e), "Plane(%r, %r): %r" % (bounds, g, e))]

    objs: Dict[int, Any] = {}
    boxes: Dict[int, Box] = {}
    order: List[int] = []       # model: live objects in insertion order
    live: set = set()
    removed: set = set()
    readded: set = set()        # objects that came back after a removal (tagged family only)
    ctx = "Plane(%r, gridsize=%r)" % (bounds, g)

    def fail(key: str, i: int, msg: str) -> List[Tuple[str, str]]:
        return [(key, "%s after %d ops, op %r: %s" % (ctx, i, case["ops"][i] if i < len(case["ops"]) else "final", msg))]

    def vids(it: Any) -> Tuple[Optional[List[int]], Optional[str]]:
        out = []
        for o in it:
            v = getattr(o, "vid", None)
            if v is None or objs.get(v) is not o:
                return None, repr(o)
            out.append(v)
        return out, None

    def chk_find(i: int, q: Box) -> Optional[List[Tuple[str, str]]]:
        try:
            res = list(plane.find(q))
        except Exception as e:  # noqa: BLE001
            return fail(_exc_key(e), i, "find(%r): %r" % (q, e))
        ids, bad = vids(res)
        if ids is None:
            return fail("find_returns_foreign", i, "find(%r) returned %s which was never added" % (q, bad))
        cnt("finds_checked")
        seen = set()
        for v in ids:
            if v in seen:
                return fail("find_duplicate", i, "find(%r) returned object %d %r twice" % (q, v, boxes[v]))
            seen.add(v)
            if v not in live:
                return fail("find_returns_removed", i, "find(%r) returned removed object %d %r" % (q, v, boxes[v]))
            if not may(boxes[v], q):
                return fail("find_returns_nonoverlapping", i, "find(%r) returned object %d %r which does not properly overlap the query" % (q, v, boxes[v]))
        nm = nd = 0
        for v in order:
            b = boxes[v]
            if must(b, q, bounds):
                nm += 1
                if v not in seen:
                    return fail("find_misses_overlapping", i,
                                "find(%r) did not return live object %d %r, which overlaps the query inside the bounds; got %r"
                                % (q, v, b, [boxes[x] for x in ids]))
            elif may(b, q):
                nd += 1
                cnt("dontcare_returned" if v in seen else "dontcare_not_returned")
        cnt("find_must_objects", nm)
        cnt("find_dontcare_objects", nd)
        if nm:
            cnt("finds_must_nonempty")
        elif not ids:
            cnt("finds_empty")
        return None

    def chk_iter(i: int) -> Optional[List[Tuple[str, str]]]:
        try:
            res = list(iter(plane))
        except Exception as e:  # noqa: BLE001
            return fail(_exc_key(e), i, "iter: %r" % (e,))
        ids, bad = vids(res)
        if ids is None:
            return fail("iter_returns_foreign", i, "iteration yielded %s which was never added" % bad)
        cnt("iter_checked")
        if ids == order:
            if readded & live:
                cnt("readd_iterated_at_latest_position")
            return None
        if any(v not in live for v in ids):
            return fail("iter_yields_removed", i, "iteration %r contains removed objects; live (insertion order) %r" % (ids, order))
        if set(ids) != live:
            return fail("iter_misses_live", i, "iteration %r lacks live objects; live (insertion order) %r" % (ids, order))
        if len(ids) != len(set(ids)):
            dup = sorted({v for v in ids if ids.count(v) > 1})
            if dup and all(v in readded for v in dup):
                return fail("readd_iterated_twice", i,
                            "iteration %r yields re-added object(s) %r more than once; live (insertion order) %r, len()=%d"
                            % (ids, dup, order, len(order)))
            return fail("iter_duplicate", i, "iteration %r yields objects %r more than once; live %r" % (ids, dup, order))
        # each live object once, order differs
        a = [v for v in ids if v not in readded]
        b = [v for v in order if v not in readded]
        if a != b:
            return fail("iter_order", i, "iteration %r is not the insertion order %r" % (ids, order))
        # only re-added objects are misplaced: adding an object again is its (latest) insertion
        return fail("readd_not_at_latest_position", i,
                    "iteration %r places re-added object(s) %r elsewhere than at their latest insertion; "
                    "insertion order of the live objects is %r" % (ids, sorted(readded & live), order))

    def chk_len(i: int) -> Optional[List[Tuple[str, str]]]:
        try:
            n = len(plane)
        except Exception as e:  # noqa: BLE001
            return fail(_exc_key(e), i, "len: %r" % (e,))
        cnt("len_checked")
        if n != len(order):
            return fail("len_mismatch", i, "len() = %r, %d objects are live" % (n, len(order)))
        return None

    def chk_in(i: int, v: int, o: Any) -> Optional[List[Tuple[str, str]]]:
        try:
            r = o in plane
        except Exception as e:  # noqa: BLE001
            return fail(_exc_key(e), i, "contains: %r" % (e,))
        cnt("contains_checked")
        if bool(r) != (v in live):
            return fail("contains_mismatch", i, "(object %d in plane) = %r, model says %r" % (v, r, v in live))
        return None

    def around(b: Box) -> Box:
        return (b[0] - 0.5, b[1] - 0.5, b[2] + 0.5, b[3] + 0.5)

    def new_obj(v: int, bbox: Sequence[float]) -> Any:
        if v in objs:
            raise Invalid("object %d created twice" % v)
        bb: Box = tuple(bbox)  # type: ignore[assignment]
        if not (bb[0] <= bb[2] and bb[1] <= bb[3]):
            raise Invalid("inverted box")
        objs[v] = _make_obj(okind, bb, v)
        boxes[v] = bb
        return objs[v]

    ops = case["ops"]
    for i, op in enumerate(ops):
        kind = op[0]
        r = None
        if kind == "add":
            o = new_obj(op[1], op[2])
            try:
                plane.add(o)
            except Exception as e:  # noqa: BLE001
                return fail(_exc_key(e), i, "add(%r): %r" % (boxes[op[1]], e))
            order.append(op[1])
            live.add(op[1])
            cnt("adds")
            r = chk_len(i) or chk_in(i, op[1], o) or chk_find(i, around(boxes[op[1]]))
        elif kind == "extend":
            # an item is a new object, or (tagged family only) one that was removed earlier; a live
            # object is never passed: add() appends a second sequence entry for it (undocumented)
            news = []
            back = []
            for v, bb in op[1]:
                if v in objs:
                    if v not in removed or v in live or v in back:
                        raise Invalid("extend with an object that is not removed")
                    if tuple(bb) != boxes[v]:
                        raise Invalid("object changed its box")
                    back.append(v)
                    news.append(objs[v])
                else:
                    news.append(new_obj(v, bb))
            how = op[2] if len(op) > 2 else "list"
            arg: Any = news if how == "list" else (tuple(news) if how == "tuple" else (x for x in news))
            try:
                plane.extend(arg)
            except Exception as e:  # noqa: BLE001
                return fail(_exc_key(e), i, "extend(%r): %r" % ([bb for _, bb in op[1]], e))
            for v, _ in op[1]:
                order.append(v)
                live.add(v)
            cnt("extends")
            cnt("extend_size_%d" % min(len(news), 2))
            cnt("adds", len(news) - len(back))
            r = chk_len(i)
            if r is None and news:
                r = chk_find(i, around(boxes[op[1][-1][0]]))
            if back:
                readded.update(back)
                cnt("readds", len(back))
                cnt("readds_via_extend", len(back))
                cnt("extends_with_removed")
                if len(back) < len(news):
                    cnt("extends_mixing_new_and_removed")
                for v in back:
                    r = r or chk_in(i, v, objs[v]) or chk_find(i, around(boxes[v]))
                r = r or chk_iter(i)
        elif kind == "remove":
            v = op[1]
            if v not in live:
                raise Invalid("remove of an absent object")
            try:
                plane.remove(objs[v])
            except Exception as e:  # noqa: BLE001
                return fail(_exc_key(e), i, "remove(object %d %r): %r" % (v, boxes[v], e))
            live.discard(v)
            order.remove(v)
            removed.add(v)
            cnt("removes")
            r = chk_len(i) or chk_in(i, v, objs[v]) or chk_find(i, around(boxes[v]))
        elif kind == "readd":
            v = op[1]
            if v not in removed or v in live:
                raise Invalid("readd of an object that is not removed")
            try:
                plane.add(objs[v])
            except Exception as e:  # noqa: BLE001
                return fail(_exc_key(e), i, "add(object %d again): %r" % (v, e))
            live.add(v)
            order.append(v)
            readded.add(v)
            cnt("readds")
            r = chk_len(i) or chk_in(i, v, objs[v]) or chk_find(i, around(boxes[v])) or chk_iter(i)
        elif kind == "find":
            qq: Box = tuple(op[1])  # type: ignore[assignment]
            if not (qq[0] <= qq[2] and qq[1] <= qq[3]):
                raise Invalid("inverted query")
            r = chk_find(i, qq)
        elif kind == "iter":
            r = chk_iter(i)
        elif kind == "len":
            r = chk_len(i)
        elif kind == "contains":
            v = op[1]
            if v in objs:
                r = chk_in(i, v, objs[v])
            elif v < 0:  # an object that was never added
                r = chk_in(i, v, _make_obj(okind, tuple(op[2]), v))
            else:
                raise Invalid("contains of an unknown object")
        else:
            raise Invalid("unknown op %r" % (kind,))
        if r:
            return r
    # final audit
    n = len(ops)
    big = (bounds[0] - 1000.0, bounds[1] - 1000.0, bounds[2] + 1000.0, bounds[3] + 1000.0)
    r = chk_len(n) or chk_iter(n) or chk_find(n, bounds) or chk_find(n, big)
    if r:
        return r
    for v, o in objs.items():
        r = chk_in(n, v, o)
        if r:
            return r
    return []


# --------------------------------------------------------------------------
# generators for boxes and histories
# --------------------------------------------------------------------------
ORIGIN_KINDS = ("zero", "pos", "neg", "straddle", "pos_frac", "neg_frac", "straddle_frac")
_FRACS = (0.5, 0.25, 0.75, 0.1, 0.9, 1.0 / 3.0)
INTERVAL_STYLES = (
    "border", "incell", "subunit", "span", "touch_lo_out", "touch_lo_in", "touch_hi_out", "touch_hi_in",
    "cross_lo", "cross_hi", "outside_lo", "outside_hi", "cover", "zero", "rand",
)
_STYLE_W = (8, 14, 10, 10, 3, 3, 3, 3, 5, 5, 3, 3, 3, 4, 23)
_STEPS = (0.25, 0.5, 1.0, 2.0)


def gen_axis(rng: random.Random, g: int, okind: str, maxcells: int) -> Tuple[float, float]:
    n = rng.randint(1, maxcells)
    base = okind.split("_")[0]
    if base == "zero":
        lo: float = 0
    elif base == "pos":
        lo = rng.randint(1, 3 * g)
    elif base == "neg":
        lo = -rng.randint(n * g + g, n * g + 3 * g)   # hi <= -g: entirely negative
    else:
        lo = -rng.randint(1, max(1, n * g - 1))
    hi: float = lo + n * g
    if okind.endswith("_frac"):
        lo = lo + rng.choice(_FRACS) * rng.choice((1, -1))
        hi = hi + rng.choice(_FRACS) * rng.choice((1, -1, 0))
        if base == "straddle" and not lo < 0:
            lo = -rng.choice(_FRACS)
        if hi <= lo:
            hi = lo + g
    elif rng.random() < 0.3:
        hi = hi + rng.randint(0, g - 1) if g > 1 else hi
    if base == "straddle" and hi <= 0:
        hi = rng.choice((0.5, 1, g))
    return (lo, hi)


def _snap(rng: random.Random, x: float) -> float:
    """A coordinate near x on a mixed grid: integers, quarters, tenths."""
    r = rng.random()
    if r < 0.4:
        return float(math.floor(x))
    if r < 0.75:
        return math.floor(x * 4) / 4.0
    return math.floor(x * 10) / 10.0


def gen_iv(rng: random.Random, b0: float, b1: float, g: int, style: str) -> Tuple[float, float]:
    lo_c = math.floor(b0 / g) - 1
    hi_c = math.floor(b1 / g) + 1
    d = rng.choice((0.25, 0.5, 1, g / 2.0, g, 2 * g + 0.5))
    if style == "border":
        a = g * rng.randint(lo_c, hi_c)
        return (a, a + g * rng.randint(1, 3))
    if style == "incell":
        c = rng.randint(lo_c, hi_c)
        f1, f2 = sorted(rng.sample((0.0, 0.125, 0.25, 0.5, 0.75, 0.875, 1.0), 2))
        return (c * g + f1 * g, c * g + f2 * g)
    if style == "subunit":
        n = rng.randint(math.floor(b0) - 1, math.ceil(b1))
        f1, f2 = sorted(rng.sample((0.1, 0.2, 0.25, 0.5, 0.75, 0.8, 0.9), 2))
        return (n + f1, n + f2)
    if style == "span":
        a = _snap(rng, rng.uniform(b0 - g, b1))
        return (a, a + g * rng.randint(2, 8) + rng.choice((0, 0.25, 0.5)))
    if style == "touch_lo_out":
        return (b0 - d, b0)
    if style == "touch_lo_in":
        return (b0, b0 + d)
    if style == "touch_hi_out":
        return (b1, b1 + d)
    if style == "touch_hi_in":
        return (b1 - d, b1)
    if style == "cross_lo":
        return (b0 - d, b0 + rng.choice((0.25, 0.5, 1, g, g + 0.5)))
    if style == "cross_hi":
        return (b1 - rng.choice((0.25, 0.5, 1, g, g + 0.5)), b1 + d)
    if style == "outside_lo":
        e = rng.choice((0.25, 1, g))
        return (b0 - e - d, b0 - e)
    if style == "outside_hi":
        e = rng.choice((0.25, 1, g))
        return (b1 + e, b1 + e + d)
    if style == "cover":
        return (b0 - rng.choice((0, 0.5, g)), b1 + rng.choice((0, 0.5, g)))
    if style == "zero":
        r = rng.random()
        if r < 0.2:
            a = rng.choice((b0, b1))
        elif r < 0.5:
            a = float(g * rng.randint(lo_c + 1, hi_c))
        else:
            a = _snap(rng, rng.uniform(b0 - 1, b1 + 1))
        return (a, a)
    a = _snap(rng, rng.uniform(b0 - g, b1 + g))
    b = _snap(rng, rng.uniform(b0 - g, b1 + g))
    if a > b:
        a, b = b, a
    if a == b:
        b = a + rng.choice(_STEPS)
    return (a, b)


def gen_box(rng: random.Random, bounds: Box, g: int, used: Optional[set] = None) -> Box:
    sx = rng.choices(INTERVAL_STYLES, weights=_STYLE_W)[0]
    sy = rng.choices(INTERVAL_STYLES, weights=_STYLE_W)[0] if rng.random() < 0.7 else "rand"
    if rng.random() < 0.5:
        sx, sy = sy, sx
    if used is not None:
        used.add(sx)
        used.add(sy)
    x = gen_iv(rng, bounds[0], bounds[2], g, sx)
    y = gen_iv(rng, bounds[1], bounds[3], g, sy)
    return (x[0], y[0], x[1], y[1])


def gen_query(rng: random.Random, bounds: Box, g: int, known: List[Box], used: Optional[set] = None) -> Tuple[str, Box]:
    r = rng.random()
    if known and r < 0.45:
        o = rng.choice(known)
        how = rng.choice(("equal", "adjacent", "inside", "around", "corner"))
        if how == "equal":
            return "obj_equal", o
        if how == "adjacent":   # shares an edge with the object: no proper overlap
            side = rng.randrange(4)
            d = rng.choice((0.25, 1, g))
            if side == 0:
                return "obj_adjacent", (o[2], o[1], o[2] + d, o[3])
            if side == 1:
                return "obj_adjacent", (o[0] - d, o[1], o[0], o[3])
            if side == 2:
                return "obj_adjacent", (o[0], o[3], o[2], o[3] + d)
            return "obj_adjacent", (o[0], o[1] - d, o[2], o[1])
        if how == "inside":
            w, h = o[2] - o[0], o[3] - o[1]
            return "obj_inside", (o[0] + w / 4.0, o[1] + h / 4.0, o[2] - w / 4.0, o[3] - h / 4.0)
        if how == "around":
            d = rng.choice((0.25, 1, g))
            return "obj_around", (o[0] - d, o[1] - d, o[2] + d, o[3] + d)
        d = rng.choice((0.25, 1, g))  # overlaps the object's upper right corner region only
        return "obj_corner", (o[2] - min(d, (o[2] - o[0]) / 2.0), o[3] - min(d, (o[3] - o[1]) / 2.0), o[2] + d, o[3] + d)
    if r < 0.5:
        return "bounds", bounds
    return "styled", gen_box(rng, bounds, g, used)


def gen_history(rng: random.Random, readd: bool, tier: str) -> Tuple[Dict[str, Any], Dict[str, Any]]:
    g = rng.choice(GRIDSIZES)
    okx, oky = rng.choice(ORIGIN_KINDS), rng.choice(ORIGIN_KINDS)
    maxcells = 10 if tier == "quick" else rng.choice((10, 10, 24))
    ax, ay = gen_axis(rng, g, okx, maxcells), gen_axis(rng, g, oky, maxcells)
    bounds: Box = (ax[0], ay[0], ax[1], ay[1])
    used: set = set()
    qstyles: set = set()
    nops = rng.choice((4, 8, 15, 15, 30, 30, 60, 60, 120, 200))
    ops: List[Any] = []
    live: List[int] = []
    gone: List[int] = []
    boxes: Dict[int, Box] = {}
    nxt = 0

    def newbox() -> Box:
        if boxes and rng.random() < 0.1:
            return boxes[rng.choice(list(boxes))]      # same bbox, different object
        return gen_box(rng, bounds, g, used)

    for _ in range(nops):
        r = rng.random()
        if r < 0.28 or (not live and r < 0.6):
            boxes[nxt] = newbox()
            ops.append(["add", nxt, boxes[nxt]])
            live.append(nxt)
            nxt += 1
        elif r < 0.33:
            k = rng.randint(0, 4)
            items = []
            for _j in range(k):
                boxes[nxt] = newbox()
                items.append([nxt, boxes[nxt]])
                live.append(nxt)
                nxt += 1
            ops.append(["extend", items, rng.choice(("list", "tuple", "generator"))])
        elif r < 0.48 and live:
            v = live.pop(rng.randrange(len(live)) if rng.random() < 0.7 else rng.choice((0, -1)))
            ops.append(["remove", v])
            gone.append(v)
        elif r < 0.56 and readd and gone:
            if rng.random() < 0.5:
                v = gone.pop(rng.randrange(len(gone)))
                ops.append(["readd", v])
                live.append(v)
            else:   # the same re-insertion through extend(): 1..4 items, removed ones mixed with new ones
                k = rng.randint(1, 4)
                nback = rng.randint(1, min(k, len(gone)))
                slots = set(rng.sample(range(k), nback))
                items = []
                for j in range(k):
                    if j in slots:
                        v = gone.pop(rng.randrange(len(gone)))
                    else:
                        v = nxt
                        boxes[v] = newbox()
                        nxt += 1
                    items.append([v, boxes[v]])
                    live.append(v)
                ops.append(["extend", items, rng.choice(("list", "tuple", "generator"))])
        elif r < 0.86:
            known = [boxes[v] for v in live] + ([boxes[v] for v in gone[-3:]] if gone else [])
            qs, q = gen_query(rng, bounds, g, known, used)
            qstyles.add(qs)
            ops.append(["find", q])
        elif r < 0.91:
            ops.append(["iter"])
        elif r < 0.95:
            ops.append(["len"])
        else:
            rr = rng.random()
            if rr < 0.4 and live:
                ops.append(["contains", rng.choice(live)])
            elif rr < 0.7 and gone:
                ops.append(["contains", rng.choice(gone)])
            else:
                ops.append(["contains", -1 - rng.randrange(1000), boxes[rng.choice(list(boxes))] if boxes else gen_box(rng, bounds, g)])
    case = {"kind": "hist", "g": g, "bbox": bounds, "okind": rng.choice(("plain", "lt")), "ops": ops}
    if g == 50 and rng.random() < 0.3:
        case["default_gridsize"] = True
    meta = {"origin": (okx, oky), "styles": used, "qstyles": qstyles}
    return case, meta


def shrink(case: Dict[str, Any], key: str, budget: int = 400) -> Dict[str, Any]:
    """Greedy removal of operations while the same key is still reported."""
    def fails_with(c: Dict[str, Any]) -> bool:
        try:
            return any(k == key for k, _ in run_history(c))
        except Invalid:
            return False

    best = dict(case)
    ops = list(case["ops"])
    i = len(ops) - 1
    while i >= 0 and budget > 0:
        cand = ops[:i] + ops[i + 1:]
        budget -= 1
        c = dict(best)
        c["ops"] = cand
        if fails_with(c):
            ops = cand
            best = c
        i -= 1
    return best


def _hist_nontrivial(st: Dict[str, int]) -> bool:
    return st.get("adds", 0) >= 2 and (st.get("removes", 0) >= 1 or st.get("finds_must_nonempty", 0) >= 1)


_COUNTED = (
    "adds", "extends", "removes", "readds", "finds_checked", "find_must_objects", "find_dontcare_objects",
    "finds_must_nonempty", "finds_empty", "dontcare_returned", "dontcare_not_returned", "iter_checked", "len_checked",
    "contains_checked", "readd_iterated_at_latest_position", "readds_via_extend", "extends_with_removed",
    "extends_mixing_new_and_removed", "extend_size_0", "extend_size_1", "extend_size_2",
)


def _run_hist_shard(spec: Dict[str, Any], rec) -> None:
    readd = spec["kind"] == "readd"
    rng = random.Random("C20/%d/%d" % (spec["seed"], spec["sub"]))
    for _ in range(spec["n"]):
        case, meta = gen_history(rng, readd, spec["tier"])
        st: Dict[str, int] = {}
        fails = run_history(case, st)   # Invalid cannot happen for generated histories
        rec.case(chash(case), _hist_nontrivial(st))
        rec.count("hist_cases")
        if readd:
            rec.count("readd_histories")
        rec.count("hist_len_bucket_%03d" % next(b for b in (8, 30, 60, 120, 200) if len(case["ops"]) <= b))
        rec.see("gridsizes", case["g"])
        rec.see("origin_kinds", meta["origin"][0])
        rec.see("origin_kinds", meta["origin"][1])
        rec.see("object_kinds", case["okind"])
        for s in meta["styles"]:
            rec.see("interval_styles", s)
        for s in meta["qstyles"]:
            rec.see("query_styles", s)
        for k in _COUNTED:
            if st.get(k):
                rec.count(k, st[k])
        for k, d in fails:
            small = case
            if rec.fail_counts.get(k, 0) < rec.MAX_FAILS_PER_KEY:
                small = shrink(case, k)
                d2 = [x for kk, x in run_history(small) if kk == k]
                d = d2[0] if d2 else d
            rec.fail(k, small, d)
        if rec.want_sample() and not fails and 8 <= len(case["ops"]) <= 15 and _hist_nontrivial(st):
            rec.sample({"history": case, "observed": {k: st[k] for k in sorted(st)}})


# --------------------------------------------------------------------------
# per-axis lattice enumeration (deterministic)
# --------------------------------------------------------------------------
EXH_ORIGINS = ("zero", "pos", "neg", "straddle", "straddle_frac", "unit_frac", "pos_frac")


def exh_bounds(g: int, origin: str) -> Tuple[float, float]:
    if origin == "zero":
        return (0, 3 * g)
    if origin == "pos":
        return (g + 3, 4 * g + 3)
    if origin == "neg":
        return (-4 * g, -g)
    if origin == "straddle":
        return (-2 * g, 3 * g)
    if origin == "straddle_frac":
        return (-2 * g - 0.5, 2 * g + 0.25)
    if origin == "unit_frac":       # lower bound inside (-1, 0)
        return (-0.5, 2 * g + 0.5)
    return (0.5, 3 * g + 0.75)


def exh_lattice(b0: float, b1: float, g: int, tier: str) -> List[float]:
    vals = {b0 - 0.25, b0, b0 + 0.25, b1 - 0.25, b1, b1 + 0.25, b0 - g - 0.5, b1 + g + 0.5}
    c = math.floor(b0 / g) * g + g      # first cell border strictly above b0
    if c < b1:
        vals |= {c - 0.25, c, c + 0.25}
    for z in (-0.75, -0.25, 0.0):
        if b0 - 1 <= z <= b1 + 1:
            vals.add(z)
    if tier != "quick":
        vals |= {c + g, c + g + 0.5, (b0 + b1) / 2.0}
        for z in (-1.0, 0.25, 1.0):
            if b0 - 1 <= z <= b1 + 1:
                vals.add(z)
    return sorted(float(v) for v in vals)


def _run_exh_shard(spec: Dict[str, Any], rec) -> None:
    g = GRIDSIZES[spec["g"]]
    origin = EXH_ORIGINS[spec["origin"]]
    b0, b1 = exh_bounds(g, origin)
    lat = exh_lattice(b0, b1, g, spec["tier"])
    ivs = [(a, b) for i, a in enumerate(lat) for b in lat[i:]]
    bounds: Box = (b0, b0, b1, b1)
    rec.see("gridsizes", g)
    rec.see("exh_origins", origin)
    rec.see("exh_lattice_%d_%s" % (g, origin), ",".join("%g" % v for v in lat))
    for axis in (0, 1):
        for oi in ivs:
            obox: Box = (oi[0], b0, oi[1], b1) if axis == 0 else (b0, oi[0], b1, oi[1])
            for qi in ivs:
                qbox: Box = (qi[0], b0, qi[1], b1) if axis == 0 else (b0, qi[0], b1, qi[1])
                case = {"kind": "hist", "g": g, "bbox": bounds, "okind": "plain",
                        "ops": [["add", 0, obox], ["find", qbox], ["remove", 0], ["find", qbox]]}
                st: Dict[str, int] = {}
                fails = run_history(case, st)
                inb = must(obox, bounds, bounds) and must(qbox, bounds, bounds)
                rec.case(chash("exh", g, origin, axis, oi, qi), inb)
                rec.count("exh_pairs")
                if must(obox, qbox, bounds):
                    rec.count("exh_must")
                elif may(obox, qbox):
                    rec.count("exh_dontcare")
                else:
                    rec.count("exh_disjoint")
                for k in ("finds_checked", "dontcare_returned", "dontcare_not_returned"):
                    if st.get(k):
                        rec.count("exh_" + k, st[k])
                for k, d in fails:
                    small = case
                    if rec.fail_counts.get(k, 0) < rec.MAX_FAILS_PER_KEY:
                        small = shrink(case, k)
                    rec.fail(k, small, d)


# ==========================================================================
def run_shard(spec: Dict[str, Any], rec) -> None:
    kind = spec["kind"]
    if kind == "mat":
        _run_mat_shard(spec, rec)
    elif kind == "exh":
        _run_exh_shard(spec, rec)
    else:
        _run_hist_shard(spec, rec)


def replay(case: Dict[str, Any]) -> List[Tuple[str, str]]:
    if case.get("kind") == "mat":
        return check_matrix_case(case)[0]
    try:
        return run_history(case)
    except Invalid as e:
        return [("invalid_replay_case", str(e))]
