"""C18 — images: exported files and inline image data reproduce the samples exactly.

Workload.  Documents written by vf.gen.pdfw whose pages draw image XObjects
(`q w 0 0 h x y cm /Name Do Q`) and inline images (`BI .. ID <data> EI`):
DeviceGray 8-bit, DeviceRGB 8-bit and 1-bit DeviceGray samples, widths 1..67,
heights 1..40, random / structured / constant samples, stored unfiltered, behind
lossless chains (own reference encoders, vf/ref/c18enc.py) or as an opaque
DCT byte string (also behind a lossless filter).  Several images per document
under equal and distinct resource names on several pages, with files already
present in the output directory under the names the images would get.

Observation.  (1) `extract_text_to_fp(..., output_dir=tmp)` for the text, xml and
html converters; a transparent wrapper on ImageWriter.export_image records the
image name, the returned file name and the directory difference per call.
(2) `extract_pages` -> LTImage.stream.get_data()/srcsize/bits/colorspace/bbox and
the LTChar items of the text operators that follow an inline image.

Oracle.  *.bmp -> strict reader vf/ref/bmp.py, decoded pixels == the colours of
the stored samples (ISO 32000-1 8.9.3/8.9.5.2 with the default Decode array);
*.jpg == stored DCT data byte for byte; one new file per exported image whose
name is the returned name and starts with the image name; no other file in the
directory changes.  Inline: the data seen by LTImage equal the bytes written
between `ID<ws>` and `<sep>EI`; the glyphs after the image have exactly the
predicted text matrices and are identical (text, matrix, bbox, font, size, adv)
to those of the same document without the inline images.
"""
from __future__ import annotations

import io
import os
import random
import re
import shutil
import tempfile
from typing import Any, Dict, List, Optional, Tuple

from vf.common import chash, short
from vf.gen.pdfw import Doc, N, Name, Raw, Ref, Stream, font_widths, page_doc, ser_name
from vf.ref import bmp as refbmp
from vf.ref import c18enc as enc
from vf.ref import filters as reffilters  # png_encode / tiff2_encode (written from the PNG and TIFF specifications)

ID = "C18"
LEVEL = "exploration"
DESIGN_REF = "DESIGN.md#C18"
TECHNIQUE = "generated documents, strict BMP reader, byte equality, differential run without the inline images"
RULE = (
    "image = (kind in gray8/rgb8/gray1/dct) x width 1..67 x height 1..40 x sample pattern (random, structured with all "
    "rows distinct, constant, marker-biased) x filter chain (none, every single lossless filter, pairs of them, DCT "
    "alone or behind one lossless filter) x predictor on a final Flate/LZW filter (none, TIFF 2 for 8-bit samples, PNG "
    "10-15 with every row filter type 0-4 uniformly or mixed per row, DecodeParms as dictionary or array with nulls) "
    "x container (image XObject with ColorSpace as name or one-element array, "
    "Filter as name or array, Width/Height/BitsPerComponent/ColorSpace direct or as indirect references; inline image "
    "with abbreviated/full/mixed keys and names, optionally followed by an image XObject; page /Contents a single "
    "stream or an array of 2-4 streams split between operators with the inline image in a later stream after 0-9000 "
    "bytes of earlier streams). A 'names' family exports images whose resource names differ only in / \\ : vs _ "
    "(both orders, same or different pages, with pre-existing files). Sweep shards enumerate every "
    "width 1..67 for each kind deterministically (seed independent), random shards draw the rest. XObject documents: "
    "1-3 pages, 1-4 draws per page from a pool of 1-5 images under names that collide across pages, optional "
    "pre-existing files named like the exports. Inline documents: 1-3 inline images interleaved with text operators, "
    "ID followed by one white-space byte (any of the six), data followed by LF/CRLF/CR/space or, when they do not end in CR/LF and are not ASCII85-terminated, by nothing "
    "(a good share of those end in odd and even runs of 'E'), and EI followed by "
    "space/LF/CR/CRLF/TAB/FF/NUL or the end of the stream; an enumeration shard family crosses 18 data tails (E, EE, "
    "EOLs, EIx, ~>, NUL ...) x 4 separators x 8 bytes after EI x lengths around 4096/8192; data ending in CR in front "
    "of the separator LF are a tagged sub-family (known finding); a single filter is spelled as a bare name or a "
    "one-element array with abbreviated or full names; with ASCII85 as the only filter (key /F or /Filter) the text "
    "contains 'EI' directly followed by white space (planted groups, blanks or line ends after them) because there "
    "the data end at '~>'; everywhere else data (and encoded data) never contain 'EI' followed by white space, VT, a delimiter "
    "or the end of the data, so the end is unambiguous for every reader; unfiltered data have exactly the length the "
    "image parameters imply; data sizes straddle the 4096-byte parser buffer. One evaluation = one drawn image (export + "
    "LTImage) or one text comparison; distinct = distinct (kind,w,h,samples,chain,container); non-trivial = at least "
    "two samples (or DCT data)."
)
LEVEL_TEXT = (
    "Runtime monitoring over generated documents: every image the generator can express within the formats the "
    "exporter documents (BMP for 1-bit and 8-bit gray and 24-bit RGB, JPEG for DCT) is compared sample for sample; "
    "no claim for colour spaces, bit depths or filters that are exported as raw dumps or need Pillow."
)
ASSUMPTIONS = [
    "vf/ref/bmp.py implements the BITMAPFILEHEADER/BITMAPINFOHEADER rules a standard reader relies on (it is stricter: any inconsistency is reported)",
    "the reference encoders of vf/ref/c18enc.py are correct (each is round-tripped against its own reference decoder at the start of every shard); zlib, base64.a85encode and binascii are trusted",
    "a DCT stream is opaque to the exporter for DeviceGray/DeviceRGB, so a random byte string between FFD8 and FFD9 stands for any JPEG",
    "the wrapper around ImageWriter.export_image only records (it calls the original and re-raises)",
    "text positions: the font has /Widths all 500, size 10, integer operands: all products are exact in binary floating point",
]
SHARD_TIMEOUT = {"quick": 600, "thorough": 3600}

KINDS = ("gray8", "rgb8", "gray1")
PDF_WS = b"\x00\t\n\x0c\r "
# 'EI' that some reader could take for the operator: followed by PDF white space, VT (python isspace),
# a delimiter, or nothing
MARK = re.compile(rb"EI(?=[\x00\t\n\x0b\x0c\r ()<>\[\]{}/%]|\Z)")
TAG_CR_LF = "inline_data_final_cr_before_lf_separator"


def minimums(tier: str) -> Dict[str, int]:
    # roughly half of what an intact tree yields (the deterministic shards alone give a third of it)
    q = {
        "evaluations": 35000, "distinct": 25000,
        "bmp_files_decoded": 25000, "bmp_gray1": 6000, "bmp_gray8": 8000, "bmp_rgb8": 6000,
        "bmp_wmod4_1": 5000, "bmp_wmod4_2": 5000, "bmp_wmod4_3": 5000,
        "jpg_files_compared": 3500, "ltimage_data_compared": 30000, "xobj_unfiltered": 4000,
        "xobj_form_indirect_colorspace": 1500, "xobj_form_after_inline": 1200,
        "inline_images": 8000, "inline_keystyle_full": 1500, "inline_text_docs": 4500,
        "glyphs_after_inline_compared": 25000, "inline_data_over_4096": 400,
        "inline_data_containing_EI_not_followed_by_ws": 900, "inline_tail_EOL": 400, "inline_tail_E": 300,
        "preexisting_files_checked": 5000, "name_collisions_resolved": 8000, "output_src_checked": 12000,
        "docs_tagged": 40,
        "inline_a85_text_with_EI_ws_key_Filter": 200, "inline_a85_text_with_EI_ws_key_F": 300,
        "inline_no_separator": 1200, "inline_no_separator_E_run_odd": 250, "inline_no_separator_E_run_even": 120,
        "inline_no_separator_filtered": 300,
        "inline_a85_text_with_EI_ws": 600, "inline_a85_text_with_EI_ws_bare": 250, "inline_a85_text_with_EI_ws_array1": 150,
        "inline_single_filter_bare_abbr": 800, "inline_single_filter_bare_full": 400,
        "inline_single_filter_array1_abbr": 600, "inline_single_filter_array1_full": 300,
        "inline_in_later_content_stream": 2500, "inline_after_more_than_4096_bytes_of_earlier_streams": 400,
        "name_collisions_after_sanitising": 500, "docs_names": 250,
        "predictor_png_xobj": 1500, "predictor_tiff2_xobj": 300, "predictor_png_inline": 150, "predictor_tiff2_inline": 40,
        "predictor_png_left_neighbour_rows_colors_ne_columns": 800,
    }
    m = q if tier == "quick" else {k: v * 8 for k, v in q.items()}
    m.update({
        "seen:xobj_widths": 67, "seen:xobj_heights": 40, "seen:bmp_kind_wmod": 3 * 8, "seen:chains": 60,
        "seen:inline_after_EI": 8, "seen:inline_sep": 5, "seen:inline_id_ws": 6, "seen:inline_keystyle": 3,
        "seen:output_types": 3, "seen:inline_tail": 20, "seen:png_row_filters": 15, "seen:predictor_kinds": 5, "seen:inline_stream_index": 3,
    })
    return m


def shards(tier: str, seed: int) -> List[Dict[str, Any]]:
    out: List[Dict[str, Any]] = []
    q = tier == "quick"
    # deterministic sweeps: every width for every kind (XObjects), chains rotate
    nsw = 4 if q else 8
    for ki in range(3):
        for part in range(nsw):
            out.append({"fam": "sweep", "kind": ki, "part": part, "parts": nsw, "reps": 4 if q else 24})
    # deterministic inline enumeration: tails x separators x after-EI x buffer offsets
    nin = 12 if q else 24
    for part in range(nin):
        out.append({"fam": "inline_enum", "part": part, "parts": nin, "deep": not q})
    for k in range(16 if q else 64):
        out.append({"fam": "xobj", "sub": k, "n": 330 if q else 1700})
    for k in range(16 if q else 64):
        out.append({"fam": "inline", "sub": 100 + k, "n": 330 if q else 1700})
    out.append({"fam": "tagged", "sub": 900, "n": 40 if q else 400})
    for k in range(2 if q else 8):
        out.append({"fam": "names", "sub": 950 + k, "n": 150 if q else 600})
    # interleave the families (the evidence samples come from the first shards; similar load at any time)
    fams: Dict[str, List[Dict[str, Any]]] = {}
    for s in out:
        fams.setdefault(s["fam"], []).append(s)
    mixed: List[Dict[str, Any]] = []
    while any(fams.values()):
        for f in list(fams):
            if fams[f]:
                mixed.append(fams[f].pop(0))
    return mixed


# --------------------------------------------------------------------------
# image model (ISO 32000-1 8.9.3 sample representation, 8.9.5.2 default Decode)
# --------------------------------------------------------------------------
def row_bytes(kind: str, w: int) -> int:
    return {"gray8": w, "rgb8": 3 * w, "gray1": (w + 7) // 8}[kind]


def pixels(kind: str, w: int, h: int, samples: bytes) -> List[List[Tuple[int, int, int]]]:
    """Colours of the stored samples: rows top to bottom, each row starts on a byte boundary,
    samples most significant bit first; gray g -> (g,g,g); 1-bit 0 -> black, 1 -> white."""
    rb = row_bytes(kind, w)
    rows = []
    for y in range(h):
        r = samples[y * rb:(y + 1) * rb]
        if kind == "gray8":
            rows.append([(v, v, v) for v in r])
        elif kind == "rgb8":
            rows.append([(r[3 * x], r[3 * x + 1], r[3 * x + 2]) for x in range(w)])
        else:
            row = []
            for x in range(w):
                bit = (r[x >> 3] >> (7 - (x & 7))) & 1
                row.append((255, 255, 255) if bit else (0, 0, 0))
            rows.append(row)
    return rows


MARKER_BYTES = b"EEEIII \n\r\t\x00\x0c~>xJ\xff"


def make_samples(kind: str, w: int, h: int, pattern: str, rng: random.Random) -> bytes:
    rb = row_bytes(kind, w)
    n = rb * h
    if pattern == "random":
        return rng.randbytes(n)
    if pattern == "markers":
        return bytes(rng.choice(MARKER_BYTES) for _ in range(n))
    if pattern == "const0":
        return bytes(n)
    if pattern == "const1":
        return b"\xff" * n
    # structured: every row distinct, no symmetry, the three channels differ
    o = rng.randrange(256)
    out = bytearray()
    for y in range(h):
        if kind == "gray8":
            out += bytes((o + y * 37 + x * 11 + (x * x) % 7) % 256 for x in range(w))
        elif kind == "rgb8":
            for x in range(w):
                out += bytes(((o + x * 5 + y * 3) % 256, (o + 85 + x * 7 + y * 11) % 256, (o + 170 + x * 13 + y * 17) % 256))
        else:
            row = bytearray(rb)
            for x in range(rb * 8):  # pad bits are set too: they must not matter
                if ((x * 3 + y * 5 + (x * y) % 3 + o) % 7) < 3:
                    row[x >> 3] |= 0x80 >> (x & 7)
            out += row
    return bytes(out)


def make_dct(rng: random.Random) -> bytes:
    n = rng.choice([0, 1, 5, 30, 200, 700])
    return b"\xff\xd8\xff\xe0" + rng.randbytes(n) + b"\xff\xd9"


def unmark(data: bytes) -> bytes:
    """Remove every possible end marker from unfiltered data (the 'I' becomes 'J')."""
    b = bytearray(data)
    while True:
        m = MARK.search(b)
        if not m:
            return bytes(b)
        b[m.start() + 1] = 0x4A


CS_FULL = {"gray8": "DeviceGray", "gray1": "DeviceGray", "rgb8": "DeviceRGB"}
CS_ABBR = {"gray8": "G", "gray1": "G", "rgb8": "RGB"}


def pick_chain(rng: random.Random, dct: bool) -> List[str]:
    r = rng.random()
    if dct:
        if r < 0.5:
            return ["DCT"]
        return [rng.choice(enc.LOSSLESS), "DCT"]
    if r < 0.25:
        return []
    if r < 0.75:
        return [rng.choice(enc.LOSSLESS)]
    return [rng.choice(enc.LOSSLESS), rng.choice(enc.LOSSLESS)]


def pick_predictor(rng: random.Random, kind: str, h: int, chain: List[str], p_use: float = 0.45) -> Optional[Dict[str, Any]]:
    """A predictor (ISO 32000-1 7.4.4.4) for the filter that yields the samples: only Flate and LZW take one.
    PNG: /Predictor 10..15 (the value is only a hint, every row carries its own filter-type byte 0..4);
    TIFF predictor 2 for 8-bit components."""
    if kind == "dct" or not chain or chain[-1] not in ("Fl", "LZW") or rng.random() >= p_use:
        return None
    if kind != "gray1" and rng.random() < 0.25:
        return {"p": 2, "ftypes": []}
    mode = rng.randrange(7)
    if mode < 5:
        ft = [mode] * h                      # the same row filter everywhere (also on the first row)
    else:
        ft = [rng.randrange(5) for _ in range(h)]
    return {"p": rng.randint(10, 15), "ftypes": ft}


def predicted(img: Dict[str, Any]) -> bytes:
    """The bytes that go into the filter chain: the samples, through the predictor if there is one."""
    pr = img.get("pred")
    if not pr:
        return img["data"]
    colors = 3 if img["kind"] == "rgb8" else 1
    bpc = 1 if img["kind"] == "gray1" else 8
    if pr["p"] == 2:
        return reffilters.tiff2_encode(img["data"], colors, img["w"], 8)
    return reffilters.png_encode(img["data"], colors, img["w"], bpc, pr["ftypes"])


def predictor_parms(img: Dict[str, Any]) -> Dict[str, Any]:
    pr = img["pred"]
    d: Dict[str, Any] = {"Predictor": pr["p"], "Columns": img["w"]}
    if img["kind"] == "rgb8":
        d["Colors"] = 3
    if img["kind"] == "gray1":
        d["BitsPerComponent"] = 1
    return d


# --------------------------------------------------------------------------
# XObject documents
# --------------------------------------------------------------------------
NAMES = ["Im0", "Im1", "Im2", "X", "img"]
# pairs of legal resource names that an exporter which replaces path characters maps to one file name
NAME_PAIRS = [("Im_1", "Im:1"), ("a_b", "a/b"), ("a_b", "a\\b"), ("a:b", "a/b"), ("x/y", "x\\y"), ("p_q_r", "p/q:r"),
              ("Im:1", "Im/1")]


def xobj_stream(img: Dict[str, Any], rng: random.Random, doc: Doc) -> Stream:
    """The image dictionary; every value may also be an indirect reference (ISO 32000-1 7.3.10)."""
    chain = img["chain"]
    kind = img["kind"]
    forms: List[str] = []

    def val(v: Any, what: str, p: float) -> Any:
        if rng.random() < p:
            forms.append("indirect_" + what)
            return doc.add(v)
        return v

    d: Dict[str, Any] = {"Type": N("XObject"), "Subtype": N("Image"),
                         "Width": val(img["w"], "size", 0.05), "Height": val(img["h"], "size", 0.05)}
    csname = CS_FULL[img.get("cskind", kind)]
    if rng.random() < 0.7:
        cs: Any = N(csname)
    else:
        cs = [N(csname)]
        forms.append("cs_array")
    d["ColorSpace"] = val(cs, "colorspace", 0.12)
    d["BitsPerComponent"] = val(1 if kind == "gray1" else 8, "bpc", 0.05)
    if chain:
        names = [N(enc.FILTER_NAMES[c]) for c in chain]
        if len(names) == 1 and rng.random() < 0.6:
            d["Filter"] = names[0]
        else:
            d["Filter"] = names
            forms.append("filter_array")
    if img.get("pred"):
        parms = predictor_parms(img)
        if len(chain) == 1 and rng.random() < 0.6:
            d["DecodeParms"] = val(parms, "decodeparms", 0.1)
        else:
            d["DecodeParms"] = [None] * (len(chain) - 1) + [val(parms, "decodeparms", 0.1)]
        if isinstance(d["Filter"], Name) and isinstance(d["DecodeParms"], list):
            d["Filter"] = [d["Filter"]]
        forms.append("predictor_tiff2" if img["pred"]["p"] == 2 else "predictor_png")
    if rng.random() < 0.2:
        d["Interpolate"] = False
    img["forms"] = forms
    return Stream(d, enc.encode_chain(chain, predicted(img), rng))


def gen_image(rng: random.Random, kind: Optional[str] = None, w: Optional[int] = None, h: Optional[int] = None,
              chain: Optional[List[str]] = None, pattern: Optional[str] = None) -> Dict[str, Any]:
    if kind is None:
        kind = rng.choice(["gray8", "rgb8", "gray1", "gray8", "rgb8", "gray1", "dct"])
    if w is None:
        w = rng.randint(1, 67)
    if h is None:
        h = rng.randint(1, 40)
    if kind == "dct":
        cskind = rng.choice(["gray8", "rgb8"])
        return {"kind": "dct", "cskind": cskind, "w": w, "h": h, "data": make_dct(rng),
                "chain": chain if chain is not None else pick_chain(rng, True), "pattern": "dct"}
    if pattern is None:
        pattern = rng.choice(["random", "random", "struct", "struct", "const0", "const1"])
    ch = chain if chain is not None else pick_chain(rng, False)
    return {"kind": kind, "w": w, "h": h, "data": make_samples(kind, w, h, pattern, rng),
            "chain": ch, "pattern": pattern, "pred": pick_predictor(rng, kind, h, ch)}


def build_xobj_case(rng: random.Random, images: List[Dict[str, Any]], npages: int, fam: str = "xobj",
                    pool: Optional[List[str]] = None) -> Dict[str, Any]:
    doc = Doc()
    refs = [doc.add(xobj_stream(im, rng, doc)) for im in images]
    pages = []
    draws: List[Dict[str, Any]] = []
    # names -> image index, re-drawn per page so that names collide across pages
    cover = list(range(len(images)))
    for p in range(npages):
        nd = rng.randint(1, 4)
        if p == npages - 1:
            nd = max(nd, len(cover))
        nd = min(nd, len(pool or NAMES) + 2)
        names: Dict[str, int] = {}
        ops = []
        used_boxes = set()
        for k in range(nd):
            if cover:
                idx = cover.pop(0)
            else:
                idx = rng.randrange(len(images))
            # a name already used on this page keeps its image (a resource name means one object)
            cand = [n for n in (pool or NAMES) if n not in names or names[n] == idx]
            name = (rng.choice(cand[:3]) if pool is None else cand[0]) if cand else None
            if name is None:
                continue
            names[name] = idx
            while True:
                dw, dh = rng.randint(1, 200), rng.randint(1, 200)
                x, y = rng.randint(0, 400), rng.randint(0, 590)
                if (x, y, dw, dh) not in used_boxes:
                    used_boxes.add((x, y, dw, dh))
                    break
            ops.append(b"q %d 0 0 %d %d %d cm %s Do Q" % (dw, dh, x, y, ser_name(name.encode("latin-1"))))
            im = images[idx]
            draws.append({"page": p, "name": name, "kind": im["kind"], "cskind": im.get("cskind", im["kind"]),
                          "w": im["w"], "h": im["h"], "data": im["data"], "bbox": [x, y, x + dw, y + dh],
                          "chain": im["chain"], "inline": False, "sep": b"", "forms": im.get("forms", []),
                          "pred": im.get("pred")})
        res = {"XObject": {n: refs[i] for n, i in names.items()}}
        pages.append({"content": b"\n".join(ops) + b"\n", "resources": res})
    d = page_doc(pages, doc=doc)
    pdf = d.build(xref="stream" if rng.random() < 0.15 else "table")
    # files already present under names the exports would get
    pre: Dict[str, bytes] = {}
    if rng.random() < 0.45:
        for dr in draws:
            ext = ".jpg" if dr["kind"] == "dct" else ".bmp"
            r = rng.random()
            disk = re.sub(r"[/\\:]", "_", dr["name"])  # a name that is a legal file name on every system
            if r < 0.5:
                pre[disk + ext] = b"pre-existing " + rng.randbytes(8)
            if r < 0.25:
                pre[disk + ".0" + ext] = b"pre-existing too " + rng.randbytes(8)
    otype = rng.choice(["text", "text", "xml", "html"])
    return {"fam": fam, "pdf": pdf, "plain": None, "draws": draws, "chars": [], "pre": pre, "otype": otype,
            "lap": rng.random() < 0.5, "export": True, "tag": None}


# --------------------------------------------------------------------------
# inline image documents
# --------------------------------------------------------------------------
KEYS = {"W": "Width", "H": "Height", "CS": "ColorSpace", "BPC": "BitsPerComponent", "F": "Filter",
        "I": "Interpolate", "D": "Decode", "IM": "ImageMask", "DP": "DecodeParms"}


def inline_dict(rng: random.Random, kind: str, cskind: str, w: int, h: int, chain: List[str], keystyle: str,
                parms: Optional[Dict[str, Any]] = None, info: Optional[Dict[str, Any]] = None,
                force_f_key: bool = False) -> bytes:
    """The key/value pairs between BI and ID.  `info` receives how the filter was spelled: key F or Filter,
    a single filter as a bare name or as a one-element array, names abbreviated or in full."""
    def key(k: str) -> bytes:
        full = keystyle == "full" or (keystyle == "mixed" and rng.random() < 0.5)
        return b"/" + (KEYS[k] if full else k).encode()

    def name(abbr: str, fullname: str) -> bytes:
        full = keystyle == "full" or (keystyle == "mixed" and rng.random() < 0.5)
        return b"/" + (fullname if full else abbr).encode()

    items = [
        key("W") + b" %d" % w,
        key("H") + b" %d" % h,
        key("CS") + b" " + name(CS_ABBR[cskind], CS_FULL[cskind]),
        key("BPC") + b" %d" % (1 if kind == "gray1" else 8),
    ]
    if chain:
        fn = [name(c, enc.FILTER_NAMES[c]) for c in chain]
        fk = b"/F" if force_f_key else key("F")
        bare = len(fn) == 1 and rng.random() < 0.55
        if bare:
            items.append(fk + b" " + fn[0])
        else:
            items.append(fk + b" [" + b" ".join(fn) + b"]")
        if info is not None:
            info["fkey"] = fk[1:].decode()
            info["fform"] = ("bare" if bare else "array1" if len(fn) == 1 else "array") + (
                ":full" if fn[0][1:].decode() == enc.FILTER_NAMES[chain[0]] else ":abbr")
        if parms:
            # the parameter dictionary of the (single) filter; its own keys have no abbreviations
            pd = b"<< " + b" ".join(b"/%s %d" % (k.encode(), v) for k, v in parms.items()) + b" >>"
            items.append(key("DP") + b" " + (pd if items[-1].startswith(fk + b" /") else b"[" + pd + b"]"))
    r = rng.random()
    if r < 0.15:
        items.append(key("I") + b" false")
    elif r < 0.3 and kind != "dct":
        items.append(key("D") + (b" [0 1 0 1 0 1]" if cskind == "rgb8" else b" [0 1]"))
    elif r < 0.4:
        items.append(key("IM") + b" false")
    if rng.random() < 0.5:
        rng.shuffle(items)
    sepc = rng.choice([b" ", b" ", b"\n"])
    return sepc.join(items)


def inline_raw(rng: random.Random, img: Dict[str, Any], sep: bytes) -> Optional[bytes]:
    """The bytes between `ID<ws>` and `<sep>EI`, or None when this encoding would contain an end marker."""
    raw = enc.encode_chain(img["chain"], predicted(img), rng)
    if MARK.search(raw + sep[:1]) or MARK.search(raw):
        return None
    return raw


A85_CHARS = bytes(range(33, 118))


def a85_text_with_EI_ws(rng: random.Random, data: bytes) -> Tuple[bytes, bytes]:
    """-> (data', text): data' is `data` with one to three 4-byte groups replaced so that their ASCII85 form
    starts with 'EI'; text is the ASCII85 encoding of data' (EOD '~>' included) with white space inserted directly
    behind 'EI' (a blank, or a line break so that a line ends in EI) and, sometimes, line wrapping elsewhere.
    White space is ignored anywhere in ASCII85 data (7.4.3) and the data end at the EOD marker, so the text is
    conformant although it contains 'EI' followed by white space."""
    import base64

    b = bytearray(data)
    assert len(b) >= 4
    for _ in range(rng.randint(1, 3)):
        o = 4 * rng.randrange(len(b) // 4)
        grp = b"EI" + bytes(rng.choice(A85_CHARS) for _ in range(3))
        b[o:o + 4] = base64.a85decode(b"<~" + grp + b"~>", adobe=True)
    text = base64.a85encode(bytes(b), adobe=True)[2:-2]
    out = bytearray()
    i = 0
    n_ei = 0
    col = 0
    wrap = rng.choice([0, 0, 40, 64])
    while i < len(text):
        if text[i:i + 2] == b"EI" and (n_ei == 0 or rng.random() < 0.7):
            out += b"EI" + rng.choice([b" ", b"\n", b"\r\n", b"\t", b"\r", b" \n"])
            n_ei += 1
            i += 2
            col = 0
            continue
        out.append(text[i])
        i += 1
        col += 1
        if wrap and col >= wrap:
            out += b"\n"
            col = 0
    assert n_ei >= 1
    return bytes(b), bytes(out) + b"~>"


AFTER_EI = [b" ", b"\n", b"\r", b"\r\n", b"\t", b"\x0c", b"\x00", b""]  # b"" = end of the content stream
SEPS = [b"\n", b"\r\n", b"\r", b" "]
NO_SEP = b""  # EI directly behind the data (legal for binary data, ISO 32000-1 8.9.7); never behind data ending in CR/LF


def e_run(data: bytes) -> int:
    return len(data) - len(data.rstrip(b"E"))
ID_WS = [b" ", b"\n", b"\r", b"\t", b"\x0c", b"\x00"]


def text_op(x: int, y: int, s: bytes) -> bytes:
    return b"BT /F1 10 Tf 1 0 0 1 %d %d Tm (%s) Tj ET" % (x, y, s)


def expected_chars(page: int, x: int, y: int, s: bytes, ctm: Tuple[int, int, int]) -> List[Dict[str, Any]]:
    """Glyph k of a string shown at Tm = [1 0 0 1 x y] with a 500/1000 wide font at size 10 under
    CTM [sc 0 0 sc tx ty]: text-space origin (x + 5k, y) -> matrix [sc 0 0 sc sc*(x+5k)+tx sc*y+ty]."""
    sc, tx, ty = ctm
    out = []
    for k, c in enumerate(s):
        out.append({"page": page, "text": chr(c),
                    "m": [float(sc), 0.0, 0.0, float(sc), float(sc * (x + 5 * k) + tx), float(sc * y + ty)]})
    return out


ALNUM = b"ABCDEFGHIJKLMNOPQRSTUVWXYZabcdefghijklmnopqrstuvwxyz0123456789"


PAD_OPS = [b"0.5 g", b"q Q", b"1 0 0 1 0 0 cm", b"0 0 m 3 4 l S", b"% a comment", b"1 w"]


def build_inline_case(rng: random.Random, items: List[Dict[str, Any]], fam: str = "inline", tag: Optional[str] = None,
                      export: bool = True, nstreams: int = 1, pad: int = 0) -> Dict[str, Any]:
    """items: [{"img":..., "keystyle", "id_ws", "sep", "after", "wrap": "q"|"qtext"|"bare"}] drawn on one page in order,
    each followed by a text operator (an item with after == b"" must be last and is preceded by its text)."""
    ops: List[bytes] = []      # with images
    plain: List[bytes] = []    # the same content without them
    draws: List[Dict[str, Any]] = []
    chars: List[Dict[str, Any]] = []
    xobjs: List[Tuple[str, Dict[str, Any]]] = []
    boxes: set = set()
    y = 760
    for i, it in enumerate(items):
        img = it["img"]
        cskind = img.get("cskind", img["kind"])
        finfo: Dict[str, Any] = {}
        d = inline_dict(rng, img["kind"], cskind, img["w"], img["h"], img["chain"], it["keystyle"],
                        predictor_parms(img) if img.get("pred") else None, finfo)
        if it["id_ws"] == b"\r" and it["raw"][:1] == b"\n":
            it["id_ws"] = b" "  # 'ID CR LF' could be read as ID followed by one end-of-line marker
        body = b"BI " + d + (b" " if rng.random() < 0.7 else b"\n") + b"ID" + it["id_ws"] + it["raw"] + it["sep"] + b"EI" + it["after"]
        # every image of the document gets its own place (LTImages are matched to draws by bounding box)
        dw, dh = rng.randint(1, 150), rng.randint(1, 150)
        x0, y0 = rng.randint(0, 100) + 110 * i, rng.randint(0, 500)
        s = bytes(rng.choice(ALNUM) for _ in range(rng.randint(1, 6)))
        tx, y = rng.randint(10, 300), y - 20
        wrap = it["wrap"]
        last_eof = it["after"] == b""
        if last_eof:
            # text first, then the image as the very last token of the stream
            t = text_op(tx, y, s)
            ops += [t, b"%d 0 0 %d %d %d cm" % (dw, dh, x0, y0), body]
            plain += [t, b"%d 0 0 %d %d %d cm" % (dw, dh, x0, y0)]
            chars += expected_chars(0, tx, y, s, (1, 0, 0))
            bbox = [x0, y0, x0 + dw, y0 + dh]
        elif wrap == "qtext":
            # the text is shown inside the q..Q that scales the image: CTM [sc 0 0 sc ex ey]
            sc = rng.choice([1, 2, 4])
            ex, ey = rng.randint(0, 40) + 50 * i, rng.randint(0, 40) + 600
            t = text_op(tx // 4, y // 4, s)
            pre = b"q %d 0 0 %d %d %d cm" % (sc, sc, ex, ey)
            ops += [pre, body, t, b"Q"]
            plain += [pre, t, b"Q"]
            chars += expected_chars(0, tx // 4, y // 4, s, (sc, ex, ey))
            bbox = [ex, ey, ex + sc, ey + sc]
        else:
            t = text_op(tx, y, s)
            pre = b"q %d 0 0 %d %d %d cm" % (dw, dh, x0, y0)
            ops += [pre, body, b"Q", t]
            plain += [pre, b"Q", t]
            chars += expected_chars(0, tx, y, s, (1, 0, 0))
            bbox = [x0, y0, x0 + dw, y0 + dh]
        assert tuple(bbox) not in boxes
        boxes.add(tuple(bbox))
        draws.append({"page": 0, "name": None, "kind": img["kind"], "cskind": cskind, "w": img["w"], "h": img["h"],
                      "data": img["data"], "bbox": bbox, "chain": img["chain"], "inline": True, "sep": it["sep"],
                      "rawlen": len(it["raw"]), "pred": img.get("pred"),
                      "feat": {"keystyle": it["keystyle"], "id_ws": it["id_ws"], "after": it["after"], "wrap": wrap,
                               "fkey": finfo.get("fkey"), "fform": finfo.get("fform"), "a85_ei": bool(it.get("a85_ei"))}})
        if tag is None and not last_eof and rng.random() < 0.25:
            # an image XObject painted after the inline image must come out as well
            xim = gen_image(rng, w=rng.randint(1, 20), h=rng.randint(1, 10))
            xname = "Xi%d" % i
            xb = [500 + 5 * i, 600 + 9 * i, 500 + 5 * i + rng.randint(1, 90), 600 + 9 * i + rng.randint(1, 90)]
            ops.append(b"q %d 0 0 %d %d %d cm /%s Do Q" % (xb[2] - xb[0], xb[3] - xb[1], xb[0], xb[1], xname.encode()))
            xobjs.append((xname, xim))
            draws.append({"page": 0, "name": xname, "kind": xim["kind"], "cskind": xim.get("cskind", xim["kind"]),
                          "w": xim["w"], "h": xim["h"], "data": xim["data"], "bbox": xb, "chain": xim["chain"],
                          "inline": False, "sep": b"", "forms": ["after_inline"], "pred": xim.get("pred")})

    def join(parts: List[bytes]) -> bytes:
        out = bytearray()
        for k, p in enumerate(parts):
            out += p
            if k + 1 < len(parts) and p[-1:] not in (b" ", b"\n", b"\r", b"\t", b"\x0c", b"\x00"):
                out += b"\n"
        return bytes(out)

    # /Contents as an array (ISO 32000-1 7.7.3.3, 7.8.2): the streams are split between operators, every stream ends
    # in white space, and the first inline image is never in the first stream; `pad` bytes of operators that paint
    # nothing (also more than one 4096-byte buffer) come first
    content: Any = join(ops)
    if nstreams > 1:
        first_bi = next(k for k, p_ in enumerate(ops) if p_.startswith(b"BI "))
        padding: List[bytes] = []
        size = 0
        while size < pad:
            padding.append(rng.choice(PAD_OPS))
            size += len(padding[-1]) + 1
        parts = [b"q"] + padding + [b"Q"] + ops
        first_bi += len(padding) + 2
        cuts = {rng.randint(1, first_bi)}
        while len(cuts) < min(nstreams - 1, len(parts) - 1):
            cuts.add(rng.randint(1, len(parts) - 1))
        bounds = [0] + sorted(cuts) + [len(parts)]
        content = []
        for a, b in zip(bounds, bounds[1:]):
            st = join(parts[a:b])
            if b < len(parts) and st[-1:] not in (b" ", b"\n", b"\r", b"\t", b"\x0c", b"\x00"):
                st += b"\n"
            content.append(st)
        stream_of = {}
        for k in range(len(parts)):
            stream_of[k] = next(i for i, (a, b) in enumerate(zip(bounds, bounds[1:])) if a <= k < b)
        bi_parts = [k for k, p_ in enumerate(parts) if p_.startswith(b"BI ")]
        for dr, k in zip([d for d in draws if d["inline"]], bi_parts):
            dr["feat"]["stream"] = stream_of[k]
            dr["feat"]["before"] = sum(len(c) for c in content[:stream_of[k]])
    res: Dict[str, Any] = {"Font": {"F1": font_widths()}}
    doc = Doc()
    if xobjs:
        res = dict(res, XObject={n: doc.add(xobj_stream(im, rng, doc)) for n, im in xobjs})
    pdf = page_doc([{"content": content, "resources": res}], doc=doc).build()
    res = {"Font": {"F1": font_widths()}}
    pdf_plain = page_doc([{"content": join(plain), "resources": res}]).build()
    return {"fam": fam, "pdf": pdf, "plain": pdf_plain, "draws": draws, "chars": chars, "pre": {},
            "otype": rng.choice(["text", "text", "xml", "html"]), "lap": rng.random() < 0.5, "export": export, "tag": tag}


def gen_inline_item(rng: random.Random, *, after: Optional[bytes] = None, sep: Optional[bytes] = None,
                    keystyle: Optional[str] = None, big: bool = False) -> Dict[str, Any]:
    """One inline image whose raw bytes are free of end markers (retries with fresh samples)."""
    if not big and rng.random() < 0.12:
        # ASCII85 as the first filter (key /F or /Filter): the data end at '~>', so 'EI' followed by white space may
        # occur inside the text (the only place where the generator writes such a sequence before the real EI)
        kind = rng.choice(["gray8", "rgb8", "gray1"])
        w, h = rng.randint(1, 67), rng.randint(1, 12)
        while row_bytes(kind, w) * h < 4:
            w, h = rng.randint(4, 67), rng.randint(1, 12)
        img = gen_image(rng, kind, w, h, ["A85"], rng.choice(["random", "struct", "const0"]))
        img["pred"] = None
        img["data"], raw = a85_text_with_EI_ws(rng, img["data"])
        return {"img": img, "raw": raw, "sep": sep if sep is not None else rng.choice(SEPS), "id_ws": rng.choice(ID_WS),
                "after": after if after is not None else rng.choice(AFTER_EI[:7]),
                "keystyle": keystyle or rng.choice(["abbr", "abbr", "full", "mixed"]),
                "wrap": rng.choice(["q", "q", "qtext"]), "a85_ei": True}
    for _ in range(200):
        kind = rng.choice(["gray8", "gray8", "rgb8", "gray1", "dct"])
        r = rng.random()
        if kind == "dct":
            chain = ["DCT"] if r < 0.6 else [rng.choice(["A85", "AHx", "Fl", "RL", "LZW"]), "DCT"]
        elif r < 0.45:
            chain = []
        elif r < 0.85:
            chain = [rng.choice(enc.LOSSLESS)]
        else:
            chain = [rng.choice(enc.LOSSLESS), rng.choice(enc.LOSSLESS)]
        if big:
            w, h = rng.randint(40, 67), rng.randint(25, 40)
            if kind == "gray8" and rng.random() < 0.5:
                w, h = rng.randint(4000, 4200), 1  # one row that ends near the buffer boundary
        else:
            w, h = rng.randint(1, 67), rng.randint(1, 12)
        pattern = rng.choice(["random", "markers", "markers", "struct", "const0"])
        img = gen_image(rng, kind, w, h, chain, pattern)
        if len(chain) != 1:
            img["pred"] = None  # [null <<..>>] in a content stream is left to the operand-syntax checks
        if not chain and kind != "dct":
            img["data"] = unmark(img["data"])
        if kind == "dct" and chain == ["DCT"]:
            img["data"] = unmark(img["data"])
        s = sep if sep is not None else rng.choice(SEPS)
        if sep is None and chain[:1] != ["A85"] and rng.random() < 0.2:
            # no white space between the data and EI; ASCII85-first data keep one (their EOD is followed by white space)
            s = NO_SEP
            if img["chain"] in ([], ["DCT"]) and kind != "dct" and rng.random() < 0.65:
                k = min(rng.choice([1, 1, 2, 3, 4, 5]), len(img["data"]))
                img["data"] = unmark(img["data"][:len(img["data"]) - k] + b"E" * k)  # odd and even runs of E before EI
        raw = inline_raw(rng, img, s)
        if raw is None:
            continue
        if raw.endswith(b"\r") and s == b"\n":
            continue  # tagged sub-family only (TAG_CR_LF)
        if s == NO_SEP and raw[-1:] in (b"\r", b"\n"):
            continue  # an end-of-line marker there could be the separator as well as data
        ws = rng.choice(ID_WS)
        return {"img": img, "raw": raw, "sep": s, "id_ws": ws,
                "after": after if after is not None else rng.choice(AFTER_EI[:7]),
                "keystyle": keystyle or rng.choice(["abbr", "abbr", "full", "mixed"]),
                "wrap": rng.choice(["q", "q", "qtext"])}
    raise RuntimeError("could not generate marker-free inline data")


# --------------------------------------------------------------------------
# observation
# --------------------------------------------------------------------------
_CALLS: List[Dict[str, Any]] = []


def _innermost(e: BaseException) -> str:
    tb = e.__traceback__
    fn = "?"
    while tb is not None:
        if os.sep + "pdfminer" + os.sep in tb.tb_frame.f_code.co_filename:
            fn = tb.tb_frame.f_code.co_name
        tb = tb.tb_next
    return fn


def _install_hook() -> None:
    from pdfminer import image as pim

    if getattr(pim.ImageWriter, "_vf_hooked", False):
        return
    orig = pim.ImageWriter.export_image

    def export_image(self, image):  # noqa: ANN001
        before = set(os.listdir(self.outdir))
        rec: Dict[str, Any] = {"name": image.name, "ret": None, "exc": None, "new": [], "content": {}}
        _CALLS.append(rec)
        try:
            ret = orig(self, image)
            rec["ret"] = ret
            return ret
        except Exception as e:  # noqa: BLE001
            rec["exc"] = "%s:%s" % (type(e).__name__, _innermost(e))
            raise
        finally:
            rec["new"] = sorted(set(os.listdir(self.outdir)) - before)
            for n in rec["new"]:
                try:
                    with open(os.path.join(self.outdir, n), "rb") as f:
                        rec["content"][n] = f.read()
                except OSError:
                    pass

    pim.ImageWriter.export_image = export_image  # type: ignore[method-assign]
    pim.ImageWriter._vf_hooked = True  # type: ignore[attr-defined]


def _expect_ext(dr: Dict[str, Any]) -> str:
    return ".jpg" if dr["kind"] == "dct" else ".bmp"


def _raw_level(dr: Dict[str, Any]) -> bool:
    """Data of this draw reach LTImage without any decoding (unfiltered samples or bare DCT)."""
    return dr["chain"] in ([], ["DCT"])


def _data_ok(dr: Dict[str, Any], got: bytes) -> Tuple[bool, bool]:
    """-> (acceptable, separator byte kept).  For an inline image whose data are not behind a decoding
    filter the white space written before EI may be kept (the specification does not say whether it
    belongs to the data; a consumer uses the first rowbytes*height bytes)."""
    want = dr["data"]
    if got == want:
        return True, False
    if dr["inline"] and _raw_level(dr) and got.startswith(want):
        extra = got[len(want):]
        if extra and dr["sep"].startswith(extra):
            return True, True
    return False, False


def _describe_data_diff(want: bytes, got: bytes) -> str:
    if len(got) < len(want) and want.startswith(got):
        return "lost the last %d byte(s) %r" % (len(want) - len(got), want[len(got):][:8])
    if got.startswith(want):
        return "has %d extra trailing byte(s) %r" % (len(got) - len(want), got[len(want):][:12])
    i = next((k for k in range(min(len(want), len(got))) if want[k] != got[k]), min(len(want), len(got)))
    return "lengths %d/%d, first difference at %d: want %r got %r" % (len(want), len(got), i, want[i:i + 8], got[i:i + 8])


def _compare_bmp(dr: Dict[str, Any], content: bytes) -> List[Tuple[str, str]]:
    kind = dr["kind"]
    b = refbmp.read_bmp(content)
    fails = [(k + ":" + kind, "%s (%dx%d %s)" % (t, dr["w"], dr["h"], kind)) for k, t in b.problems]
    if not b.rows and b.problems:
        return fails
    if (b.width, b.height) != (dr["w"], dr["h"]):
        fails.append(("bmp_dimensions_differ:" + kind, "file %dx%d, image %dx%d" % (b.width, b.height, dr["w"], dr["h"])))
        return fails
    want = pixels(kind, dr["w"], dr["h"], dr["data"])
    if b.rows == want:
        return fails
    # name the mechanism
    rows = b.rows
    if rows == [[(p[2], p[1], p[0]) for p in r] for r in want]:
        mech, txt = "channels_reversed", "every pixel has R and B exchanged"
    elif rows == want[::-1]:
        mech, txt = "rows_reversed", "rows are in reverse vertical order"
    elif any(p is None for r in rows for p in r) and all(
            p is None or p == q for r, wr in zip(rows, want) for p, q in zip(r, wr)):
        mech, txt = "pixels_missing", "pixels beyond the end of the file"
    else:
        mech = "differ"
        txt = ""
    for yy, (r, wr) in enumerate(zip(rows, want)):
        if r != wr:
            xx = next(k for k in range(len(wr)) if r[k] != wr[k])
            txt += " first difference at row %d col %d: file %r, stored sample %r" % (yy, xx, r[xx], wr[xx])
            break
    fails.append(("bmp_samples_%s:%s" % (mech, kind), "%dx%d %s chain=%s predictor=%s: %s" % (
        dr["w"], dr["h"], kind, dr["chain"], short(dr.get("pred"), 80), txt)))
    return fails


def _walk(o: Any, imgs: List[Any], chars: List[Any]) -> None:
    from pdfminer.layout import LTChar, LTImage

    if isinstance(o, LTImage):
        imgs.append(o)
        return
    if isinstance(o, LTChar):
        chars.append(o)
        return
    if hasattr(o, "__iter__") and not isinstance(o, (str, bytes)):
        for c in o:
            _walk(c, imgs, chars)


def _layout(pdf: bytes) -> Tuple[Optional[List[Tuple[List[Any], List[Any]]]], Optional[Tuple[str, str]]]:
    from pdfminer.high_level import extract_pages

    pages = []
    try:
        for pg in extract_pages(io.BytesIO(pdf)):
            imgs: List[Any] = []
            chars: List[Any] = []
            _walk(pg, imgs, chars)
            pages.append((imgs, chars))
    except Exception as e:  # noqa: BLE001
        return None, ("layout_exception:%s:%s" % (type(e).__name__, _innermost(e)), repr(e))
    return pages, None


def _csname(x: Any) -> str:
    from pdfminer.psparser import PSLiteral

    if isinstance(x, PSLiteral):
        return x.name if isinstance(x.name, str) else repr(x.name)
    return repr(x)


def check_doc(case: Dict[str, Any]) -> Tuple[List[Tuple[str, str]], Dict[str, int]]:
    """Run all monitors on one document -> (failures, observation counters)."""
    _install_hook()
    fails: List[Tuple[str, str]] = []
    obs: Dict[str, int] = {}

    def count(k: str, n: int = 1) -> None:
        obs[k] = obs.get(k, 0) + n

    draws = case["draws"]
    pdf = case["pdf"]

    # ---------------- (1) export through the high-level API
    if case["export"]:
        from pdfminer.high_level import extract_text_to_fp
        from pdfminer.layout import LAParams

        tmp = tempfile.mkdtemp(prefix="vfC18-")
        try:
            for n, c in case["pre"].items():
                with open(os.path.join(tmp, n), "wb") as f:
                    f.write(c)
            del _CALLS[:]
            out = io.BytesIO()
            exc = None
            try:
                extract_text_to_fp(io.BytesIO(pdf), out, output_type=case["otype"], codec="utf-8",
                                   laparams=LAParams() if case["lap"] else None, output_dir=tmp)
            except Exception as e:  # noqa: BLE001
                exc = e
                fails.append(("export_exception:%s:%s" % (type(e).__name__, _innermost(e)),
                              "extract_text_to_fp(output_type=%s) raised %r" % (case["otype"], e)))
            calls = list(_CALLS)
            final = {}
            for n in os.listdir(tmp):
                with open(os.path.join(tmp, n), "rb") as f:
                    final[n] = f.read()
        finally:
            shutil.rmtree(tmp, ignore_errors=True)

        # pre-existing files are untouched
        for n, c in case["pre"].items():
            count("preexisting_files_checked")
            if final.get(n) != c:
                fails.append(("preexisting_file_modified", "file %r existed before the export and was %s" % (
                    n, "removed" if n not in final else "overwritten")))
        # one new, distinctly named file per call; never modified afterwards
        created: Dict[str, int] = {}
        for ci, c in enumerate(calls):
            if c["exc"]:
                continue
            if len(c["new"]) != 1 or c["new"][0] != c["ret"]:
                fails.append(("export_name_mismatch", "export_image(%r) returned %r but the new files are %r" % (
                    c["name"], c["ret"], c["new"])))
                continue
            fn = c["ret"]
            if fn in created or fn in case["pre"]:
                fails.append(("export_name_not_distinct", "file name %r used twice" % fn))
            created[fn] = ci
            # the image name, where a character that cannot be part of a file name (/ \ :) may be replaced
            stem = "".join("[^/\\\\]" if ch in "/\\:" else re.escape(ch) for ch in c["name"])
            stem_ok = re.match(r"^%s(\.\d+)?\.[a-z0-9]+$" % stem, fn) is not None
            if not stem_ok or "/" in fn or "\\" in fn:
                fails.append(("export_name_form", "image %r exported as %r" % (c["name"], fn)))
            if re.match(r"^%s\.\d+\.[a-z0-9]+$" % stem, fn):
                count("name_collisions_resolved")
                if any(o["name"] != c["name"] and o["ret"] and o["ret"].split(".")[0] == fn.split(".")[0] for o in calls):
                    count("name_collisions_after_sanitising")  # another image's name maps to the same file name
            if final.get(fn) != c["content"].get(fn):
                fails.append(("export_overwritten_later", "file %r changed after the call that created it" % fn))
        extra = set(final) - set(case["pre"]) - set(created)
        if extra and exc is None:
            fails.append(("export_unaccounted_file", "files %r were not returned by any export_image call" % sorted(extra)))
        # converter output names the files
        if exc is None and case["otype"] in ("xml", "html"):
            text = out.getvalue().decode("utf-8", "replace")
            for fn in created:
                count("output_src_checked")
                if ('src="%s"' % fn) not in text:
                    fails.append(("output_src_missing:" + case["otype"], "exported file %r is not referenced in the %s output" % (fn, case["otype"])))
        # content: match every call to a draw (exact matches first, so that one wrong file is
        # reported against the draw it belongs to and not against its neighbours)
        unmatched = list(range(len(draws)))
        todo = [c for c in calls if not c["exc"] and len(c["new"]) == 1]

        def evaluate(c: Dict[str, Any], i: int) -> List[Tuple[str, str]]:
            dr = draws[i]
            fn = c["new"][0]
            content = c["content"].get(fn, b"")
            ext = os.path.splitext(fn)[1]
            if ext != _expect_ext(dr):
                return [("export_format:%s:%s" % (dr["kind"], ext), "image %s %dx%d %s chain=%s exported as %r" % (
                    dr["kind"], dr["w"], dr["h"], dr["cskind"], dr["chain"], fn))] * 100
            if ext == ".jpg":
                ok, _kept = _data_ok(dr, content)
                return [] if ok else [("jpg_bytes_differ", "chain=%s: %s" % (dr["chain"], _describe_data_diff(dr["data"], content)))]
            return _compare_bmp(dr, content)

        def candidates(c: Dict[str, Any]) -> List[int]:
            return [i for i in unmatched if (draws[i]["name"] == c["name"] if not draws[i]["inline"]
                                             else not any(d["name"] == c["name"] for d in draws))]

        def matched(c: Dict[str, Any], i: int, f: List[Tuple[str, str]]) -> None:
            unmatched.remove(i)
            dr = draws[i]
            fails.extend(f[:3])
            ext = os.path.splitext(c["new"][0])[1]
            if ext == ".bmp" and dr["kind"] != "dct":
                count("bmp_files_decoded")
                count("bmp_%s" % dr["kind"])
                count("bmp_wmod4_%d" % (row_bytes(dr["kind"], dr["w"]) % 4))
            elif ext == ".jpg":
                count("jpg_files_compared")
            count("export_inline" if dr["inline"] else "export_xobj")

        rest = []
        for c in todo:
            for i in candidates(c):
                if not evaluate(c, i):
                    matched(c, i, [])
                    break
            else:
                rest.append(c)
        for c in rest:
            cands = candidates(c)
            if not cands:
                fails.append(("export_unexpected_image", "export of an image named %r that no draw accounts for" % c["name"]))
                continue
            scored = sorted(((len(evaluate(c, i)), i) for i in cands))
            i = scored[0][1]
            matched(c, i, evaluate(c, i))
        if exc is None:
            for i in unmatched:
                dr = draws[i]
                fails.append(("export_missing:" + ("inline" if dr["inline"] else "xobj"),
                              "no file for %s image %r %s %dx%d chain=%s feat=%r" % (
                                  "inline" if dr["inline"] else "XObject", dr["name"], dr["kind"], dr["w"], dr["h"],
                                  dr["chain"], dr.get("feat"))))
        count("export_docs_" + case["otype"])

    # ---------------- (2) LTImage / LTChar through extract_pages
    pages, err = _layout(pdf)
    if err is not None:
        fails.append(err)
        return fails, obs
    assert pages is not None
    npages = max([d["page"] for d in draws] + [0]) + 1
    if len(pages) != npages:
        fails.append(("page_count", "%d pages, expected %d" % (len(pages), npages)))
        return fails, obs
    for p in range(npages):
        imgs = list(pages[p][0])
        for dr in [d for d in draws if d["page"] == p]:
            label = "inline" if dr["inline"] else "xobj"
            bb = tuple(float(v) for v in dr["bbox"])
            hit = None
            for im in imgs:
                if tuple(im.bbox) == bb and (dr["inline"] or im.name == dr["name"]):
                    hit = im
                    break
            if hit is None:
                fails.append(("ltimage_missing:" + label, "no LTImage with bbox %r name %r on page %d (have %r); feat=%r" % (
                    bb, dr["name"], p, [(i.name if not dr["inline"] else "*", tuple(i.bbox)) for i in imgs][:6], dr.get("feat"))))
                continue
            imgs.remove(hit)
            count("ltimage_found_" + label)
            try:
                got = hit.stream.get_data()
            except Exception as e:  # noqa: BLE001
                fails.append(("ltimage_get_data_exception:%s:%s" % (type(e).__name__, _innermost(e)), repr(e)))
                continue
            ok, kept = _data_ok(dr, got)
            count("ltimage_data_compared")
            if kept:
                count("inline_separator_byte_kept")
            if not ok:
                diff = _describe_data_diff(dr["data"], got)
                if case.get("tag") == TAG_CR_LF and got == dr["data"][:-1] and dr["data"].endswith(b"\r"):
                    fails.append((TAG_CR_LF, "data end in CR and are followed by LF EI: %s" % diff))
                else:
                    fails.append(("%s_data_mismatch:%s" % (label, "raw" if _raw_level(dr) else "filtered"),
                                  "%s %dx%d chain=%s sep=%r: %s" % (dr["kind"], dr["w"], dr["h"], dr["chain"], dr["sep"], diff)))
            if tuple(hit.srcsize) != (dr["w"], dr["h"]):
                fails.append(("ltimage_srcsize:" + label, "%r, written %r" % (hit.srcsize, (dr["w"], dr["h"]))))
            wantbits = 1 if dr["kind"] == "gray1" else 8
            if hit.bits != wantbits:
                fails.append(("ltimage_bits:" + label, "%r, written %r" % (hit.bits, wantbits)))
            cs = [_csname(x) for x in hit.colorspace]
            full, abbr = CS_FULL[dr["cskind"]], CS_ABBR[dr["cskind"]]
            if cs not in ([full], [abbr] if dr["inline"] else [full]):
                fails.append(("ltimage_colorspace:" + label, "%r, written %s" % (cs, full)))
        if imgs:
            fails.append(("ltimage_unexpected", "page %d has %d LTImage(s) no draw accounts for: %r" % (
                p, len(imgs), [(i.name, tuple(i.bbox), i.srcsize) for i in imgs][:4])))

    # ---------------- (3) glyphs after inline images
    if case["chars"]:
        got = sorted((p, c.get_text(), [float(v) for v in c.matrix]) for p in range(npages) for c in pages[p][1])
        want = sorted((c["page"], c["text"], c["m"]) for c in case["chars"])
        count("inline_text_docs")
        count("glyphs_after_inline_compared", len(want))
        if got != want:
            miss = [w for w in want if w not in got]
            more = [g for g in got if g not in want]
            fails.append(("text_after_inline_differs", "missing glyphs %s; unexpected glyphs %s" % (short(miss, 300), short(more, 300))))
        ppages, perr = _layout(case["plain"])
        if perr is not None:
            fails.append(("harness_plain_document_failed", perr[1]))
        else:
            assert ppages is not None

            def full(pgs: List[Tuple[List[Any], List[Any]]]) -> List[Any]:
                return sorted((p, c.get_text(), tuple(c.matrix), tuple(c.bbox), c.fontname, c.size, c.adv, c.upright)
                              for p in range(len(pgs)) for c in pgs[p][1])

            a, b = full(pages), full(ppages)
            if a != b:
                fails.append(("text_differs_from_document_without_inline_images",
                              "with images: %s | without: %s" % (short([x for x in a if x not in b], 300), short([x for x in b if x not in a], 300))))
    return fails, obs


# --------------------------------------------------------------------------
# shards
# --------------------------------------------------------------------------
def _record(case: Dict[str, Any], rec, extra_see: Optional[Dict[str, Any]] = None) -> None:
    fails, obs = check_doc(case)
    for k, v in obs.items():
        rec.count(k, v)
    rec.count("docs_" + case["fam"])
    rec.see("output_types", case["otype"])
    for dr in case["draws"]:
        h = chash(dr["kind"], dr["w"], dr["h"], dr["data"], dr["chain"], dr["inline"], dr.get("feat", {}), dr.get("pred"))
        rec.case(h, dr["kind"] == "dct" or dr["w"] * dr["h"] >= 2)
        ch = "+".join(dr["chain"]) or "none"
        pr = dr.get("pred")
        if pr:
            where = "inline" if dr["inline"] else "xobj"
            if pr["p"] == 2:
                rec.count("predictor_tiff2_" + where)
                rec.see("predictor_kinds", "tiff2:" + dr["kind"])
            else:
                rec.count("predictor_png_" + where)
                rec.see("predictor_kinds", "png:" + dr["kind"])
                for t in set(pr["ftypes"]):
                    rec.see("png_row_filters", "%s:%d" % (dr["kind"], t))
                if dr["h"] > 1 and dr["w"] != (3 if dr["kind"] == "rgb8" else 1) and any(t in (1, 3, 4) for t in pr["ftypes"]):
                    rec.count("predictor_png_left_neighbour_rows_colors_ne_columns")
        rec.see("chains", ("inline:" if dr["inline"] else "xobj:") + ch)
        if dr["inline"]:
            rec.count("inline_images")
            f = dr["feat"]
            rec.see("inline_after_EI", repr(f["after"]) if f["after"] else "end-of-stream")
            rec.see("inline_sep", repr(dr["sep"]))
            if dr["sep"] == NO_SEP:
                rec.count("inline_no_separator")
                if _raw_level(dr):
                    n = e_run(dr["data"])
                    if n:
                        rec.count("inline_no_separator_E_run_" + ("odd" if n % 2 else "even"))
                else:
                    rec.count("inline_no_separator_filtered")
            rec.see("inline_id_ws", repr(f["id_ws"]))
            rec.see("inline_keystyle", f["keystyle"])
            if f.get("fform") and len(dr["chain"]) == 1:
                rec.count("inline_single_filter_" + f["fform"].replace(":", "_"))
                rec.see("inline_single_filter_spelling", "%s %s %s" % (f["fkey"], f["fform"], dr["chain"][0]))
            if f.get("a85_ei"):
                rec.count("inline_a85_text_with_EI_ws")
                rec.count("inline_a85_text_with_EI_ws_" + f["fform"].split(":")[0])
                rec.count("inline_a85_text_with_EI_ws_key_" + f["fkey"])
            if f.get("stream"):
                rec.count("inline_in_later_content_stream")
                rec.see("inline_stream_index", f["stream"])
                if f["before"] > 4096:
                    rec.count("inline_after_more_than_4096_bytes_of_earlier_streams")
            rec.count("inline_keystyle_" + f["keystyle"])
            if dr["rawlen"] > 4096:
                rec.count("inline_data_over_4096")
            if _raw_level(dr):
                d = dr["data"]
                tail = "EOL" if d[-1:] in (b"\n", b"\r") else "E" if d[-1:] == b"E" else "ws" if d[-1:] in (b" ", b"\t", b"\x00", b"\x0c") else \
                    "I" if d[-1:] == b"I" else "~>" if d[-2:] == b"~>" else "other"
                rec.see("inline_tail", tail + "|" + repr(dr["sep"]))
                rec.count("inline_tail_" + tail)
                if re.search(rb"EI", d):
                    rec.count("inline_data_containing_EI_not_followed_by_ws")
        else:
            rec.count("xobj_draws")
            for f in dr.get("forms", []):
                rec.count("xobj_form_" + f)
            rec.see("xobj_widths", dr["w"])
            rec.see("xobj_heights", dr["h"])
            if dr["kind"] != "dct":
                rec.see("bmp_kind_wmod", "%s:%d" % (dr["kind"], dr["w"] % 8))
                if not dr["chain"]:
                    rec.count("xobj_unfiltered")
    if case["chars"]:
        rec.case(chash("text", case["pdf"]), True)
    if case["pre"]:
        rec.count("docs_with_preexisting_files")
    for k, d in fails:
        rec.fail(k, case, d)
    if not rec.samples and case["draws"]:
        dr = case["draws"][0]
        rec.sample({"fam": case["fam"], "otype": case["otype"], "first_draw": {k: dr[k] for k in ("kind", "w", "h", "chain", "inline", "name", "bbox")},
                    "pdf_bytes": len(case["pdf"]), "content_head": _content_head(case["pdf"]).decode("latin-1"), "observed": obs})


def _content_head(pdf: bytes) -> bytes:
    i = pdf.find(b"stream\n")
    m = re.search(rb"(q \d+ 0 0|BT /F1|\d+ 0 0 \d+ \d+ \d+ cm)", pdf)
    if m:
        return pdf[m.start():m.start() + 160]
    return pdf[i:i + 160]


SWEEP_CHAINS = [["Fl"], ["LZW"], ["RL"], ["A85"], ["AHx"], ["A85", "Fl"], ["AHx", "LZW"], ["Fl", "RL"], ["A85", "RL"],
                ["RL", "LZW"], ["Fl", "Fl"], ["LZW", "A85"]]


def run_shard(spec: Dict[str, Any], rec) -> None:
    enc.selftest()
    _selftest_bmp()
    fam = spec["fam"]
    if fam == "sweep":
        kind = KINDS[spec["kind"]]
        rng = random.Random("C18/sweep/%d/%d" % (spec["kind"], spec["part"]))  # seed independent
        widths = [w for w in range(1, 68) if w % spec["parts"] == spec["part"]]
        for rep in range(spec["reps"]):
            for w in widths:
                h = (w * 7 + spec["kind"] * 13 + rep * 11) % 40 + 1
                chains = [[], SWEEP_CHAINS[(w + rep) % len(SWEEP_CHAINS)], SWEEP_CHAINS[(w * 5 + rep + 3) % len(SWEEP_CHAINS)]]
                images = [gen_image(rng, kind, w, h if i != 1 else (h * 3 + i) % 40 + 1, ch,
                                    ["struct", "random", "struct"][(i + rep) % 3]) for i, ch in enumerate(chains)]
                _record(build_xobj_case(rng, images, 1 + (w + rep) % 2, "sweep"), rec)
    elif fam == "xobj":
        rng = random.Random("C18/%d/%d" % (spec["seed"], spec["sub"]))
        for _ in range(spec["n"]):
            images = [gen_image(rng) for _ in range(rng.randint(1, 5))]
            _record(build_xobj_case(rng, images, rng.randint(1, 3)), rec)
    elif fam == "inline_enum":
        _run_inline_enum(spec, rec)
    elif fam == "inline":
        rng = random.Random("C18/%d/%d" % (spec["seed"], spec["sub"]))
        for k in range(spec["n"]):
            n = rng.randint(1, 3)
            items = [gen_inline_item(rng, big=(k % 6 == 0 and i == 0)) for i in range(n)]
            if rng.random() < 0.15:
                items[-1]["after"] = b""
            ns = rng.choice([1, 1, 1, 2, 3, 4])
            _record(build_inline_case(rng, items, nstreams=ns, pad=rng.choice([0, 0, 30, 700, 4090, 4100, 5000, 9000])), rec)
    elif fam == "names":
        # resource names that differ only in characters a file name cannot keep (/ \ :): both images must get
        # their own file, in either order of appearance
        rng = random.Random("C18/%d/%d" % (spec["seed"], spec["sub"]))
        for k in range(spec["n"]):
            a, b = NAME_PAIRS[k % len(NAME_PAIRS)]
            pool = [a, b] if (k // len(NAME_PAIRS)) % 2 == 0 else [b, a]
            if k % 5 == 0:
                pool.insert(rng.randrange(3), re.sub(r"[/\\:_]", rng.choice(":/"), a))
                pool = list(dict.fromkeys(pool))
            dct = rng.random() < 0.2
            images = [gen_image(rng, "dct" if dct else rng.choice(list(KINDS)), rng.randint(1, 30), rng.randint(1, 12))
                      for _ in pool]
            _record(build_xobj_case(rng, images, rng.randint(1, 2), "names", pool=pool), rec)
    elif fam == "tagged":
        rng = random.Random("C18/%d/%d" % (spec["seed"], spec["sub"]))
        for _ in range(spec["n"]):
            _record(gen_tagged_case(rng), rec)
    else:
        raise ValueError(fam)


TAILS = [b"", b"E", b"EE", b"EEE", b"xEEEE", b"\n", b"\r", b"\r\n", b"\n\n", b"\n\r", b"E\n", b"\nE", b" ", b"I", b"EIx", b"xEI\x80", b"~>", b"~", b"\x00", b"E\r", b"\t"]


def _run_inline_enum(spec: Dict[str, Any], rec) -> None:
    """Unfiltered gray rows whose tail, separator, white space after EI and length are enumerated."""
    rng = random.Random("C18/inline_enum/%d" % spec["part"])  # seed independent
    combos = []
    # get_inline_data re-reads from the first data byte, so the parser's 4096-byte buffers end at data offsets
    # 4096, 8192: these lengths put 'E', 'I' and the byte after them on either side of a boundary
    lens = [1, 2, 3, 5, 17, 4092, 4093, 4094, 4095, 4096, 4097, 8190, 8191, 9001]
    for tail in TAILS:
        for sep in SEPS + [NO_SEP]:
            for after in AFTER_EI:
                combos.append((tail, sep, after))
    k = 0
    for ci, (tail, sep, after) in enumerate(combos):
        if ci % spec["parts"] != spec["part"]:
            continue
        nl = 3 if not spec["deep"] else len(lens)
        for j in range(nl):
            n = lens[(ci + j * 5) % len(lens)] if not spec["deep"] else lens[j]
            k += 1
            body = rng.randbytes(max(n - len(tail), 0)) if k % 2 else bytes(rng.choice(MARKER_BYTES) for _ in range(max(n - len(tail), 0)))
            data = unmark(body + tail)
            if MARK.search(data + sep[:1]):
                # the tail itself is an end marker in front of this separator ('EI' + white space): the 'I' is replaced
                data = unmark(data[:-1] + b"J") if data.endswith(b"EI") else data
                if MARK.search(data + sep[:1]):
                    continue
            if data.endswith(b"\r") and sep == b"\n":
                continue  # tagged sub-family
            if sep == NO_SEP and data[-1:] in (b"\r", b"\n"):
                continue  # ambiguous between data and separator
            img = {"kind": "gray8", "w": len(data), "h": 1, "data": data, "chain": [], "pattern": "enum"}
            # position the data so that the end marker meets the 4096-byte buffer boundary in different ways
            item = {"img": img, "raw": data, "sep": sep, "id_ws": ID_WS[k % len(ID_WS)], "after": after,
                    "keystyle": ["abbr", "full", "mixed"][k % 3], "wrap": "q" if k % 4 else "qtext"}
            items = [item]
            if after != b"" and k % 3 == 0:
                items.append(gen_inline_item(rng))
            ns = [1, 1, 2, 1, 3, 1, 4][k % 7]
            _record(build_inline_case(rng, items, "inline_enum", nstreams=ns, pad=[0, 4085, 17, 4096, 8200][k % 5]), rec)


def gen_tagged_case(rng: random.Random) -> Dict[str, Any]:
    """Unfiltered data whose last byte is CR, followed by the separator LF: identical to a main-family case
    except for that boundary.  Only the layout is observed (no export)."""
    kind = rng.choice(["gray8", "rgb8", "gray1"])
    w, h = rng.randint(1, 40), rng.randint(1, 8)
    data = unmark(make_samples(kind, w, h, rng.choice(["random", "markers"]), rng)[:-1] + b"\r")
    img = {"kind": kind, "w": w, "h": h, "data": data, "chain": [], "pattern": "tagged"}
    item = {"img": img, "raw": data, "sep": b"\n", "id_ws": rng.choice(ID_WS), "after": rng.choice(AFTER_EI[:6]),
            "keystyle": "abbr", "wrap": "q"}
    return build_inline_case(rng, [item], "tagged", tag=TAG_CR_LF, export=False)


# --------------------------------------------------------------------------
_BMP_TESTED = False


def _selftest_bmp() -> None:
    """The strict reader against hand-assembled files (independent little writer)."""
    global _BMP_TESTED
    if _BMP_TESTED:
        return
    import struct

    def mk(bits: int, w: int, h: int, rows_bottom_up: List[bytes], pal: List[Tuple[int, int, int]]) -> bytes:
        stride = ((w * bits + 31) // 32) * 4
        px = b"".join(r + bytes(stride - len(r)) for r in rows_bottom_up)
        palb = b"".join(bytes((b, g, r, 0)) for r, g, b in pal)
        off = 14 + 40 + len(palb)
        return (struct.pack("<2sIHHI", b"BM", off + len(px), 0, 0, off)
                + struct.pack("<IiiHHIIiiII", 40, w, h, 1, bits, 0, len(px), 0, 0, len(pal), 0) + palb + px)

    f = mk(24, 3, 2, [bytes([1, 2, 3, 4, 5, 6, 7, 8, 9]), bytes([11, 12, 13, 14, 15, 16, 17, 18, 19])], [])
    b = refbmp.read_bmp(f)
    assert not b.problems, b.problems
    assert b.rows == [[(13, 12, 11), (16, 15, 14), (19, 18, 17)], [(3, 2, 1), (6, 5, 4), (9, 8, 7)]], b.rows
    assert refbmp.read_bmp(f[:-1]).problems and refbmp.read_bmp(f + b"\0").problems
    f = mk(1, 10, 2, [bytes([0b10100000, 0b01000000]), bytes([0b11111111, 0b11000000])], [(0, 0, 0), (255, 255, 255)])
    b = refbmp.read_bmp(f)
    assert not b.problems, b.problems
    W, K = (255, 255, 255), (0, 0, 0)
    assert b.rows == [[W] * 10, [W, K, W, K, K, K, K, K, K, W]], b.rows
    f = mk(8, 5, 1, [bytes([0, 1, 2, 254, 255])], [(i, i, i) for i in range(256)])
    b = refbmp.read_bmp(f)
    assert not b.problems and b.rows == [[(0,) * 3, (1,) * 3, (2,) * 3, (254,) * 3, (255,) * 3]]
    _BMP_TESTED = True


def replay(case: Dict[str, Any]) -> List[Tuple[str, str]]:
    return check_doc(case)[0]
